"""E4 sample for C06/C07: requests abandoned at every stage of their way through a real `ProcessServlet` (see
abandon_proc_run.py).  Monitors only (the OS schedule is not controlled): every answer is the request's own, a request
with a generous deadline is answered, the backlog is 0 at rest, later requests are answered, `__exit__` returns."""
import json
import os
import signal
import subprocess
import time

import core


def gen_case(rng):
    nworkers = rng.choice([1, 1, 2])
    n = rng.choice([3, 4, 5, 6])
    reqs = []
    for k in range(n):
        kind = rng.choice(['busy', 'big', 'brief', 'brief', 'plain'])
        if kind == 'busy':       # keeps a worker busy
            q = dict(delay=0.0, dur=rng.choice([0.3, 0.5, 0.8]), size=10, timeout=20)
        elif kind == 'big':      # an input far beyond the pipe buffer: the onboarding thread blocks on it while workers are busy
            q = dict(delay=rng.choice([0.02, 0.05]), dur=0.0, size=rng.choice([200_000, 1_000_000, 3_000_000]), timeout=20)
        elif kind == 'brief':    # abandoned early: possibly before its input has left the server process
            q = dict(delay=rng.choice([0.05, 0.1, 0.2]), dur=rng.choice([0.0, 0.3]), size=rng.choice([10, 100_000]),
                     timeout=rng.choice([0.01, 0.05, 0.15, 0.3]))
        else:
            q = dict(delay=rng.choice([0.0, 0.1, 0.3]), dur=rng.choice([0.0, 0.1]), size=10, timeout=20)
        reqs.append(q)
    rest = sum(q['dur'] for q in reqs) + 1.0
    return dict(kind='abandon-proc', nworkers=nworkers, cap=n + 1, reqs=reqs, rest=rest, followups=2)


def corpus():
    """the request abandoned while still in the in-process input buffer, behind an input of 1 MB, all workers busy"""
    out = []
    for nw in (1, 2):
        reqs = [dict(delay=0.0, dur=0.5, size=10, timeout=20)] * nw + \
               [dict(delay=0.05, dur=0.0, size=1_000_000, timeout=20), dict(delay=0.1, dur=0.0, size=10, timeout=0.15),
                dict(delay=0.12, dur=0.0, size=10, timeout=0.05)]
        out.append(dict(kind='abandon-proc', nworkers=nw, cap=len(reqs) + 1, reqs=reqs, rest=2.0, followups=2))
    return out


def judge(case, r):
    mons = []

    def hit(rule, detail, props=('C06', 'C07')):
        for p in props:
            mons.append(dict(prop=p, rule=rule, detail=detail))
    n = len(case['reqs'])
    for k, q in enumerate(case['reqs']):
        o = r['out'].get(str(k))
        want = ['ok', [k, q['size']]]
        if o is None:
            hit('unanswered', f'request {k} never returned', ('C07',))
        elif o[0] == 'ok':
            if o != want:
                hit('crosstalk', f'request {k} got {o}, its own answer is {want}', ('C07',))
        elif o[0] == 'timeout':
            if q['timeout'] >= 20:
                hit('unanswered', f'request {k} with a 20 s deadline got TimeoutError', ('C07',))
        elif o[0] == 'full':
            hit('rejected-with-room', f'request {k} was rejected although the capacity ({case["cap"]}) exceeds the number of requests', ('C06',))
        else:
            hit('foreign-exception', f'request {k}: {o}', ('C07',))
    if r.get('idle_backlog'):
        hit('slot-leak', f'backlog {r["idle_backlog"]} at rest (all results had {case["rest"] + 10:.0f} s to emerge): a slot was never given back', ('C06', 'C07'))
    for j in range(case['followups']):
        o = r['out'].get(str(n + j))
        if o != ['ok', [n + j, 1]]:
            hit('later-request-unanswered', f'follow-up request {n + j} after the abandoned ones: {o}', ('C07',))
    if r.get('exit_hung'):
        hit('exit-hang', 'Server.__exit__ did not return within 30 s', ('C07',))
    for p in r.get('problems', []):
        hit('hang', p, ('C07',))
    return mons


def launch(case):
    env = dict(os.environ, PYTHONPATH=f'{core.HARNESS}:{core.REPO / "src"}')
    p = subprocess.Popen(['/venv/bin/python', str(core.HARNESS / 'abandon_proc_run.py'), json.dumps(case)],
                         stdout=subprocess.PIPE, stderr=subprocess.PIPE, text=True, env=env, start_new_session=True)
    try:
        so, se = p.communicate(timeout=240)
    except subprocess.TimeoutExpired:
        os.killpg(p.pid, signal.SIGKILL)
        p.communicate()
        return None, 'no result within 240 s'
    finally:
        try:
            os.killpg(p.pid, signal.SIGKILL)
        except Exception:  # noqa
            pass
    m = [l for l in so.splitlines() if l.startswith('RESULT ')]
    if not m:
        return None, se[-600:]
    return json.loads(m[-1][7:]), None


def sample(chk, prop, n):
    from concurrent.futures import ThreadPoolExecutor
    cases = corpus() + [gen_case(chk.rng) for _ in range(n)]
    with ThreadPoolExecutor(max(2, min(6, chk.workers // 2))) as tp:
        results = list(tp.map(launch, cases))
    nrun = 0
    for case, (r, err) in zip(cases, results):
        if r is None:
            if 'no result within' in (err or ''):
                chk.violations.append(dict(rule='proc-hang', detail=err, key='proc-hang:abandon-proc', case=case, events=None,
                                           size=core._case_size(case)))
                continue
            raise core.InfraError(f'abandon-proc sample produced no result: {err}')
        nrun += 1
        for m in judge(case, r):
            if m['prop'] == prop:
                chk.violations.append(dict(rule=m['rule'], detail=m['detail'], key=f"{m['rule']}:abandon-proc", case=case,
                                           events=[r], size=core._case_size(case)))
    chk.cov['evaluations'] += nrun
    d = chk.cov['distribution'].setdefault('abandon_proc (E4: real ProcessServlet, requests abandoned at every stage)', {})
    d['cases'] = nrun
    d['requests abandoned (TimeoutError)'] = sum(1 for (r, _e) in results if r for o in r['out'].values() if o[0] == 'timeout')
    if 'E4-processes' not in chk.cov['engines']:
        chk.cov['engines'].append('E4-processes')


def replay_case(chk, case):
    r, err = launch(case)
    if r is None:
        return [dict(prop=chk.prop, rule='proc-hang', detail=err)]
    return judge(case, r)
