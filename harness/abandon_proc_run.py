"""Run ONE case of the real-process sample of C06/C07 (own interpreter, own session; the caller kills the group).
argv[1] = case JSON.  A real `Server` over a `ProcessServlet`: requests with inputs of very different sizes (some far
beyond the pipe buffer, so that the thread that moves inputs into the pipe falls behind), service durations and
deadlines; some requests are abandoned (deadline expiry) before their input has even left the server process, others
while a worker is on them, others after the result is on its way.  Prints one JSON line `RESULT {...}`."""
import json
import sys
import threading
import time


def main():
    case = json.loads(sys.argv[1])
    from mpservice.mpserver import ProcessServlet, Server, ServerBacklogFull
    from abandon_proc_workers import SlowEcho
    out = {}
    res = dict(out=out, problems=[])
    srv = Server(ProcessServlet(SlowEcho, cpus=case['nworkers']), capacity=case['cap'])
    t_enter = time.time()
    srv.__enter__()
    try:
        def call(k, q):
            time.sleep(q['delay'])
            x = (k, q['dur'], 'x' * q['size'])
            try:
                y = srv.call(x, timeout=q['timeout'], backpressure=False)
                out[str(k)] = ['ok', list(y)] if isinstance(y, (tuple, list)) else ['other', repr(y)[:80]]
            except TimeoutError:
                out[str(k)] = ['timeout']
            except ServerBacklogFull:
                out[str(k)] = ['full']
            except BaseException as e:  # noqa
                out[str(k)] = ['other', repr(e)[:200]]

        ths = [threading.Thread(target=call, args=(k, q), daemon=True) for k, q in enumerate(case['reqs'])]
        for t in ths:
            t.start()
        for t in ths:
            t.join(60)
        if any(t.is_alive() for t in ths):
            res['problems'].append('a caller has not returned after 60 s')
        # at rest: every result has emerged (the longest service time is known), every slot is back
        deadline = time.time() + case['rest'] + 10.0
        while srv.backlog and time.time() < deadline:
            time.sleep(0.05)
        res['idle_backlog'] = srv.backlog
        res['t_rest'] = round(time.time() - t_enter, 2)
        # later requests are still answered, correctly
        n = len(case['reqs'])
        for j in range(case['followups']):
            k = n + j
            try:
                y = srv.call((k, 0.0, 'f'), timeout=20, backpressure=False)
                out[str(k)] = ['ok', list(y)]
            except BaseException as e:  # noqa
                out[str(k)] = ['other', type(e).__name__ + ':' + repr(e)[:160]]
        res['final_backlog'] = srv.backlog
    finally:
        t0 = time.time()
        box = []
        th = threading.Thread(target=lambda: box.append(srv.__exit__(None, None, None)), daemon=True)
        th.start()
        th.join(30)
        res['exit_hung'] = th.is_alive()
        res['t_exit'] = round(time.time() - t0, 2)
    print('RESULT ' + json.dumps(res), flush=True)


if __name__ == '__main__':
    main()
    import os
    os._exit(0)
