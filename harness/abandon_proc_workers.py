"""Worker of the real-process sample of C06/C07 (importable at module level for the spawned worker process)."""
import time

from mpservice.mpserver import Worker


class SlowEcho(Worker):
    def call(self, x):
        k, dur, payload = x
        if dur:
            time.sleep(dur)
        return (k, len(payload))
