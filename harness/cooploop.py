"""
Event loop whose selector wait is a cooperative `detsched.wait_until`, and whose clock is the
scheduler's virtual clock: lets the deterministic scheduler drive asyncio loops running in managed
threads (AsyncBuffer / SyncIter workers, AsyncServer, …) like any other thread.
Import after `detsched.install()`.
"""
import asyncio
import selectors

import detsched


class CoopSelector:
    """wraps a real selector; blocking is delegated to the cooperative scheduler"""

    def __init__(self, loop):
        self._real = selectors.SelectSelector()
        self._loop = loop

    def select(self, timeout=None):
        lp = self._loop
        if timeout is None or timeout > 0:
            detsched.SCHED.wait_until(lambda: len(lp._ready) > 0, timeout, 'loop.select')
        else:
            s = detsched.SCHED
            me = s.me()
            if getattr(s, 'poll_timers', False) and lp._scheduled and me is not None and s.current is me and not s.aborting:
                # Callbacks are queued and a timer is pending: in real time the clock may reach that timer during this
                # very iteration, so that the timer's callback runs right after the queued ones (a time-out racing with
                # the notification that is already on its way).  The poll is a scheduling point at which the loop
                # thread stays runnable but offers the timer's due time to the scheduler's early-firing choice.
                me.pred = None
                me.why = 'loop.poll'
                me.timed_out = False
                me.deadline = lp._scheduled[0]._when
                try:
                    s._pick_and_switch(me)
                finally:
                    me.deadline = None
                    me.timed_out = False
            else:
                s.yield_point('loop.poll')
        return self._real.select(0)

    def __getattr__(self, k):
        return getattr(self._real, k)


class CoopLoop(asyncio.SelectorEventLoop):
    def __init__(self):
        super().__init__(CoopSelector(self))

    def time(self):
        return detsched.SCHED.now


class CoopPolicy(asyncio.DefaultEventLoopPolicy):
    _loop_factory = CoopLoop


def install():
    asyncio.set_event_loop_policy(CoopPolicy())
