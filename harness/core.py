"""
Common machinery of the checks: Lean build + axiom audit, the driver pipe, worker pool for
scenario runs, verdict logic (monitors / correspondence / known findings / replays), evidence.
See DESIGN.md §3.
"""
import fcntl
import hashlib
import importlib
import json
import multiprocessing
import os
import random
import re
import subprocess
import sys
import time
from pathlib import Path

VERIF = Path(__file__).resolve().parents[1]
LEAN = VERIF / 'lean'
DRV = LEAN / '.lake' / 'build' / 'bin' / 'drv'
HARNESS = VERIF / 'harness'
REPO = Path(os.environ.get('VERIF_REPO', '/repo'))
ALLOWED_AXIOMS = {'propext', 'Classical.choice', 'Quot.sound'}
FORBIDDEN = re.compile(r'\b(sorry|admit|native_decide|bv_decide|implemented_by|unsafe)\b|^\s*axiom\s|maxHeartbeats\s+0')


class InfraError(Exception):
    """A problem of the harness itself (exit 2), never a verdict about /repo."""


# ----------------------------------------------------------------------------------------------
# Lean side
# ----------------------------------------------------------------------------------------------

def _lake_env():
    env = dict(os.environ)
    return env


def lean_build(timeout=900):
    """`lake build` under a file lock (several checks may run at the same time)."""
    lockf = open(LEAN / '.build.lock', 'w')
    fcntl.flock(lockf, fcntl.LOCK_EX)
    try:
        t0 = time.time()
        p = subprocess.run(['lake', 'build'], cwd=LEAN, capture_output=True, text=True, timeout=timeout,
                           env=_lake_env())
        ok = p.returncode == 0 and DRV.exists()
        return ok, (p.stdout + p.stderr)[-4000:], time.time() - t0
    finally:
        fcntl.flock(lockf, fcntl.LOCK_UN)
        lockf.close()


def _strip_comments(text):
    # remove /- ... -/ (nested not needed here) and -- comments
    text = re.sub(r'/-.*?-/', lambda m: '\n' * m.group(0).count('\n'), text, flags=re.S)
    return '\n'.join(l.split('--')[0] for l in text.split('\n'))


def theorems_in(path: Path):
    """fully qualified names of the theorems declared in a Props file"""
    text = _strip_comments(path.read_text())
    ns = []
    out = []
    for line in text.split('\n'):
        m = re.match(r'\s*namespace\s+(\S+)', line)
        if m:
            ns.append(m.group(1))
            continue
        m = re.match(r'\s*end\s+(\S+)', line)
        if m and ns and ns[-1] == m.group(1):
            ns.pop()
            continue
        m = re.match(r'\s*(?:@\[[^\]]*\]\s*)?theorem\s+(\S+)', line)
        if m:
            out.append('.'.join(ns + [m.group(1)]))
    return out


def lean_audit(prop, props_files):
    """Build, print the axioms of every theorem in the property's Props files, scan for forbidden
    tokens.  Returns (obligations:list[dict], problems:list[str], checker_cmd)."""
    problems = []
    ok, log, secs = lean_build()
    if not ok:
        problems.append('lake build failed: ' + log[-1500:])
        return [], problems, 'lake build'
    names = []
    imports = []
    for f in props_files:
        path = LEAN / 'MpsVerif' / f
        mod = 'MpsVerif.' + f[:-5].replace('/', '.')
        imports.append(mod)
        for t in theorems_in(path):
            names.append((t, f))
    auditdir = LEAN / '.lake' / 'audit'
    auditdir.mkdir(parents=True, exist_ok=True)
    af = auditdir / f'Audit_{prop}.lean'
    af.write_text(''.join(f'import {m}\n' for m in imports) + ''.join(f'#print axioms {n}\n' for n, _ in names))
    p = subprocess.run(['lake', 'env', 'lean', str(af)], cwd=LEAN, capture_output=True, text=True, timeout=600)
    out = p.stdout + p.stderr
    obligations = []
    for n, f in names:
        m = re.search(r"'" + re.escape(n) + r"' depends on axioms: \[([^\]]*)\]", out.replace('\n', ' '))
        if m:
            ax = [a.strip() for a in m.group(1).split(',') if a.strip()]
        elif re.search(r"'" + re.escape(n) + r"' does not depend on any axioms", out):
            ax = []
        else:
            ax = None
        good = ax is not None and set(ax) <= ALLOWED_AXIOMS
        if not good:
            problems.append(f'theorem {n}: axioms {ax} (lean said: {out[-300:] if ax is None else ""})')
        obligations.append(dict(kind='theorem', name=n, file='lean/MpsVerif/' + f, axioms=ax, discharged=good))
    # forbidden tokens anywhere in the library (outside comments)
    for path in list((LEAN / 'MpsVerif').rglob('*.lean')) + [LEAN / 'Main.lean']:
        for k, line in enumerate(_strip_comments(path.read_text()).split('\n'), 1):
            if FORBIDDEN.search(line):
                problems.append(f'forbidden token in {path.relative_to(VERIF)}:{k}: {line.strip()[:80]}')
    cmd = f'cd lean && lake build && lake env lean .lake/audit/Audit_{prop}.lean   # #print axioms of {len(names)} theorems'
    return obligations, problems, cmd


def run_driver(model, lines, timeout=3000):
    if not DRV.exists():
        raise InfraError('driver not built: ' + str(DRV))
    p = subprocess.run([str(DRV), model], input='\n'.join(lines) + '\n', capture_output=True, text=True,
                       timeout=timeout)
    if p.returncode != 0:
        raise InfraError(f'drv {model} exited {p.returncode}: {p.stderr[-500:]}')
    return p.stdout.splitlines()


# ----------------------------------------------------------------------------------------------
# Worker pool for scenario runs
# ----------------------------------------------------------------------------------------------

_SCEN = None


def _winit(scen_name, sched, quiet):
    global _SCEN
    if quiet:
        dn = os.open(os.devnull, os.O_WRONLY)
        os.dup2(dn, 1)
        os.dup2(dn, 2)
    sys.path.insert(0, str(HARNESS))
    if str(REPO / 'src') not in sys.path:
        sys.path.insert(0, str(REPO / 'src'))
    if sched:
        import detsched
        detsched.install()
    _SCEN = importlib.import_module(scen_name)


_WARM = False


def _wrun(case):
    global _WARM
    try:
        if not _WARM:
            # the first run in a process differs from later ones (lazy initialisation inside the
            # libraries adds scheduling points): run the first case once for warm-up and discard it,
            # so that a (case, seed) pair determines the run exactly, in every worker and in replay
            _WARM = True
            try:
                _SCEN.run_case(case)
            except BaseException:  # noqa
                pass
        return case, _SCEN.run_case(case)
    except BaseException as e:  # noqa
        import traceback
        text = ''.join(traceback.format_exception(type(e), e, e.__traceback__))[-2000:]
        # An exception that comes out of the code under test (innermost frame inside mpservice)
        # while the scenario was driving it is a finding about /repo, not a harness problem:
        # report it through the monitors of the properties the scenario serves.
        tb = traceback.extract_tb(e.__traceback__)
        crash_props = getattr(_SCEN, 'CRASH_PROPS', None)
        if crash_props and tb and '/src/mpservice/' in tb[-1].filename:
            return case, {'monitors': [dict(prop=p, rule='code-under-test-raised',
                                            detail=f'{type(e).__name__}: {e} at {tb[-1].filename.split("/src/")[-1]}:{tb[-1].lineno}')
                                       for p in crash_props],
                          'events': [], 'crash': text}
        return case, {'infra_error': text, 'monitors': [], 'events': []}


def _wrun_chunk(cases):
    return [_wrun(c) for c in cases]


class Pool:
    """Worker processes (spawned, non-daemonic so that scenarios may start processes themselves)."""

    def __init__(self, scen_name, workers, sched=True, quiet=True):
        import concurrent.futures as cf
        ctx = multiprocessing.get_context('spawn')
        self.ex = cf.ProcessPoolExecutor(workers, mp_context=ctx, initializer=_winit,
                                         initargs=(scen_name, sched, quiet))

    def map(self, cases, per_case_timeout=120.0):
        import concurrent.futures as cf
        csz = max(1, min(16, len(cases) // 64 or 1))
        chunks = [cases[i:i + csz] for i in range(0, len(cases), csz)]
        pending = [self.ex.submit(_wrun_chunk, ch) for ch in chunks]
        out = []
        for ch, p in zip(chunks, pending):
            try:
                out += p.result(timeout=per_case_timeout * len(ch))
            except cf.TimeoutError:
                self.close()
                raise InfraError(f'a scenario worker did not answer within {per_case_timeout * len(ch)}s')
            except cf.process.BrokenProcessPool as e:
                raise InfraError(f'a scenario worker died: {e}')
        return out

    def close(self):
        """idempotent"""
        try:
            for p in list((getattr(self.ex, '_processes', None) or {}).values()):
                try:
                    p.kill()
                except Exception:
                    pass
            self.ex.shutdown(wait=False, cancel_futures=True)
        except Exception:
            pass


# ----------------------------------------------------------------------------------------------
# Known findings
# ----------------------------------------------------------------------------------------------

def load_known(prop):
    """-> list of (key, text) for `known:` lines of this property"""
    out = []
    f = VERIF / 'KNOWN_FINDINGS.txt'
    if f.exists():
        for line in f.read_text().splitlines():
            m = re.match(r'known:\s+property=(\S+)\s+key=(\S+)\s+(.*)', line)
            if m and m.group(1) == prop:
                out.append((m.group(2), m.group(3)))
    return out


# ----------------------------------------------------------------------------------------------
# The check object
# ----------------------------------------------------------------------------------------------

class Check:
    def __init__(self, prop, tier, seed):
        self.prop = prop
        self.tier = tier
        self.seed = seed
        self.rng = random.Random(f'{prop}:{seed}')
        self.t0 = time.time()
        self.obligations = []
        self.problems = []        # proof-side problems (lean)
        self.violations = []      # dicts: rule, detail, case, key, replay
        self.corr_breaks = []     # dicts: model, case id, verdict line, case
        self.known_printed = {}
        self.known = load_known(prop)
        self.cov = dict(evaluations=0, distinct_nontrivial=0, traces_validated_against_impl=0, samples=[],
                        rule='', engines=[], choosers={}, distribution={})
        self._distinct = set()
        self.checker_cmd = ''
        self.trusted = []
        self.assumptions = []
        self.notes = []
        self.workers = int(os.environ.get('VERIF_WORKERS', '0')) or (16 if tier == 'thorough' else 8)

    # -- proof side ----------------------------------------------------------------------
    def audit(self, props_files):
        obl, problems, cmd = lean_audit(self.prop, props_files)
        self.obligations += obl
        self.problems += problems
        self.checker_cmd = cmd
        if self.tier == 'thorough' and not problems:
            # independent re-check of the compiled proofs (all modules the property's theorems depend on)
            mods = ['MpsVerif.' + f[:-5].replace('/', '.') for f in props_files]
            env = dict(os.environ)
            env['LEAN_PATH'] = f"{LEAN / '.lake' / 'build' / 'lib' / 'lean'}:/opt/veriftools/lean-4.33.0-linux/lib/lean"
            try:
                p = subprocess.run(['leanchecker'] + mods, cwd=LEAN, capture_output=True, text=True, timeout=1800, env=env)
                ok = p.returncode == 0
                msg = (p.stdout + p.stderr)[-800:]
            except Exception as e:  # noqa
                ok, msg = False, repr(e)
            self.add_obligation('leanchecker', 'leanchecker ' + ' '.join(mods), ok)
            if not ok:
                self.problems.append('leanchecker failed: ' + msg)
            self.checker_cmd += '; leanchecker ' + ' '.join(mods)
        return not problems

    def add_obligation(self, kind, name, discharged, **kw):
        self.obligations.append(dict(kind=kind, name=name, discharged=bool(discharged), **kw))

    # -- scenario runs ------------------------------------------------------------------------
    def run_cases(self, scen_name, cases, sched=True, per_case_timeout=120.0):
        pool = Pool(scen_name, min(self.workers, max(1, len(cases))), sched=sched)
        try:
            results = pool.map(cases, per_case_timeout)
        finally:
            pool.close()
        for case, res in results:
            if 'infra_error' in res:
                raise InfraError('scenario crashed: ' + res['infra_error'])
        return results

    def account(self, scen, results, engine):
        """coverage bookkeeping"""
        if engine not in self.cov['engines']:
            self.cov['engines'].append(engine)
        for case, res in results:
            self.cov['evaluations'] += 1
            ch = str(case.get('chooser', ['-'])[0])
            self.cov['choosers'][ch] = self.cov['choosers'].get(ch, 0) + 1
            sl = res.get('ahead_slack')
            if sl:
                # how close the real code came to the proved look-ahead bound (statistics only: C08_*_attained
                # say the bound is reached in the model for every capacity; this is the same on the real runs)
                d = self.cov['distribution'].setdefault('look-ahead observed on the real code (E1): ' + sl[0], {})
                d['cases'] = d.get('cases', 0) + 1
                d['max over cases'] = max(d.get('max over cases', -99), sl[1])
                d[f'cases with slack {sl[1]}'] = d.get(f'cases with slack {sl[1]}', 0) + 1
            if scen.nontrivial(case, res):
                key = dict(case)
                h = hashlib.sha1(json.dumps([key, res.get('events')], sort_keys=True, default=str).encode()).hexdigest()
                if h not in self._distinct:
                    self._distinct.add(h)
        self.cov['distinct_nontrivial'] = len(self._distinct)

    def sample(self, obj):
        if len(self.cov['samples']) < 4:
            self.cov['samples'].append(obj)

    # -- monitors -----------------------------------------------------------------------------
    def collect_monitors(self, results, props, keyfn=None):
        """monitor hits of this property -> self.violations (de-duplicated by finding key);
        known findings are printed once and not counted."""
        for case, res in results:
            for m in res.get('monitors', []):
                if m['prop'] not in props:
                    continue
                key = keyfn(case, res, m) if keyfn else f"{m['rule']}"
                known = [k for k in self.known if k[0] == key]
                if known:
                    if key not in self.known_printed:
                        self.known_printed[key] = known[0][1]
                    continue
                self.violations.append(dict(rule=m['rule'], detail=m['detail'], key=key, case=case,
                                            events=res.get('events'), size=_case_size(case)))

    # -- correspondence -------------------------------------------------------------------------
    def validate(self, model, scen, results, label=None, procs=None):
        """Replay the recorded traces through the Lean driver (several driver processes in parallel).
        A scenario may return no lines for a case (not validated: too large for the validator)."""
        chunks = []
        idx = []
        for k, (case, res) in enumerate(results):
            ls = scen.model_lines(k, case, res)
            if ls:
                chunks.append(ls)
                idx.append(k)
        if not chunks:
            return 0, 0
        procs = procs or min(self.workers, max(1, len(chunks) // 20))
        groups = [[] for _ in range(procs)]
        for i, ls in enumerate(chunks):
            groups[i % procs] += ls
        import concurrent.futures as cf
        with cf.ThreadPoolExecutor(procs) as ex:
            outs = list(ex.map(lambda g: run_driver(model, g) if g else [], groups))
        verdict = {}
        for out in outs:
            for l in out:
                w = l.split(' ', 2)
                if len(w) >= 2 and w[0] in ('ok', 'REJECT', 'NOFINAL', 'MISMATCH'):
                    verdict[w[1]] = l
        nval = 0
        for k in idx:
            case, res = results[k]
            v = verdict.get(str(k))
            if v is None:
                self.corr_breaks.append(dict(model=model, case=case, verdict='no answer from the driver', events=res.get('events')))
            elif v.startswith('ok'):
                nval += 1
            else:
                self.corr_breaks.append(dict(model=model, case=case, verdict=v, events=res.get('events'),
                                             monitors=res.get('monitors')))
        self.cov['traces_validated_against_impl'] += nval
        return nval, len(idx)

    # -- verdict --------------------------------------------------------------------------------
    def finish(self, level_text=''):
        wall = time.time() - self.t0
        exit_code = 0
        lines = []
        for key, text in self.known_printed.items():
            lines.append(f'KNOWN-FINDING: property={self.prop} {text}')
        for key, text in self.known:
            # every listed finding is printed on every run; one whose failing schedule did not come up in this run
            # (real processes under the OS scheduler) says so
            if key not in self.known_printed:
                lines.append(f'KNOWN-FINDING: property={self.prop} {text}  [listed in KNOWN_FINDINGS.txt; its failing '
                             f'schedule did not come up in this run]')
        replay_dir = VERIF / 'replays'
        nviol = 0
        if self.violations:
            # the smallest case per finding key
            best = {}
            for v in self.violations:
                if v['key'] not in best or v['size'] < best[v['key']]['size']:
                    best[v['key']] = v
            for key, v in best.items():
                replay_dir.mkdir(exist_ok=True)
                path = replay_dir / f'{self.prop}-{_slug(key)}-{self.seed}.json'
                path.write_text(json.dumps(dict(property=self.prop, kind='monitor', key=key, rule=v['rule'],
                                                detail=v['detail'], case=v['case'], events=v['events'],
                                                count_same_key=sum(1 for x in self.violations if x['key'] == key),
                                                how_to_replay=f'./check {self.prop} --replay {path.relative_to(VERIF)}'),
                                           indent=1, default=str))
                lines.append(f'VIOLATION property={self.prop} replay={path.relative_to(VERIF)}')
                nviol += 1
            exit_code = 1
        unexplained = [b for b in self.corr_breaks if not b.get('explained')]
        if (unexplained or self.problems) and not self.violations:
            replay_dir.mkdir(exist_ok=True)
            path = replay_dir / f'{self.prop}-unproved-{self.seed}.json'
            path.write_text(json.dumps(dict(
                property=self.prop, kind='proof-or-correspondence-broken',
                lean_problems=self.problems,
                correspondence_breaks=[dict(model=b['model'], verdict=b['verdict'], case=b['case'], events=b.get('events'))
                                       for b in unexplained[:5]],
                n_correspondence_breaks=len(unexplained),
                note='no monitor fired on any explored case: the property is no longer shown to hold, '
                     'but no failing input was found'), indent=1, default=str))
            lines.append(f'VIOLATION property={self.prop} replay={path.relative_to(VERIF)} no-failing-input-found')
            nviol += 1
            exit_code = 1
        # evidence
        n_obl = len(self.obligations)
        n_dis = sum(1 for o in self.obligations if o.get('discharged'))
        cov = dict(self.cov)
        cov.update(obligations=n_obl, discharged=n_dis, checker_cmd=self.checker_cmd or 'n/a',
                   trusted_base=self.trusted, obligation_list=self.obligations,
                   correspondence_breaks=len(self.corr_breaks), lean_problems=self.problems,
                   known_findings_printed=list(self.known_printed), notes=self.notes)
        ev = dict(property_id=self.prop, tier=self.tier, seed=self.seed, level='proof', coverage=cov,
                  assumptions=self.assumptions, wall_s=round(wall, 2), violations=nviol)
        if str(REPO) == '/repo':
            (VERIF / 'evidence').mkdir(exist_ok=True)
            (VERIF / 'evidence' / f'{self.prop}.json').write_text(json.dumps(ev, indent=1, default=str))
        else:
            # a run against a scratch copy (VERIF_REPO=…, e.g. a seeded change) must not overwrite
            # the evidence of the check on /repo itself
            (VERIF / 'replays').mkdir(exist_ok=True)
            ev['repo'] = str(REPO)
            (VERIF / 'replays' / f'evidence-{self.prop}-scratch.json').write_text(json.dumps(ev, indent=1, default=str))
        for l in lines:
            print(l)
        print(f'[{self.prop}] tier={self.tier} seed={self.seed} obligations={n_dis}/{n_obl} '
              f'evaluations={cov["evaluations"]} distinct_nontrivial={cov["distinct_nontrivial"]} '
              f'traces_validated={cov["traces_validated_against_impl"]} corr_breaks={len(self.corr_breaks)} '
              f'violations={nviol} wall={wall:.1f}s')
        return exit_code


def _slug(s):
    return re.sub(r'[^A-Za-z0-9_.-]+', '_', s)[:60]


def _case_size(case):
    try:
        return len(json.dumps(case, default=str))
    except Exception:
        return 10 ** 9


# ----------------------------------------------------------------------------------------------
# Generic flow for scheduler-driven (E1) scenarios
# ----------------------------------------------------------------------------------------------

class _Lines:
    def __init__(self, fn):
        self.model_lines = fn


def e1_flow(chk, scen_name, model, props, gen, n_cases, keyfn=None, sched=True, engine='E1-detsched',
            corpus=None, escalate_n=600, extra_models=()):
    """corpus + generated cases -> monitors + trace validation; on a correspondence break without a
    monitor hit, explore the neighbourhood of the disagreeing cases for a failing input."""
    sys.path.insert(0, str(HARNESS))
    scen = importlib.import_module(scen_name)   # parent: pure helpers only (no scheduler installed here)
    cases = list(corpus or []) + [gen(chk.rng) for _ in range(n_cases)]
    nb0 = len(chk.corr_breaks)
    nv0 = len(chk.violations)
    results = chk.run_cases(scen_name, cases, sched=sched)
    chk.account(scen, results, engine)
    chk.collect_monitors(results, props, keyfn)
    if model:
        chk.validate(model, scen, results)
    for m2, lines_fn in extra_models:
        # a second model fed from the same runs (its own events, its own driver)
        chk.validate(m2, _Lines(lines_fn), results)
    for case, res in results[:200]:
        if scen.nontrivial(case, res):
            chk.sample(dict(case=case, events=res.get('events', [])[:60], out=res.get('out'), end=res.get('end')))
            if len(chk.cov['samples']) >= 3:
                break
    new_breaks = chk.corr_breaks[nb0:]
    if new_breaks and len(chk.violations) == nv0:
        # search around the disagreeing cases (of THIS scenario only)
        seeds = []
        for b in new_breaks[:10]:
            for k in range(max(1, escalate_n // min(10, len(new_breaks)))):
                c = dict(b['case'])
                c['seed'] = chk.rng.randrange(1 << 30)
                c['chooser'] = list(chk.rng.choice([('random', 0.0), ('sticky', 0.2, 0.0), ('sticky', 0.05, 0.0),
                                                    ('pct', 2, 300, 0.0), ('pct', 3, 300, 0.0)]))
                seeds.append(c)
        seeds += [gen(chk.rng) for _ in range(escalate_n)]
        more = chk.run_cases(scen_name, seeds, sched=sched)
        chk.account(scen, more, engine)
        chk.collect_monitors(more, props, keyfn)
        chk.notes.append(f'{scen_name}: correspondence broke on {len(new_breaks)} cases; escalated search over {len(seeds)} more cases')
    return results
