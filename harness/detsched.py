"""
E1 — deterministic cooperative scheduler for real Python threads (see DESIGN.md §3.2).

`install()` (call it BEFORE importing mpservice) replaces the `threading` primitives,
`queue.SimpleQueue` and the clock.  Only one managed thread runs at a time (baton = a raw lock
per thread).  Every operation on a patched primitive is a scheduling point; blocking is
`wait_until(pred, timeout)`, so the scheduler knows exactly which threads are enabled.  Time is
virtual: timers fire when nothing else is enabled, or "early" when the chooser says so (an
arbitrary finite delay of the other threads is a legal OS schedule).  A schedule is the list of
thread ids chosen at each scheduling point (`Scheduler.trace`), so every run is replayable.

No enabled thread and no pending timer = deadlock, reported with every live thread's blocking
site; all threads are then unwound with a BaseException so that the process stays clean.
"""
import _thread
import collections
import heapq
import itertools
import random
import sys
import threading as _threading
import time as _time
import queue as _queue

_real_allocate = _thread.allocate_lock
_RealThread = _threading.Thread
_real_start = _threading.Thread.start
_real_join = _threading.Thread.join
_real_is_alive = _threading.Thread.is_alive


class _RealEvent:
    """Event built directly on a raw lock (immune to the patching below)."""

    def __init__(self):
        self._l = _real_allocate()
        self._l.acquire()
        self._flag = False

    def set(self):
        if not self._flag:
            self._flag = True
            self._l.release()

    def is_set(self):
        return self._flag

    def wait(self, timeout=None):
        if self._flag:
            return True
        if timeout is None:
            self._l.acquire()
        else:
            if not self._l.acquire(True, timeout):
                return False
        self._l.release()
        return True

_real_get_ident = _thread.get_ident
_real_sleep = _time.sleep
_real_monotonic = _time.monotonic


class Deadlock(BaseException):
    pass


class Abort(BaseException):
    pass


class TState:
    __slots__ = ('name', 'sem', 'pred', 'deadline', 'timed_out', 'done', 'tid', 'thread', 'why', 'timed_wait', 'expired_unsat')

    def __init__(self, name, tid):
        self.name = name
        self.tid = tid
        self.sem = _real_allocate()
        self.sem.acquire()
        self.pred = None      # None => runnable
        self.deadline = None
        self.timed_out = False
        self.expired_unsat = False   # the timed wait expired while its predicate was (still) false
        self.done = False
        self.thread = None
        self.why = ''
        self.timed_wait = 0.0   # virtual time this thread has spent blocked in TIMED waits


class Scheduler:
    def __init__(self, chooser, max_steps=200000):
        self.chooser = chooser
        self.now = 0.0
        self.threads = {}      # ident -> TState
        self.order = []        # TStates in creation order
        self.current = None
        self.steps = 0
        self.max_steps = max_steps
        self.trace = []        # schedule decisions (tid)
        self.events = []       # observable events
        self.aborting = False
        self.deadlock_info = None
        self.main_done = _real_allocate()
        self.tid_counter = itertools.count()
        self.on_step = []      # callbacks(sched) run at every scheduling decision
        self.switches = 0      # context switches actually taken
        self.early_fires = 0
        self.leaked_at_main_exit = []
        self.early_horizon = 100.0
        self.poll_timers = False   # cooploop: a pending loop timer may come due while callbacks are queued (opt-in per case)

    # -- registration -----------------------------------------------------
    def register_current(self, name):
        ts = TState(name, next(self.tid_counter))
        self.threads[_real_get_ident()] = ts
        self.order.append(ts)
        return ts

    def me(self):
        return self.threads.get(_real_get_ident())

    def emit(self, *ev):
        me = self.me()
        self.events.append((me.tid if me else -1,) + ev)

    # -- core ---------------------------------------------------------------
    def _enabled(self):
        out = []
        for ts in self.order:
            if ts.done:
                continue
            if ts.pred is None or ts.pred():
                out.append(ts)
        return out

    def _pick_and_switch(self, me):
        """Called by the running thread `me` (which may be blocked/done)."""
        while True:
            if self.aborting:
                nxt = None
                for ts in self.order:
                    if not ts.done and ts is not me:
                        nxt = ts
                        break
                if nxt is None:
                    if me.done:
                        return
                    # the last live thread of an aborted run must unwind too (not return from its
                    # wait as if the wait had succeeded)
                    raise Abort()
                # wake everybody; they raise Abort
                self.current = nxt
                nxt.sem.release()
                if me.done:
                    return
                me.sem.acquire()
                continue
            en = self._enabled()
            early = getattr(self.chooser, 'early', None)
            timed = None
            if en and early is not None:
                # only timers within the horizon may fire early ("racy" timers: request
                # deadlines, batching waits; never the harness's own long sleeps)
                near = [ts for ts in self.order if not ts.done and ts.deadline is not None
                        and ts.deadline - self.now <= self.early_horizon]
                if near and early(self):
                    en = []
                    timed = near
                    self.early_fires += 1
                    self.trace.append(-1)
            if not en:
                # advance virtual time to the earliest deadline
                if timed is None:
                    timed = [ts for ts in self.order if not ts.done and ts.deadline is not None]
                if not timed:
                    self.deadlock_info = [(ts.name, ts.why) for ts in self.order if not ts.done]
                    self.aborting = True
                    continue
                dl = min(ts.deadline for ts in timed)
                delta = max(self.now, dl) - self.now
                self.now = max(self.now, dl)
                if delta > 0:
                    for ts in self.order:
                        # (a thread that is runnable and merely offers a due time - an event loop polling with
                        # callbacks queued, see cooploop - is not blocked in a timed wait)
                        if not ts.done and ts.deadline is not None and ts.pred is not None:
                            ts.timed_wait += delta
                for ts in timed:
                    if ts.deadline <= self.now:
                        ts.timed_out = True
                        ts.expired_unsat = ts.pred is not None and not ts.pred()
                        ts.pred = None
                        ts.deadline = None
                continue
            self.steps += 1
            if self.steps > self.max_steps:
                self.deadlock_info = 'max_steps'
                self.aborting = True
                continue
            for cb in self.on_step:
                cb(self)
            nxt = self.chooser(self, en, me)
            self.trace.append(nxt.tid)
            if nxt is not me:
                self.switches += 1
            if nxt is me:
                me.pred = None
                me.deadline = None
                return
            self.current = nxt
            nxt.pred = None
            nxt.deadline = None
            nxt.sem.release()
            if me.done:
                return
            me.sem.acquire()
            if self.aborting:
                raise Abort()
            return

    def yield_point(self, why=''):
        me = self.me()
        if me is None or self.current is not me:
            return
        if self.aborting:
            raise Abort()
        me.pred = None
        me.why = why
        self._pick_and_switch(me)

    def wait_until(self, pred, timeout=None, why='', strict=False):
        """Block (virtually) until pred() is true.  Returns False on timeout.
        `strict`: the outcome is decided at the moment the wait expires (as for a timed lock acquisition inside
        the interpreter): a predicate that becomes true between the expiry and this thread's next step does not
        turn the time-out into a success."""
        me = self.me()
        if me is None or self.current is not me:
            # unmanaged thread: busy wait on real time (should not happen in spike)
            t0 = _real_monotonic()
            while not pred():
                if timeout is not None and _real_monotonic() - t0 > timeout:
                    return False
                _real_sleep(0.0005)
            return True
        if self.aborting:
            raise Abort()
        me.why = why
        me.timed_out = False
        if timeout is not None and timeout <= 0:
            # a pure poll is still a scheduling point
            me.pred = None
            self._pick_and_switch(me)
            return pred()
        me.pred = pred
        me.deadline = None if timeout is None else self.now + timeout
        self._pick_and_switch(me)
        if me.timed_out:
            me.timed_out = False
            if strict and me.expired_unsat:
                return False
            return pred()
        return True

    def thread_exit(self):
        me = self.me()
        me.done = True
        self._pick_and_switch(me)

    def all_done_except(self, me):
        return all(ts.done or ts is me for ts in self.order)


class NullSched:
    now = 0.0
    aborting = False

    def me(self):
        return None

    def yield_point(self, why=''):
        pass

    def emit(self, *a):
        pass

    def wait_until(self, pred, timeout=None, why='', strict=False):
        if pred():
            return True
        if timeout is not None:
            return False
        raise RuntimeError('would block outside the scheduler: ' + why)


NULL = NullSched()
SCHED = NULL


# -- patched primitives -------------------------------------------------------
class Lock:
    def __init__(self):
        self._owner = None

    def acquire(self, blocking=True, timeout=-1):
        s = SCHED
        if not blocking:
            s.yield_point('lock.try')
            if self._owner is None:
                self._owner = s.me() or 'unmanaged'
                return True
            return False
        ok = s.wait_until(lambda: self._owner is None, None if timeout is None or timeout < 0 else timeout, 'lock.acquire')
        if ok:
            self._owner = s.me() or 'unmanaged'
        return ok

    def release(self):
        if self._owner is None:
            raise RuntimeError('release unlocked lock')
        self._owner = None
        SCHED.yield_point('lock.release')

    def locked(self):
        return self._owner is not None

    __enter__ = acquire

    def __exit__(self, *a):
        self.release()

    def _at_fork_reinit(self):
        self._owner = None


class RLock:
    def __init__(self):
        self._owner = None
        self._count = 0

    def acquire(self, blocking=True, timeout=-1):
        s = SCHED
        me = s.me() or 'unmanaged'
        if self._owner is me:
            self._count += 1
            return True
        if not blocking:
            s.yield_point('rlock.try')
            if self._owner is None:
                self._owner = me
                self._count = 1
                return True
            return False
        ok = s.wait_until(lambda: self._owner is None, None if timeout is None or timeout < 0 else timeout, 'rlock.acquire')
        if ok:
            self._owner = me
            self._count = 1
        return ok

    def release(self):
        if self._owner is not (SCHED.me() or 'unmanaged'):
            raise RuntimeError('cannot release un-acquired lock')
        self._count -= 1
        if self._count == 0:
            self._owner = None
            SCHED.yield_point('rlock.release')

    __enter__ = acquire

    def __exit__(self, *a):
        self.release()

    # Condition support
    def _release_save(self):
        st = (self._count, self._owner)
        self._count = 0
        self._owner = None
        return st

    def _acquire_restore(self, st):
        SCHED.wait_until(lambda: self._owner is None, None, 'rlock.reacquire')
        self._count, self._owner = st

    def _is_owned(self):
        return self._owner is (SCHED.me() or 'unmanaged')


class _Token:
    """one per waiter; compared by identity (a list `[False]` would compare equal to every
    other waiter's token and `deque.remove` would take the wrong one)"""
    __slots__ = ('flag',)

    def __init__(self):
        self.flag = False


class Condition:
    def __init__(self, lock=None):
        if lock is None:
            lock = RLock()
        self._lock = lock
        self.acquire = lock.acquire
        self.release = lock.release
        self._waiters = collections.deque()

    def __enter__(self):
        return self._lock.__enter__()

    def __exit__(self, *a):
        return self._lock.__exit__(*a)

    def _is_owned(self):
        if hasattr(self._lock, '_is_owned'):
            return self._lock._is_owned()
        return self._lock._owner is (SCHED.me() or 'unmanaged')

    def wait(self, timeout=None):
        if not self._is_owned():
            raise RuntimeError('cannot wait on un-acquired lock')
        token = _Token()
        self._waiters.append(token)
        if isinstance(self._lock, RLock):
            st = self._lock._release_save()
        else:
            self._lock._owner = None
            st = None
        got = SCHED.wait_until(lambda: token.flag, timeout, 'cond.wait', True)
        # As in CPython's threading.Condition.wait: the lock is taken back FIRST and a waiter that timed out leaves
        # the waiters' list only afterwards - a notify() issued in between is spent on this waiter, which still
        # reports a time-out (the stdlib's own users re-check their predicate for that reason).
        if isinstance(self._lock, RLock):
            self._lock._acquire_restore(st)
        else:
            SCHED.wait_until(lambda: self._lock._owner is None, None, 'cond.reacquire')
            self._lock._owner = SCHED.me() or 'unmanaged'
        if not got:
            try:
                self._waiters.remove(token)     # identity comparison (see _Token)
            except ValueError:
                pass
        return got

    def wait_for(self, predicate, timeout=None):
        endtime = None
        result = predicate()
        while not result:
            if timeout is not None:
                if endtime is None:
                    endtime = SCHED.now + timeout
                waittime = endtime - SCHED.now
                if waittime <= 0:
                    break
            else:
                waittime = None
            self.wait(waittime)
            result = predicate()
        return result

    def notify(self, n=1):
        if not self._is_owned():
            raise RuntimeError('cannot notify on un-acquired lock')
        for _ in range(n):
            if not self._waiters:
                break
            self._waiters.popleft().flag = True

    def notify_all(self):
        self.notify(len(self._waiters))


class Event:
    def __init__(self):
        self._flag = False

    def is_set(self):
        SCHED.yield_point('event.is_set')
        return self._flag

    def set(self):
        self._flag = True
        SCHED.yield_point('event.set')

    def clear(self):
        self._flag = False
        SCHED.yield_point('event.clear')

    def wait(self, timeout=None):
        return SCHED.wait_until(lambda: self._flag, timeout, 'event.wait')


class Semaphore:
    def __init__(self, value=1):
        self._value = value

    def acquire(self, blocking=True, timeout=None):
        if not blocking:
            SCHED.yield_point('sem.try')
            if self._value > 0:
                self._value -= 1
                return True
            return False
        ok = SCHED.wait_until(lambda: self._value > 0, timeout, 'sem.acquire')
        if ok:
            self._value -= 1
        return ok

    def release(self, n=1):
        self._value += n
        SCHED.yield_point('sem.release')

    __enter__ = acquire

    def __exit__(self, *a):
        self.release()


class SimpleQueue:
    def __init__(self):
        self._q = collections.deque()

    def put(self, item, block=True, timeout=None):
        self._q.append(item)
        SCHED.yield_point('sq.put')

    def get(self, block=True, timeout=None):
        if not block:
            SCHED.yield_point('sq.get_nowait')
            if not self._q:
                raise _queue.Empty
            return self._q.popleft()
        ok = SCHED.wait_until(lambda: len(self._q) > 0, timeout, 'sq.get')
        if not ok:
            raise _queue.Empty
        return self._q.popleft()

    def put_nowait(self, item):
        return self.put(item, block=False)

    def get_nowait(self):
        return self.get(block=False)

    def empty(self):
        SCHED.yield_point('sq.empty')
        return len(self._q) == 0

    def qsize(self):
        return len(self._q)


def _managed_start(self):
    s = SCHED
    if s.me() is None:
        return _real_start(self)
    orig_run = self.run
    ready = _real_allocate()
    ready.acquire()
    box = {}

    def run():
        ts = s.register_current(self.name)
        ts.thread = self
        box['ts'] = ts
        ready.release()
        ts.sem.acquire()        # wait to be scheduled for the first time
        try:
            if s.aborting:
                return
            orig_run()
        except Abort:
            pass
        finally:
            s.thread_exit()

    self.run = run
    self._started = _RealEvent()
    _real_start(self)
    ready.acquire()            # child registered (it is parked on its sem)
    self._ds_ts = box['ts']
    s.yield_point('thread.start')


def _managed_join(self, timeout=None):
    s = SCHED
    ts = getattr(self, '_ds_ts', None)
    if ts is None or s.me() is None:
        return _real_join(self, timeout)
    s.wait_until(lambda: ts.done, timeout, 'thread.join')


def _managed_is_alive(self):
    ts = getattr(self, '_ds_ts', None)
    if ts is None:
        return _real_is_alive(self)
    SCHED.yield_point('thread.is_alive')
    return not ts.done


def v_sleep(d):
    SCHED.wait_until(lambda: False, max(d, 0.0) or 1e-9, 'sleep')


def v_now():
    return SCHED.now


_PATCHED = False


def install():
    """Patch stdlib names.  Must be called before importing the code under test."""
    global _PATCHED
    if _PATCHED:
        return
    _PATCHED = True
    _threading.Lock = Lock
    _threading.RLock = RLock
    _threading.Condition = Condition
    _threading.Event = Event
    _threading.Semaphore = Semaphore
    _threading.BoundedSemaphore = Semaphore
    _threading.Thread.start = _managed_start
    _threading.Thread.join = _managed_join
    _threading.Thread.is_alive = _managed_is_alive
    _queue.SimpleQueue = SimpleQueue
    _queue.time = v_now          # queue.py did `from time import monotonic as time`
    _threading._time = v_now
    _time.sleep = v_sleep
    _time.perf_counter = v_now
    _time.monotonic = v_now
    _time.time = v_now


# -- choosers ------------------------------------------------------------------
# A chooser is `choose(sched, enabled, me) -> TState`; an optional attribute `early(sched) -> bool`
# lets it fire the earliest pending timer although some thread is enabled.

def _has_timer(s):
    return True   # the scheduler only asks when a timer within its horizon exists


def random_chooser(seed, early_p=0.0):
    rng = random.Random(seed)

    def choose(s, enabled, me):
        return enabled[rng.randrange(len(enabled))]

    if early_p > 0:
        def early(s):
            return _has_timer(s) and rng.random() < early_p
        choose.early = early
    return choose


def sticky_chooser(seed, switch_prob=0.2, early_p=0.0):
    """Keeps running the current thread; switches with probability `switch_prob`."""
    rng = random.Random(seed)

    def choose(s, enabled, me):
        if me in enabled and rng.random() > switch_prob:
            return me
        return enabled[rng.randrange(len(enabled))]

    if early_p > 0:
        def early(s):
            return _has_timer(s) and rng.random() < early_p
        choose.early = early
    return choose


def pct_chooser(seed, depth=2, expected_steps=400, early_p=0.0):
    """PCT: random thread priorities, `depth-1` priority change points at random steps."""
    rng = random.Random(seed)
    prio = {}
    change = sorted(rng.randrange(1, max(2, expected_steps)) for _ in range(max(0, depth - 1)))
    state = {'k': 0, 'low': 0}

    def choose(s, enabled, me):
        state['k'] += 1
        for ts in enabled:
            if ts.tid not in prio:
                prio[ts.tid] = rng.random() + 1.0
        best = max(enabled, key=lambda ts: prio[ts.tid])
        if change and state['k'] >= change[0]:
            change.pop(0)
            state['low'] -= 1
            prio[best.tid] = state['low']     # demote the running favourite
            best = max(enabled, key=lambda ts: prio[ts.tid])
        return best

    if early_p > 0:
        def early(s):
            return _has_timer(s) and rng.random() < early_p
        choose.early = early
    return choose


class ReplayDiverged(Exception):
    pass


def replay_chooser(trace):
    """Replays `Scheduler.trace` (thread ids; -1 = fire the earliest timer early)."""
    tr = list(trace)
    pos = {'i': 0}

    def choose(s, enabled, me):
        if pos['i'] >= len(tr):
            # past the recorded schedule: continue with the lowest thread id (deterministic)
            return enabled[0]
        tid = tr[pos['i']]
        pos['i'] += 1
        for ts in enabled:
            if ts.tid == tid:
                return ts
        raise ReplayDiverged(f'step {pos["i"] - 1}: thread {tid} not enabled')

    def early(s):
        if pos['i'] < len(tr) and tr[pos['i']] == -1:
            pos['i'] += 1
            return True
        return False
    choose.early = early
    return choose


def make_chooser(spec, seed):
    """spec: ('random', early_p) | ('sticky', p, early_p) | ('pct', depth, steps, early_p) | ('replay', trace)"""
    kind = spec[0]
    if kind == 'random':
        return random_chooser(seed, *spec[1:])
    if kind == 'sticky':
        return sticky_chooser(seed, *spec[1:])
    if kind == 'pct':
        return pct_chooser(seed, *spec[1:])
    if kind == 'replay':
        return replay_chooser(spec[1])
    raise ValueError(spec)


class InfraHang(Exception):
    """The scheduler itself did not come back within the real-time cap (harness problem)."""


def run(fn, chooser, max_steps=200000, real_timeout=60.0):
    """Run fn() as managed 'main' under the scheduler; returns (result, exc, sched)."""
    global SCHED
    # Cyclic garbage collection runs finalizers (which may touch patched primitives, i.e. add
    # scheduling points) at allocation-count-dependent moments: switch it off during a run and
    # collect at a fixed point, so that a (case, seed) pair determines the schedule exactly.
    import gc
    gc.collect()
    gc_was = gc.isenabled()
    gc.disable()
    s = Scheduler(chooser, max_steps)
    SCHED = s
    out = {}
    done = _real_allocate()
    done.acquire()

    def main():
        ts = s.register_current('main')
        s.current = ts
        try:
            out['v'] = fn()
        except Abort:
            out['e'] = Deadlock(s.deadlock_info)
        except BaseException as e:  # noqa
            out['e'] = e
        finally:
            s.leaked_at_main_exit = [x.name for x in s.order if not x.done and x.name != 'main']
            try:
                s.thread_exit()
            finally:
                done.release()

    t = _RealThread(target=main, name='ds-main', daemon=True)
    _real_start(t)
    if not done.acquire(True, real_timeout):
        SCHED = NULL
        if gc_was:
            gc.enable()
        raise InfraHang(f'scheduler did not return within {real_timeout}s (steps={s.steps})')
    # wait for stragglers to unwind
    for ts in s.order:
        if ts.thread is not None:
            _real_join(ts.thread, 5)
    SCHED = NULL
    if gc_was:
        gc.enable()
    return out.get('v'), out.get('e'), s


def yield_here(why='user'):
    """Explicit scheduling point for instrumented code (e.g. service time of a worker function)."""
    SCHED.yield_point(why)


def emit(*ev):
    SCHED.emit(*ev)


def now():
    return SCHED.now


def my_timed_wait():
    """virtual time the calling thread has spent blocked in timed waits (scheduling delays of
    a runnable thread, and untimed lock waits, are not counted)"""
    me = SCHED.me()
    return me.timed_wait if me is not None else 0.0
