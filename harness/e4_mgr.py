"""
E4 engine for the manager server (`mpservice.multiprocessing.server_process`): one *director*
process (fresh interpreter, own session) starts a real `ServerProcess`, acts as client 0 and
drives further client processes through command pipes.  Used by scen_refcount (C13) and
scen_proxycall (C14).

    python -c "import e4_mgr; e4_mgr.director_main()" <case.json> <result.json>

The director executes `case['steps']`, a list of steps
    {'who': <client>, 'cmd': [...], 'expect': {...}?, 'probe': bool}
and records per step the command's (canonicalised) result and — for steps carrying `expect` — the
server's table of hosted objects / reference counts (`debug_info`, through a fresh connection, so
no serving thread is disturbed) and the existence of the shared-memory files, polled until they
equal the expectation or the settle deadline passes (the last observation is recorded).

Nothing here decides anything: monitors and the comparison with the Lean model are in the
scenario modules.
"""
import gc
import json
import os
import pickle
import sys
import threading
import time
import traceback


# ----------------------------------------------------------------------------------------------
# classes hosted in the server
# ----------------------------------------------------------------------------------------------

class Boom(Exception):
    pass


class Maker:
    """returns server-side proxies via managed() in all the ways the module documents"""

    def __init__(self):
        self._inner = [0]

    def make_list(self, vals):
        from mpservice.multiprocessing.server_process import managed_list
        return managed_list(list(vals))

    def make_dict(self):
        from mpservice.multiprocessing.server_process import managed_dict
        return managed_dict({})

    def make_mem(self, size):
        from mpservice.multiprocessing.server_process import MemoryBlock, managed_memoryblock
        return managed_memoryblock(MemoryBlock(size))

    def make_bundle(self, size):
        from mpservice.multiprocessing.server_process import MemoryBlock, managed_list, managed_memoryblock
        return {'lst': managed_list([1, 2]), 'plain': [1, 2], 'mem': managed_memoryblock(MemoryBlock(size))}

    def inner(self):
        from mpservice.multiprocessing.server_process import managed_list
        return managed_list(self._inner)

    def typed_list(self):
        # wrapped by the server through `method_to_typeid` (reply kind #PROXY)
        return [7]

    def noop(self):
        return 1


class Counter:
    """custom class for C14: state, a raising method, a managed() view of its own state"""

    def __init__(self, start=0):
        self.n = start
        self.log = []

    def add(self, k):
        self.n += k
        self.log.append(k)
        return self.n

    def get(self):
        return self.n

    def fail(self, tag, payload):
        # mutates first, then raises: the mutation must be visible, like a direct call
        self.log.append(tag)
        if tag == 'value':
            raise ValueError(tag, payload)
        if tag == 'key':
            raise KeyError(payload)
        if tag == 'zero':
            return 1 // 0
        raise Boom(tag, payload)

    def history(self):
        from mpservice.multiprocessing.server_process import managed_list
        return managed_list(self.log)

    def snapshot(self):
        return list(self.log)

    def echo(self, *args, **kwargs):
        return [list(args), kwargs]

    def poke(self, target, v):
        # `target` is a proxy, used here *inside the server* (short-cut path of BaseProxy._callmethod)
        target.append(v)
        return len(target)

    def poke_pop(self, target):
        return target.pop()

    def relay_fail(self, target, tag, payload):
        # `target` is a proxy of a hosted Counter (possibly of this one), used inside the server:
        # the method that actually raises is the *inner* `fail`
        return target.fail(tag, payload)


class Memory:
    class Store:
        """hosted through managed() without a typeid; shares its class name — hence its typeid 'ManagedStore' —
        with Disk.Store, but not its public methods"""

        def __init__(self):
            self._items = []

        def add(self, v):
            self._items.append(v)

        def size(self):
            return len(self._items)

        def items(self):
            return list(self._items)

        def take(self):                 # only Memory.Store
            return self._items.pop()


class Disk:
    class Store:
        def __init__(self):
            self._items = []

        def add(self, v):
            self._items.append(v)

        def size(self):
            return len(self._items)

        def items(self):
            return list(self._items)

        def flip(self):                 # only Disk.Store
            self._items.reverse()


class Widget:
    """an ad-hoc class: never registered, handed out with managed(Widget(n)) (typeid made up on the fly)"""

    def __init__(self, n):
        self.n = n

    def value(self):
        return self.n

    def bump(self):
        self.n += 1
        return self.n


class Hub:
    def __init__(self):
        self._mem = Memory.Store()
        self._disk = Disk.Store()

    def mem_store(self):
        from mpservice.multiprocessing.server_process import managed
        return managed(self._mem)

    def disk_store(self):
        from mpservice.multiprocessing.server_process import managed
        return managed(self._disk)

    def widget(self, n):
        from mpservice.multiprocessing.server_process import managed
        return managed(Widget(n))


class Slow:
    """a registered class whose constructor takes a moment (Server.create runs constructors under its mutex)"""

    def __init__(self, ms=4):
        time.sleep(ms / 1000.0)

    def ping(self):
        return 1


class Board:
    def __init__(self, name):
        self.name = name

    def noop(self):
        return 1


_BOARDS = {}


def board(name):
    """a registered *callable* that returns an object which may be hosted already: get-or-create by name (the
    natural way for several processes to reach one shared hosted object through a pickled manager)"""
    return _BOARDS.setdefault(name, Board(name))


def _register():
    from mpservice.multiprocessing.server_process import ServerProcess
    if 'Maker' not in ServerProcess._registry:
        ServerProcess.register('Maker', Maker, method_to_typeid={'typed_list': 'ManagedList'})
        ServerProcess.register('Counter', Counter)
        ServerProcess.register('Hub', Hub)
        ServerProcess.register('Slow', Slow)
        ServerProcess.register('Board', board)


# ----------------------------------------------------------------------------------------------
# canonical values
# ----------------------------------------------------------------------------------------------

def canon(v, agent=None, keep=None):
    """JSON-able canonical form.  Proxies become {'$proxy': real ident, 'typeid': …} and are stored
    in `agent.h` under the next name of `keep` (without a name they are dropped at once)."""
    from mpservice.multiprocessing.server_process import BaseProxy
    if isinstance(v, BaseProxy):
        name = keep.pop(0) if keep else None
        if agent is not None and name is not None:
            agent.h[name] = v
        return {'$proxy': v._id, 'typeid': v._token.typeid, 'as': name, 'cls': type(v).__name__,
                'addr': str(v._token.address)}
    if v is None or isinstance(v, (bool, int, str)):
        return v
    if isinstance(v, float):
        return {'$float': repr(v)}
    if isinstance(v, bytes):
        return {'$bytes': v.hex()}
    if isinstance(v, tuple):
        return {'$tuple': [canon(x, agent, keep) for x in v]}
    if isinstance(v, list):
        return [canon(x, agent, keep) for x in v]
    if isinstance(v, dict):
        return {'$dict': [[canon(k, agent, keep), canon(x, agent, keep)] for k, x in v.items()]}   # in iteration order
    if isinstance(v, (set, frozenset)):
        return {'$set': sorted((canon(x, agent, keep) for x in v), key=lambda x: json.dumps(x, sort_keys=True))}
    if isinstance(v, BaseException):
        return canon_exc(v)
    return {'$repr': type(v).__name__}


def tb_frames(text):
    """[function name, line number] of every frame of a hosted class's own method (defined in this
    file) in a formatted traceback, outermost first"""
    import re
    return [[m.group(2), int(m.group(1))] for m in re.finditer(r'e4_mgr\.py", line (\d+), in (\w+)', text)]


def canon_exc(e):
    from mpservice.multiprocessing.remote_exception import get_remote_traceback, is_remote_exception
    try:
        remote = bool(is_remote_exception(e))
        tb = get_remote_traceback(e) if remote else ''
    except Exception:  # noqa
        remote, tb = False, ''
    return {'$exc': type(e).__name__, 'args': canon(tuple(e.args)), 'remote': remote, 'tb_frames': tb_frames(tb or ''),
            'tb_has_site': 'Traceback (most recent call last)' in (tb or '') and type(e).__name__ in (tb or ''),
            'tb_len': len(tb or '')}


def decanon(v, agent):
    """inverse of the generator's argument encoding: {'$h': name} → that proxy"""
    if isinstance(v, dict):
        if '$h' in v:
            return agent.h[v['$h']]
        if '$tuple' in v:
            return tuple(decanon(x, agent) for x in v['$tuple'])
        if '$dict' in v:
            return {decanon(k, agent): decanon(x, agent) for k, x in v['$dict']}
        if '$bytes' in v:
            return bytes.fromhex(v['$bytes'])
        if '$set' in v:
            return frozenset(decanon(x, agent) for x in v['$set'])
        if '$slice' in v:
            return slice(*v['$slice'])
        if '$float' in v:
            return float(v['$float'])
        raise ValueError(v)
    if isinstance(v, list):
        return [decanon(x, agent) for x in v]
    return v


# ----------------------------------------------------------------------------------------------
# a client: executes commands on its own proxies
# ----------------------------------------------------------------------------------------------

class Agent:
    def __init__(self, name, manager, queue=None, manager_b=None):
        self.name = name
        self.manager = manager
        self.managers = {'A': manager, 'B': manager_b}   # a second, independent server process (or None)
        self.queue = queue     # a multiprocessing.Queue shared by all clients of the case
        self.h = {}            # handle name -> proxy
        self.children = {}     # child name -> Process

    def do(self, cmd):
        op = cmd[0]
        try:
            return getattr(self, 'c_' + op)(*cmd[1:])
        except BaseException as e:  # noqa
            return {'$raised': canon_exc(e), 'trace': traceback.format_exc()[-1500:]}

    # -- reference-level commands
    def c_create(self, typeid, args, name, srv='A'):
        p = getattr(self.managers[srv], typeid)(*decanon(args, self))
        return canon(p, self, [name])

    def c_pickle(self, name):
        return {'$bytes': pickle.dumps(self.h[name]).hex()}

    def c_unpickle(self, data, name):
        p = pickle.loads(bytes.fromhex(data))
        return canon(p, self, [name])

    def c_qput(self, name):
        # pickled later, by the queue's feeder thread
        self.queue.put(self.h[name])
        return None

    def c_qget(self, name):
        p = self.queue.get(timeout=15)
        return canon(p, self, [name])

    def c_delete(self, name):
        del self.h[name]
        gc.collect()
        return None

    def c_call(self, name, method, args=(), kwargs=None, keep=None, attr=False):
        """call a proxy method (or read a property when `attr`); proxies in the result are kept
        under the names in `keep` (in traversal order), others are dropped immediately"""
        px = self.h[name]
        a = decanon(list(args), self)
        kw = decanon(kwargs or {'$dict': []}, self)
        try:
            if attr:
                r = getattr(px, method)
            else:
                r = getattr(px, method)(*a, **kw)
        except Exception as e:
            return {'$raised': canon_exc(e)}
        finally:
            del a, kw
        out = canon(r, self, list(keep or []))
        del r
        gc.collect()
        return out

    def c_inplace(self, name, op, arg):
        """`x op= arg` with x bound to the proxy: what is x afterwards?  (the handle keeps the proxy)"""
        x = self.h[name]
        a = decanon(arg, self)
        try:
            if op == 'imul':
                x *= a
            elif op == 'iadd':
                x += a
            else:
                x |= a
        except Exception as e:
            return {'$raised': canon_exc(e)}
        return canon(x, self, None)

    def c_storm(self, name, n_threads, n_calls, slow_ms, base):
        """`n_threads` threads call hub.widget(k) `n_calls` times each and use the returned proxy, while one more
        thread keeps creating `Slow` objects (constructor under the server mutex); every call must give a live
        proxy that behaves like the Widget itself"""
        hub = self.h[name]
        # the Slow objects are created on the server that hosts the hub (its mutex is the contended one)
        mgr = next((m for m in self.managers.values() if m is not None and str(m._address) == str(hub._token.address)),
                   self.manager)
        bad, good = [], [0] * n_threads
        stop = threading.Event()

        def caller(t):
            for j in range(n_calls):
                if bad:
                    return
                k = base + 1000 * t + j
                try:
                    w = hub.widget(k)
                    got = [type(w).__name__.startswith('AutoProxy'), w.value(), w.bump(), w.value()]
                    if got != [True, k, k + 1, k + 1]:
                        bad.append(f'thread {t} call {j}: widget({k}) behaved {got}')
                        return
                    del w
                    good[t] += 1
                except Exception as e:  # noqa
                    txt = f'{e.args!r}'
                    bad.append(f'thread {t} call {j}: widget({k}) raised {type(e).__name__}' +
                               (txt if len(txt) < 300 else '(… ' + txt[-300:]))
                    return

        def creator():
            while not stop.is_set():
                try:
                    s = mgr.Slow(slow_ms)
                    del s
                except Exception as e:  # noqa
                    bad.append(f'creator: {e!r}'[:300])
                    return

        ts = [threading.Thread(target=caller, args=(t,), daemon=True) for t in range(n_threads)]
        cr = threading.Thread(target=creator, daemon=True)
        cr.start()
        for t in ts:
            t.start()
        t_end = time.monotonic() + 15.0          # explicit hang bound for the whole storm
        for t in ts:
            t.join(max(0.0, t_end - time.monotonic()))
        stop.set()
        cr.join(2)
        hung = [t.name for t in ts + [cr] if t.is_alive()]
        if not hung:
            gc.collect()
        return {'good': sum(good), 'bad': bad[:3], 'hung': bool(hung)}

    def c_setattr(self, name, key, value):
        try:
            setattr(self.h[name], key, decanon(value, self))
        except Exception as e:
            return {'$raised': canon_exc(e)}
        return None

    def c_getattr(self, name, key, keep=None):
        try:
            r = getattr(self.h[name], key)
        except Exception as e:
            return {'$raised': canon_exc(e)}
        return canon(r, self, list(keep or []))

    def c_delattr(self, name, key):
        try:
            delattr(self.h[name], key)
        except Exception as e:
            return {'$raised': canon_exc(e)}
        return None

    def c_threads(self, calls):
        """run several calls concurrently, one thread each (each thread gets its own connection);
        returns the results in the order of `calls`"""
        out = [None] * len(calls)

        def run(k, c):
            out[k] = self.do(c)
        ts = [threading.Thread(target=run, args=(k, c)) for k, c in enumerate(calls)]
        for t in ts:
            t.start()
        for t in ts:
            t.join(30)
        return out

    def c_shmname(self, name):
        return self.h[name].name

    def c_handles(self):
        return sorted(self.h)

    def c_spawn(self, child, handles, addr, proc_cls, hold=False, drop=()):
        """start a child client process with proxies as Process arguments (they are un-pickled
        while the spawned child bootstraps)"""
        if proc_cls == 'mpservice':
            from mpservice.multiprocessing import Process
        else:
            import multiprocessing
            Process = multiprocessing.get_context('spawn').Process
        # handles: list of [name in this client, name in the child]
        p = Process(target=client_main,
                    args=(child, addr, self.manager, [(hc, self.h[hp]) for hp, hc in handles], hold, self.queue,
                          self.managers['B']))
        p.start()
        # `drop`: this client's own proxies (by name) that it deletes right after start(), i.e. while
        # the pickled copies are still in transit to the bootstrapping child (start() has already
        # released the Process object's reference to its args)
        for hp in drop:
            del self.h[hp]
        self.children[child] = p
        return None

    def c_fork(self, child, addr):
        """start a child with the FORK start method: it inherits this client's proxies through memory (no
        pickling); the stdlib's after-fork hook increments each of them in the child.  Only called in
        single-threaded client processes."""
        import multiprocessing
        p = multiprocessing.get_context('fork').Process(target=forked_main, args=(child, addr, self))
        p.start()
        self.children[child] = p
        return None

    def c_nthreads(self):
        return threading.active_count()

    def c_join(self, child):
        p = self.children.pop(child)
        p.join(20)
        alive = p.is_alive()
        return {'alive': alive, 'exitcode': p.exitcode}

    def c_nop(self):
        return None


_HELD = []


def client_main(name, addr, manager, proxies, hold=False, queue=None, manager_b=None):
    """a client process: connect to the director, execute its commands until 'exit'.
    `hold`: keep the agent (and with it every proxy it still has) referenced from a module global,
    so that the proxies are still alive when the process exits (only exit handlers can then give
    their references back); otherwise they die with this function's frame."""
    from multiprocessing.connection import Client
    _register()
    ag = Agent(name, manager, queue, manager_b)
    if hold:
        _HELD.append(ag)
    info = []
    p = None
    for h, p in proxies:
        ag.h[h] = p
        info.append([h, p._id, p._token.typeid, str(p._token.address)])
    # the Process object keeps its `args` alive for the life of the child: empty the list in place,
    # so that the agent's handle table holds the only reference to each inherited proxy
    proxies.clear()
    del proxies, p
    conn = Client(addr, family='AF_UNIX')
    conn.send(('hello', name, info))
    while True:
        try:
            cmd = conn.recv()
        except EOFError:
            os._exit(3)
        if cmd[0] == 'exit':
            conn.send(None)
            conn.close()
            return          # normal process exit: exit handlers run
        conn.send(ag.do(cmd))


def forked_main(name, addr, ag):
    """a forked client: `ag` is the parent's agent as copied by fork(), with all its proxies"""
    from multiprocessing.connection import Client
    ag.name = name
    ag.children = {}
    _HELD.append(ag)           # the inherited proxies are alive when this process exits
    info = [[h, p._id, p._token.typeid, str(p._token.address)] for h, p in ag.h.items()]
    conn = Client(addr, family='AF_UNIX')
    conn.send(('hello', name, info))
    while True:
        try:
            cmd = conn.recv()
        except EOFError:
            os._exit(3)
        if cmd[0] == 'exit':
            conn.send(None)
            conn.close()
            return
        conn.send(ag.do(cmd))


# ----------------------------------------------------------------------------------------------
# the director
# ----------------------------------------------------------------------------------------------

class Director:
    def __init__(self, case):
        from multiprocessing.connection import Listener
        from mpservice.multiprocessing.server_process import ServerProcess
        _register()
        self.case = case
        self.op_timeout = case.get('op_timeout', 20.0)
        self.settle = case.get('settle', 1.5)
        # an explicit authkey that differs from the processes' own (inherited) key
        ak = case.get('authkey')
        self.manager = ServerProcess(authkey=ak.encode() if ak else None)
        self.manager.start()
        self.servers = {'A': self.manager}
        if case.get('two_servers'):
            # a second, independent manager server process; proxies of objects hosted by one server may be
            # stored inside containers hosted by the other
            self.servers['B'] = ServerProcess()
            self.servers['B'].start()
        self.srv_of = {str(m._address): name for name, m in self.servers.items()}
        import multiprocessing
        self.me = Agent('0', self.manager, multiprocessing.get_context('spawn').Queue(), self.servers.get('B'))
        self.listener = Listener(family='AF_UNIX')
        self.addr = self.listener.address
        self.conns = {}
        self.real2h = {}      # '<server>:<real ident string>' -> harness ident (latest incarnation)
        self.shm = {}         # harness ident -> shared memory name
        self.saved = {}       # token -> pickle (hex) in transit

    def accept(self, expected_name):
        # the listener's accept has no timeout: use a helper thread
        box = []

        def acc():
            try:
                c = self.listener.accept()
                box.append((c, c.recv()))
            except Exception as e:  # noqa
                box.append(e)
        t = threading.Thread(target=acc, daemon=True)
        t.start()
        t.join(self.op_timeout)
        if not box or isinstance(box[0], Exception):
            return {'$hang': f'client {expected_name} did not come up: {box}'}
        c, hello = box[0]
        self.conns[hello[1]] = c
        return {'hello': hello[1], 'proxies': hello[2]}

    def _subst(self, cmd):
        return [self.saved.pop(x['$saved']) if isinstance(x, dict) and '$saved' in x else x for x in cmd]

    def run_cmd(self, who, cmd):
        cmd = self._subst(cmd)
        if cmd[0] == 'par':
            cmd = ['par', [[w, self._subst(c)] for w, c in cmd[1]]]
            # ['par', [[who, cmd], ...]]: issue to all remote clients at once, then run the director's own
            sent = []
            for w, c in cmd[1]:
                if w != '0':
                    self.conns[w].send(c)
                    sent.append(w)
            out = {}
            for k, (w, c) in enumerate(cmd[1]):
                if w == '0':
                    out[k] = self.me.do(c)
            for k, (w, c) in enumerate(cmd[1]):
                if w != '0':
                    cn = self.conns[w]
                    if not cn.poll(self.op_timeout):
                        return {'$hang': f'client {w} did not answer {c[0]} within {self.op_timeout}s'}
                    out[k] = cn.recv()
            return [out[k] for k in range(len(cmd[1]))]
        if cmd[0] == 'spawn':
            # ['spawn', child, handles, proc_cls]
            who_agent_cmd = ['spawn', cmd[1], cmd[2], self.addr, cmd[3], bool(cmd[4]) if len(cmd) > 4 else False,
                             list(cmd[5]) if len(cmd) > 5 else []]
            r = self._do(who, who_agent_cmd)
            if isinstance(r, dict) and ('$raised' in r or '$hang' in r):
                return r
            return self.accept(cmd[1])
        if cmd[0] == 'fork':
            # ['fork', child]: `who` forks
            r = self._do(who, ['fork', cmd[1], self.addr])
            if isinstance(r, dict) and ('$raised' in r or '$hang' in r):
                return r
            return self.accept(cmd[1])
        if cmd[0] == 'exit':
            # ['exit', child, parent]
            child, parent = cmd[1], cmd[2]
            c = self.conns.pop(child)
            c.send(('exit',))
            if not c.poll(self.op_timeout):
                return {'$hang': f'client {child} does not acknowledge exit'}
            c.recv()
            c.close()
            return self._do(parent, ['join', child])
        return self._do(who, cmd)

    def _do(self, who, cmd):
        if who == '0':
            return self.me.do(cmd)
        c = self.conns[who]
        c.send(cmd)
        if not c.poll(self.op_timeout):
            return {'$hang': f'client {who} did not answer {cmd[0]} within {self.op_timeout}s'}
        try:
            return c.recv()
        except EOFError:
            return {'$hang': f'client {who} died during {cmd[0]}'}

    def table(self):
        """every server's own table (debug_info), merged: harness idents are unique over the servers; an entry a
        server has under an id the harness did not see created *on that server* shows up as 'real:<srv>:…'"""
        from multiprocessing.managers import dispatch
        rc = {}
        per = {}
        for srv, m in self.servers.items():
            conn = m._Client(m._address, authkey=m._authkey)
            try:
                info = dispatch(conn, None, 'debug_info')
            finally:
                conn.close()
            per[srv] = {}
            for d in info:
                hid = self.real2h.get(srv + ':' + d['id'])
                key = str(hid) if hid is not None else f'real:{srv}:{d["id"]}:{d["type"]}'
                rc[key] = d['refcount:']
                per[srv][key] = d['refcount:']
        shm = sorted(str(i) for i, nm in self.shm.items() if os.path.exists('/dev/shm/' + nm.lstrip('/')))
        out = {'rc': rc, 'shm': shm}
        if len(self.servers) > 1:
            out['per_server'] = per
        return out

    def observe(self, expect):
        """poll until the server's table equals `expect` or the settle deadline passes"""
        t0 = time.monotonic()
        polls = 0
        while True:
            obs = self.table()
            polls += 1
            if obs['rc'] == expect['rc'] and obs['shm'] == expect['shm']:
                break
            if time.monotonic() - t0 > self.settle:
                break
            time.sleep(0.002 if polls < 20 else 0.02)
        obs['polls'] = polls
        obs['settle_s'] = round(time.monotonic() - t0, 4)
        return obs

    def note_new(self, r, news):
        """`news`: list of [handle name, harness ident, kind]; `r`: canonical result holding $proxy entries"""
        found = {}

        def walk(v):
            if isinstance(v, dict):
                if '$proxy' in v:
                    if v.get('as') is not None:
                        found[v['as']] = self.srv_of.get(v.get('addr'), '?') + ':' + v['$proxy']
                    return
                for x in v.values():
                    walk(x)
            elif isinstance(v, list):
                for x in v:
                    walk(x)
        walk(r)
        if isinstance(r, dict) and 'proxies' in r:      # hello of a spawned child
            for h, rid, _t, addr in r['proxies']:
                found[h] = self.srv_of.get(addr, '?') + ':' + rid
        for name, hid, kind in news:
            if name in found:
                self.real2h[found[name]] = hid

    def annotate(self, v):
        """add the harness ident to every proxy in a canonical result"""
        if isinstance(v, dict):
            if '$proxy' in v:
                v['hid'] = self.real2h.get(self.srv_of.get(v.get('addr'), '?') + ':' + v['$proxy'])
                return
            for x in v.values():
                self.annotate(x)
        elif isinstance(v, list):
            for x in v:
                self.annotate(x)

    def run(self):
        out = []
        for k, st in enumerate(self.case['steps']):
            rec = {}
            t0 = time.monotonic()
            r = self.run_cmd(st['who'], st['cmd'])
            if st.get('save') is not None and isinstance(r, dict) and '$bytes' in r:
                self.saved[st['save']] = r['$bytes']
                r = {'$bytes': len(r['$bytes']) // 2}
            if st.get('save_par') and isinstance(r, list):
                for k, tok in st['save_par'].items():
                    x = r[int(k)]
                    if isinstance(x, dict) and '$bytes' in x:
                        self.saved[tok] = x['$bytes']
                        r[int(k)] = {'$bytes': len(x['$bytes']) // 2}
            rec['r'] = r
            rec['dt'] = round(time.monotonic() - t0, 4)
            hung = (isinstance(r, dict) and '$hang' in r) or (
                isinstance(r, list) and any(isinstance(x, dict) and x.get('hung') is True for x in r))
            if st.get('new') and not hung:
                self.note_new(r, st['new'])
                for name, hid, kind in st['new']:
                    if kind == 'mem' and not (isinstance(r, dict) and '$raised' in r):
                        nm = self._do(st.get('new_owner', st['who']), ['shmname', name])
                        if isinstance(nm, str):
                            self.shm[hid] = nm
            mismatch = False
            self.annotate(r)
            if 'expect' in st and not hung:
                rec['obs'] = self.observe(st['expect'])
                mismatch = rec['obs']['rc'] != st['expect']['rc'] or rec['obs']['shm'] != st['expect']['shm']
            if st.get('probe') and not hung:
                rec['probe'] = self.probe(st['probe'])
            out.append(rec)
            if hung or mismatch or (isinstance(r, dict) and '$raised' in r and not st.get('may_raise')):
                break       # the scenario reports this step; what follows would only repeat it
        return out

    def probe(self, plan):
        """plan: list of [who, handle, method, args, attr]; returns the canonical results"""
        res = []
        for who, name, method, args, attr in plan:
            res.append(self._do(who, ['call', name, method, args, None, None, attr]))
        return res

    def close(self):
        for c in self.conns.values():
            try:
                c.send(('exit',))
            except Exception:  # noqa
                pass
        for m in self.servers.values():
            try:
                m.shutdown()
            except Exception:  # noqa
                pass
        # the process group is killed after us: do not leave shared memory files behind
        for nm in self.shm.values():
            try:
                os.unlink('/dev/shm/' + nm.lstrip('/'))
            except OSError:
                pass


def director_main():
    case = json.loads(open(sys.argv[1]).read())
    result = {}
    t0 = time.monotonic()
    try:
        d = Director(case)
        result['startup_s'] = round(time.monotonic() - t0, 3)
        try:
            result['steps'] = d.run()
        finally:
            result['total_s'] = round(time.monotonic() - t0, 3)
            tmp = sys.argv[2] + '.tmp'
            with open(tmp, 'w') as f:
                json.dump(result, f, default=str)
            os.replace(tmp, sys.argv[2])
            d.close()
    except BaseException:  # noqa
        result['director_error'] = traceback.format_exc()[-3000:]
        with open(sys.argv[2], 'w') as f:
            json.dump(result, f, default=str)
    sys.stdout.flush()
    os._exit(0)


def _group_alive(pgid):
    """is any process of the group still running (zombies waiting to be reaped do not count)"""
    for d in os.listdir('/proc'):
        if not d.isdigit():
            continue
        try:
            with open(f'/proc/{d}/stat') as f:
                st = f.read()
            rest = st[st.rindex(')') + 2:].split()
            if int(rest[2]) == pgid and rest[0] != 'Z':
                return True
        except (OSError, ValueError, IndexError):
            continue
    return False


def run_director(case, repo_src, timeout):
    """called from a scenario's run_case (in a pool worker): run one case in a fresh interpreter in
    its own session, kill the whole group afterwards.  -> (result dict | None, status)"""
    import signal
    import subprocess
    import tempfile
    here = os.path.dirname(os.path.abspath(__file__))
    d = tempfile.mkdtemp(prefix='e4mgr-')
    cf, rf = os.path.join(d, 'case.json'), os.path.join(d, 'result.json')
    with open(cf, 'w') as f:
        json.dump(case, f)
    env = dict(os.environ)
    env['PYTHONPATH'] = os.pathsep.join([repo_src, here])
    env['PYTHONWARNINGS'] = 'ignore'
    errf = open(os.path.join(d, 'stderr.txt'), 'w')
    p = subprocess.Popen([sys.executable, '-c', 'import e4_mgr; e4_mgr.director_main()', cf, rf],
                         stdin=subprocess.DEVNULL, stdout=errf, stderr=errf, env=env, cwd=d,
                         start_new_session=True)
    status = 'ok'
    try:
        p.wait(timeout)
    except subprocess.TimeoutExpired:
        status = 'timeout'
    if status == 'ok':
        # give the group's helper processes (multiprocessing resource trackers, which unlink the named
        # semaphores / shared memory the killed-by-exit processes left behind) a moment to finish
        t_end = time.monotonic() + 3.0
        while time.monotonic() < t_end and _group_alive(p.pid):
            time.sleep(0.03)
    try:
        os.killpg(p.pid, signal.SIGKILL)
    except Exception:  # noqa
        pass
    try:
        p.wait(5)
    except Exception:  # noqa
        pass
    errf.close()
    res = None
    if os.path.exists(rf):
        try:
            res = json.loads(open(rf).read())
        except Exception:  # noqa
            res = None
    err = ''
    try:
        err = open(os.path.join(d, 'stderr.txt')).read()[-1500:]
    except Exception:  # noqa
        pass
    import shutil
    shutil.rmtree(d, ignore_errors=True)
    return res, status, err
