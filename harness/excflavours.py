"""Failure classes for the stream scenarios: the scenario's own exception classes (by which it recognises which
stage failed) additionally derived from an exception class that library code catches for its own purposes
(`queue.Empty` while polling, `TypeError`/`AttributeError` while probing, …).  "Any Exception" raised by a source
or a function must reach the consumer - also one the pipeline's own plumbing happens to handle internally.
Thread / asyncio scenarios only (the classes are created at run time and do not pickle)."""
import queue

BASES = {'empty': queue.Empty, 'full': queue.Full, 'type': TypeError, 'attr': AttributeError, 'timeout': TimeoutError,
         'lookup': LookupError, 'runtime': RuntimeError}
# half of the cases keep the plain class
CYCLE = ['plain', 'empty', 'plain', 'type', 'plain', 'full', 'plain', 'attr', 'plain', 'empty', 'plain', 'timeout', 'plain', 'runtime',
         'plain', 'lookup']
_cache = {}


def of_seed(seed):
    return CYCLE[seed % len(CYCLE)]


def flavoured(cls, flavour):
    if not flavour or flavour == 'plain':
        return cls
    key = (cls, flavour)
    if key not in _cache:
        _cache[key] = type(f'{cls.__name__}_{flavour}', (cls, BASES[flavour]), {})
    return _cache[key]
