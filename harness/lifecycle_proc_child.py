"""One process-level C11 case in a fresh interpreter (own session; the parent kills the group).
argv[1] = case JSON; prints one JSON line `RESULT {...}` on stdout.  A watchdog reports a hang of
`__enter__`/`__exit__` (who is still alive) and ends the process."""
import json
import multiprocessing
import os
import sys
import threading
import time


def main():
    case = json.loads(sys.argv[1])
    pc = case['proc']
    from lifecycle_proc_workers import InitError, build
    from mpservice.mpserver import Server

    out = dict(phase='init', mon=[], t_exit=[], diag=None)
    state = dict(srv=None, deadline=None)

    def snapshot():
        srv = state['srv']
        d = dict(threads=sorted(t.name for t in threading.enumerate()),
                 children=sorted(p.name for p in multiprocessing.active_children()))
        try:
            d['workers_alive'] = sorted(w.name for w in srv.servlet.workers if w.is_alive())
            d['onboard_alive'] = bool(srv._onboard_thread is not None and srv._onboard_thread.is_alive())
            d['gather_alive'] = bool(srv._gather_thread.is_alive())
        except Exception as e:  # noqa
            d['workers_alive'] = ['?' + repr(e)]
        return d

    def watchdog():
        while True:
            time.sleep(0.2)
            dl = state['deadline']
            if dl is not None and time.monotonic() > dl:
                out['diag'] = snapshot()
                try:
                    import re
                    import signal
                    d = os.environ.get('C11_STACKDIR')
                    kids = {p.pid: p.name for p in multiprocessing.active_children()}
                    for pid in kids:
                        os.kill(pid, signal.SIGUSR1)
                    time.sleep(0.5)
                    cs = {}
                    for pid, name in kids.items():
                        try:
                            txt = open(os.path.join(d, f'{pid}.txt')).read()
                            cs[name] = [f'{m.group(2)}:{m.group(1)}' for m in re.finditer(r'line (\d+) in (\w+)', txt)][:5]
                        except Exception as e:  # noqa
                            cs[name] = ['?' + repr(e)]
                    out['diag']['child_stacks'] = cs
                except Exception:
                    pass
                try:
                    import sys as _s, traceback as _tb
                    fr = _s._current_frames()
                    out['diag']['stacks'] = {t.name: [f'{f.name}:{f.lineno}' for f in _tb.extract_stack(fr[t.ident])[-4:]]
                                             for t in threading.enumerate() if t.ident in fr and 'watchdog' not in t.name}
                except Exception:
                    pass
                out['hang'] = out['phase']
                print('RESULT ' + json.dumps(out), flush=True)
                os._exit(3)

    threading.Thread(target=watchdog, daemon=True, name='c11-watchdog').start()
    base_threads = {t.name for t in threading.enumerate()}

    def leftovers():
        # mpservice's Process keeps a per-process logger thread only while the process lives
        # `QueueFeederThread`: stdlib daemon thread of a multiprocessing.Queue (the per-process log queue the
        # parent puts its end mark on); it ends when the queue object is collected - not a server thread
        import gc
        gc.collect()
        th = sorted(t.name for t in threading.enumerate()
                    if t.name not in base_threads and not t.name.startswith('QueueFeederThread'))
        ch = sorted(p.name for p in multiprocessing.active_children())
        return th, ch

    srv = Server(build(case['tree'], 0, case['fail'], pc['out_kb'], pc['delay_ms']), capacity=pc['cap'])
    state['srv'] = srv

    if case['fail'] is not None:
        out['phase'] = 'enter-fail'
        state['deadline'] = time.monotonic() + pc['hang_s']
        err = 'none'
        try:
            srv.__enter__()
            srv.__exit__(None, None, None)
        except InitError as e:
            err = f'{e.args[0]}:{e.args[1]}'
        except BaseException as e:  # noqa
            err = 'other:' + repr(e)[:200]
        state['deadline'] = None
        out['start_err'] = err
        time.sleep(0.3)
        th, ch = leftovers()
        out['start_left'] = dict(threads=th, children=ch)
        # re-arm: the next enter must succeed
        case['fail'] = None
        srv = Server(build(case['tree'], 0, None, pc['out_kb'], pc['delay_ms']), capacity=pc['cap'])
        state['srv'] = srv
        if th or ch:
            print('RESULT ' + json.dumps(out), flush=True)
            os._exit(0)

    blob = b'x' * (1024 * pc['in_kb'])
    for k in range(2):
        out['phase'] = f'enter{k}'
        state['deadline'] = time.monotonic() + pc['hang_s']
        srv.__enter__()
        state['deadline'] = None
        out['phase'] = f'work{k}'
        n = pc['n'] if k == 0 else 3
        got = 0
        gen = srv.stream(((i, blob) for i in range(n)), timeout=600)
        for y in gen:
            got += 1
            if k == 0 and got >= pc['stop_after']:
                gen.close()       # abandon the stream: up to `cap` inputs stay in the pipeline
                break
        if k == 1:
            y = srv.call((10 ** 6, blob), timeout=60)
            if norm_r(y) != 10 ** 6:
                out['mon'].append(dict(rule='reenter-serve', detail=f'follow-up call returned {norm_r(y)}'))
        out['phase'] = f'exit{k}'
        t0 = time.monotonic()
        state['deadline'] = t0 + pc['hang_s']
        srv.__exit__(None, None, None)
        state['deadline'] = None
        out['t_exit'].append(round(time.monotonic() - t0, 3))
        out['phase'] = f'after{k}'
        time.sleep(0.2)
        th, ch = leftovers()
        if th or ch:
            out['mon'].append(dict(rule='exit-leak', detail=f'session {k}: after __exit__ threads {th} children {ch}'))
            break
        if srv.backlog != 0:
            out['mon'].append(dict(rule='ledger-leak', detail=f'session {k}: backlog {srv.backlog} after __exit__'))
    out['phase'] = 'done'
    print('RESULT ' + json.dumps(out), flush=True)
    os._exit(0)


def norm_r(y):
    while isinstance(y, list):
        y = y[0]
    return y[0]


if __name__ == '__main__':
    main()
