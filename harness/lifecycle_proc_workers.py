"""Worker / servlet classes for the process-level C11 scenario (must be importable by spawned children)."""
import faulthandler
import multiprocessing
import os
import signal
import time

from mpservice.mpserver import (EnsembleServlet, ProcessServlet, SequentialServlet, SwitchServlet, ThreadServlet,
                                Worker)


class InitError(Exception):
    pass


def norm(x):
    if isinstance(x, list):
        ys = [norm(y) for y in x]
        return (ys[0][0], ys[0][1])
    return x


class PW(Worker):
    """x = (r, blob) -> (r, blob of `out_kb` kB) after `delay_ms`"""

    def __init__(self, *, sv, fail, out_kb, delay_ms, **kw):
        super().__init__(**kw)
        self.sv = sv
        d = os.environ.get('C11_STACKDIR')
        if d and multiprocessing.current_process().name != 'MainProcess':
            # lets the harness ask a (possibly blocked) worker process where it is
            self._fh = open(os.path.join(d, f'{os.getpid()}.txt'), 'w')
            faulthandler.register(signal.SIGUSR1, file=self._fh, all_threads=False)
        self.out = b'y' * (1024 * out_kb) if out_kb else None
        self.delay = delay_ms / 1000.0
        if fail is not None and list(fail) == [sv, self.worker_index]:
            raise InitError(sv, self.worker_index)

    def call(self, x):
        r, blob = norm(x)
        if self.delay:
            time.sleep(self.delay)
        return (r, self.out if self.out is not None else blob)


class Sw(SwitchServlet):
    def switch(self, x):
        return norm(x)[0] % 2


def tsize(t):
    return 1 if t[0] in 'TP' else 1 + tsize(t[1]) + tsize(t[2])


def build(t, sv, fail, out_kb, delay_ms):
    kw = dict(sv=sv, fail=fail, out_kb=out_kb, delay_ms=delay_ms)
    if t[0] == 'T':
        return ThreadServlet(PW, num_threads=t[1], worker_name=f'sv{sv}', **kw)
    if t[0] == 'P':
        cpus = t[1]
        if fail is not None and list(fail)[:2] == ['cpu', sv]:
            # the worker fails to initialise because it is pinned to a CPU the machine does not have
            # (the pinning is part of the library's own Worker.__init__, not of the subclass)
            cpus = [0] * t[1]
            cpus[fail[2]] = 100000
        return ProcessServlet(PW, cpus=cpus, worker_name=f'sv{sv}', **kw)
    a = build(t[1], sv + 1, fail, out_kb, delay_ms)
    b = build(t[2], sv + 1 + tsize(t[1]), fail, out_kb, delay_ms)
    if t[0] == 'S':
        return SequentialServlet(a, b)
    if t[0] == 'E':
        return EnsembleServlet(a, b)
    return Sw(a, b)
