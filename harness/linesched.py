"""
Line-level scheduling points for E1 (`detsched`): every source line executed by a managed thread
inside the chosen code objects becomes a scheduling point, so the scheduler can preempt a thread
between any two lines of e.g. `Fork.__next__` (C10 quantifies over exactly that).

Uses `sys.monitoring` LINE events restricted to the given code objects (`set_local_events`), so
nothing else in the process is slowed down and the harness's own wrappers (event logging inside
instrumented locks/queues/sources) contain no scheduling point of this kind.

    import detsched, linesched
    detsched.install()
    import mpservice.streamer._tee as T
    linesched.enable([T.Fork.__next__])      # once per process
    linesched.set_active(True / False)       # per run: line granularity on / primitive granularity only
"""
import sys

import detsched

_TOOL = None
_ACTIVE = True
_CODES = []


def _on_line(code, line):
    if not _ACTIVE:
        return
    s = detsched.SCHED
    if s is not detsched.NULL and s.me() is not None:
        s.yield_point('line%d' % line)


def enable(functions):
    """Make every line of the given functions a scheduling point (idempotent)."""
    global _TOOL
    mon = sys.monitoring
    if _TOOL is None:
        for tid in (mon.DEBUGGER_ID, mon.PROFILER_ID, mon.OPTIMIZER_ID, 3, 4):
            if mon.get_tool(tid) is None:
                mon.use_tool_id(tid, 'mps-verif-linesched')
                _TOOL = tid
                break
        else:
            raise RuntimeError('no free sys.monitoring tool id')
        mon.register_callback(_TOOL, mon.events.LINE, _on_line)
    for f in functions:
        code = getattr(f, '__code__', f)
        if code not in _CODES:
            mon.set_local_events(_TOOL, code, mon.events.LINE)
            _CODES.append(code)


def set_active(flag):
    global _ACTIVE
    _ACTIVE = bool(flag)
