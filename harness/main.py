"""CLI of the checks: see ../check."""
import argparse
import importlib
import json
import os
import signal
import sys
import traceback
from pathlib import Path

HERE = Path(__file__).resolve().parent
sys.path.insert(0, str(HERE))
sys.path.insert(0, str(HERE / 'targets'))

import core  # noqa: E402


def main():
    ap = argparse.ArgumentParser()
    ap.add_argument('prop')
    ap.add_argument('--tier', default=os.environ.get('VERIF_TIER', 'quick'), choices=['quick', 'thorough'])
    ap.add_argument('--replay', default=None)
    ap.add_argument('--seed', type=int, default=int(os.environ.get('VERIF_SEED', '0') or 0))
    a = ap.parse_args()
    prop = a.prop.upper()
    os.environ['MPSERVICE_VERIF'] = '1'
    try:
        target = importlib.import_module(prop.lower())
    except ModuleNotFoundError:
        print(f'no check for {prop}', file=sys.stderr)
        return 2
    chk = core.Check(prop, a.tier, a.seed)
    try:
        if a.replay:
            data = json.loads(Path(a.replay).read_text())
            return target.replay(chk, data)
        target.run(chk)
        return chk.finish()
    except core.InfraError as e:
        print(f'[{prop}] HARNESS PROBLEM (exit 2, not a verdict): {e}', file=sys.stderr)
        return 2
    except Exception:
        traceback.print_exc()
        print(f'[{prop}] HARNESS PROBLEM (exit 2, not a verdict)', file=sys.stderr)
        return 2


if __name__ == '__main__':
    # A caller that started us through `nohup` (or any parent that ignores a signal) hands the ignored disposition
    # down to every process we start; the real-process engines kill children with these signals and expect them to die.
    for _s in (signal.SIGHUP, signal.SIGINT, signal.SIGTERM, signal.SIGUSR1, signal.SIGUSR2, signal.SIGQUIT):
        try:
            if signal.getsignal(_s) == signal.SIG_IGN:
                signal.signal(_s, signal.SIG_DFL)
        except (OSError, ValueError):
            pass
    # Scratch space of this run: every process we start (scenario workers, the inner programs of the real-process
    # engines, their children) puts its temporary files (multiprocessing's pymp-* directories, listener sockets)
    # here; many of them leave through os._exit or are killed on purpose and would leave them behind in /tmp.
    import shutil
    import tempfile
    _scratch = tempfile.mkdtemp(prefix='verif-run-')
    os.environ['TMPDIR'] = _scratch
    tempfile.tempdir = None
    try:
        rc = main()
    finally:
        shutil.rmtree(_scratch, ignore_errors=True)
    sys.stdout.flush()
    # we run in our own session (setsid in ./check): make sure nothing we started survives us
    try:
        signal.signal(signal.SIGTERM, signal.SIG_IGN)
        os.killpg(os.getpgid(0), signal.SIGTERM)
    except Exception:
        pass
    os._exit(rc)
