"""E4 sample: Stream.parmap with executor='process' (and, for comparison, 'thread') on real OS processes and
threads under the OS schedule.  The deterministic scheduler (E1) cannot drive worker processes; this sample
evaluates C01 / C05 / C08 directly on such runs (monitors only: the quantifier over schedules is carried by
the Fifo theorems, whose model does not depend on what kind of executor runs the calls)."""
import concurrent.futures as cf
import json
import os
import signal
import subprocess
import time

import core


def gen_case(rng, tier):
    n = rng.choice([0, 1, 2, 5, 9, 17, 40] if tier == 'quick' else [0, 1, 3, 9, 40, 150])
    conc = rng.choice([1, 1, 2, 3, 4])
    mode = rng.choice(['clean', 'clean', 'fail', 'fail', 'stop', 'srcfail', 'stopfail'])
    fails, stop_at, sfa = [], None, None
    if mode in ('fail', 'stopfail') and n:
        fails = sorted({rng.randrange(n) for _ in range(rng.choice([1, 1, 2, 3]))})
    if mode in ('stop', 'stopfail') and n:
        stop_at = rng.randrange(0, n + 1)
    if mode == 'srcfail' and n:
        sfa = rng.randrange(n)
        if rng.random() < 0.4:
            fails = sorted({rng.randrange(n) for _ in range(2)})
    lats = rng.choice([[0], [0, 3, 1], [8, 0, 0, 2], [1, 20, 1, 1, 1], [5, 4, 3, 2, 1, 0], [30, 25], [40]])
    return dict(kind='ppar', executor=rng.choice(['process', 'process', 'process', 'thread']), n=n, conc=conc,
                rexc=rng.random() < 0.4, rx=rng.random() < 0.4, fails=fails, lats=lats, stop_at=stop_at,
                src_fail_at=sfa, again=rng.random() < 0.3)


FIXED = [
    dict(kind='ppar', executor='process', n=1, conc=1, rexc=False, rx=False, fails=[0], lats=[0], stop_at=None, src_fail_at=None, again=True),
    dict(kind='ppar', executor='process', n=12, conc=1, rexc=False, rx=True, fails=[], lats=[3, 0], stop_at=1, src_fail_at=None, again=True),
    dict(kind='ppar', executor='process', n=30, conc=4, rexc=True, rx=True, fails=[0, 7, 29], lats=[9, 0, 0, 0, 4], stop_at=None, src_fail_at=None, again=False),
    dict(kind='ppar', executor='process', n=20, conc=2, rexc=False, rx=False, fails=[11], lats=[0, 15], stop_at=None, src_fail_at=5, again=False),
    # calls long enough (30-40 ms) for every pool process to get work: the number of processes and of overlapping calls
    dict(kind='ppar', executor='process', n=20, conc=2, rexc=False, rx=False, fails=[], lats=[30, 30], stop_at=None, src_fail_at=None, again=False),
    dict(kind='ppar', executor='process', n=24, conc=3, rexc=True, rx=True, fails=[5], lats=[40], stop_at=None, src_fail_at=None, again=False),
    # the default concurrency (None) and a consumer that stalls after the first output: look-ahead <= 2 * default + 3
    dict(kind='ppar', executor='process', n=120, conc=None, rexc=False, rx=False, fails=[], lats=[5], stop_at=None, src_fail_at=None, again=False, pause=1.5),
    dict(kind='ppar', executor='thread', n=120, conc=None, rexc=False, rx=False, fails=[], lats=[5], stop_at=None, src_fail_at=None, again=False, pause=1.0),
]


def _run_one(case, bound):
    env = dict(os.environ, PYTHONPATH=f'{core.HARNESS}:{core.REPO / "src"}')
    t0 = time.time()
    p = subprocess.Popen(['/venv/bin/python', str(core.HARNESS / 'ppar_run.py'), json.dumps(case)],
                         stdout=subprocess.PIPE, stderr=subprocess.PIPE, text=True, env=env, start_new_session=True)
    try:
        so, se = p.communicate(timeout=bound)
        hang = False
    except subprocess.TimeoutExpired:
        hang = True
        so, se = '', ''
    finally:
        try:
            os.killpg(p.pid, signal.SIGKILL)
        except Exception:  # noqa
            pass
        try:
            p.communicate(timeout=5)
        except Exception:  # noqa
            pass
    if hang:
        return dict(hang=True, wall=time.time() - t0)
    m = [l for l in so.splitlines() if l.startswith('RESULT ')]
    if not m:
        return dict(infra=se[-1200:], wall=time.time() - t0)
    r = json.loads(m[-1][7:])
    r['wall'] = time.time() - t0
    return r


def sample(chk, prop, n):
    """run n generated + the fixed cases; monitor hits of `prop` become violations; a case that does not end
    within the bound is confirmed by one re-run with a 3x larger bound before it is reported (loaded machine)"""
    cases = list(FIXED) + [gen_case(chk.rng, chk.tier) for _ in range(n)]
    bound = 60.0
    with cf.ThreadPoolExecutor(max(2, min(8, chk.workers // 2))) as ex:
        results = list(ex.map(lambda c: _run_one(c, bound), cases))
    dist = chk.cov['distribution'].setdefault('process_sample', {})
    nok = 0
    for case, r in zip(cases, results):
        if r.get('hang'):
            r2 = _run_one(case, 3 * bound)
            if r2.get('hang'):
                if prop == 'C05':
                    chk.violations.append(dict(rule='proc-hang', detail=f'Stream.parmap(executor={case["executor"]!r}) did not end within {3 * bound:.0f}s',
                                               key=f'proc-hang:{case["executor"]}', case=case, events=None, size=core._case_size(case)))
                continue
            r = r2
            dist['retried_after_time_out'] = dist.get('retried_after_time_out', 0) + 1
        if 'infra' in r:
            raise core.InfraError('process parmap sample produced no result: ' + r['infra'])
        nok += 1
        for m in r['monitors']:
            if m['prop'] == prop:
                chk.violations.append(dict(rule='proc-' + m['rule'], detail=f'Stream.parmap(executor={case["executor"]!r}): ' + m['detail'],
                                           key=f'proc-{m["rule"]}:{case["executor"]}', case=case, events=None, size=core._case_size(case)))
        dist[case['executor']] = dist.get(case['executor'], 0) + 1
        for rd in r['rounds']:
            k = 'end:' + rd['end'].split(':')[0]
            dist[k] = dist.get(k, 0) + 1
        if case['conc'] is not None:
            dist['max_ahead_minus_capacity'] = max(dist.get('max_ahead_minus_capacity', -99), r['stats']['max_ahead'] - 2 * case['conc'])
            dist['max_running_eq_concurrency'] = dist.get('max_running_eq_concurrency', 0) + (r['stats']['max_running'] == case['conc'])
        dist['max_case_wall_s'] = round(max(dist.get('max_case_wall_s', 0), r['wall']), 2)
    chk.cov['evaluations'] += nok
    if 'E4-processes(sampled)' not in chk.cov['engines']:
        chk.cov['engines'].append('E4-processes(sampled)')


def replay_case(chk, case):
    r = _run_one(case, 180.0)
    if r.get('hang'):
        return [dict(prop='C05', rule='hang', detail='did not end within 180 s')]
    if 'infra' in r:
        raise core.InfraError(r['infra'])
    return r['monitors']
