"""Run ONE case of the real-process parmap sample (own interpreter, own session; the caller kills the
group).  argv[1] = case JSON.  Prints `RESULT <json>`: monitors (C01 / C05 / C08 evaluated directly) + stats.

case: n, conc, rexc, rx, fails [indices], lats [ms...], stop_at (None | k), src_fail_at (None | k),
      executor ('process' | 'thread'), again (consume a second time)"""
import json
import os
import sys
import threading
import time


class SrcFailed(Exception):
    pass


def children_alive():
    me = os.getpid()
    out = []
    for d in os.listdir('/proc'):
        if not d.isdigit():
            continue
        try:
            with open(f'/proc/{d}/stat') as f:
                st = f.read()
            ppid = int(st.rsplit(')', 1)[1].split()[1])
            state = st.rsplit(')', 1)[1].split()[0]
            if ppid != me or state == 'Z':
                continue
            with open(f'/proc/{d}/cmdline') as f:
                cmd = f.read().replace('\0', ' ')
            if 'resource_tracker' in cmd:
                continue            # multiprocessing's tracker is not started by the pipeline and lives on by design
            out.append((int(d), cmd[:80]))
        except (OSError, ValueError, IndexError):
            continue
    return out


def main():
    case = json.loads(sys.argv[1])
    from mpservice.streamer import Stream
    import ppworkers as W
    mon = []

    def add(prop, rule, detail):
        mon.append(dict(prop=prop, rule=rule, detail=detail[:500]))

    n, conc_arg = case['n'], case['conc']
    # `concurrency=None` = the documented default: the number of CPUs for the process executor, min(32, CPUs + 4) for
    # the thread executor; the capacity is twice that
    conc = conc_arg if conc_arg is not None else (os.cpu_count() if case['executor'] == 'process' else min(32, os.cpu_count() + 4))
    cap = 2 * conc
    fails = set(case['fails'])
    stats = dict(max_ahead=0, max_running=0, pids=0, rounds=0)
    threads0 = set(threading.enumerate())

    def one_round(rnd):
        pulled = [0]
        handed = [0]
        pids = set()

        def source():
            for i in range(n):
                if case.get('src_fail_at') == i:
                    raise SrcFailed(i)
                pulled[0] += 1
                ahead = pulled[0] - handed[0]
                stats['max_ahead'] = max(stats['max_ahead'], ahead)
                # +1: `handed` is updated a few bytecodes after the hand-over (real threads; the exact bound is
                # checked under the deterministic scheduler)
                if ahead > cap + 3 + 1:
                    add('C08', 'lookahead', f'{pulled[0]} elements pulled while {handed[0]} were handed over: '
                                            f'{ahead} ahead > capacity+3 = {cap + 3} (concurrency {conc})')
                yield i

        s = Stream(source()).parmap(W.work, executor=case['executor'], concurrency=conc_arg, return_x=case['rx'],
                                    return_exceptions=case['rexc'], lats=case['lats'], fails=sorted(fails))
        out = []
        raised = None
        it = iter(s)
        try:
            while True:
                if case.get('stop_at') is not None and len(out) >= case['stop_at']:
                    break
                try:
                    y = next(it)
                except StopIteration:
                    break
                handed[0] += 1
                out.append(y)
                if len(out) == 1 and case.get('pause'):
                    time.sleep(case['pause'])     # a consumer that stalls: the feeder runs ahead as far as it is allowed to
        except BaseException as e:  # noqa
            # keep no reference to the exception object: its traceback holds the pipeline's frames (and with them
            # the pool's Process objects and their queues) alive
            raised = (type(e), e.args)
            del e
        finally:
            t0 = time.monotonic()
            if hasattr(it, 'close'):
                it.close()
            del it
            close_s = time.monotonic() - t0
        # ---- C05: everything the pipeline started has exited when the iterator is closed
        left_t = [t for t in threading.enumerate() if t not in threads0 and t.is_alive()]
        # multiprocessing.Queue's own daemon feeder thread (of the per-process log queue) ends when the queue
        # object is finalised, i.e. with the garbage collection of the pool's Process objects - the same on the
        # pinned tree; it is not a thread of the pipeline: accepted if it is gone after a collection
        qf = [t for t in left_t if t.name == 'QueueFeederThread']
        if qf:
            import gc
            t_end = time.monotonic() + 5
            while any(t.is_alive() for t in qf) and time.monotonic() < t_end:
                gc.collect()
                time.sleep(0.05)
            stats['queue_feeder_threads_ended_by_gc'] = stats.get('queue_feeder_threads_ended_by_gc', 0) + sum(not t.is_alive() for t in qf)
        left_t = [t.name for t in left_t if t.is_alive()]
        left_p = children_alive()
        if left_t:
            add('C05', 'leak-threads', f'round {rnd}: threads alive after the iterator was closed: {left_t}')
        if left_p and case['executor'] == 'process':
            add('C05', 'leak-processes', f'round {rnd}: pool processes alive after the iterator was closed: {left_p}')
        # a second raise? (the first failure reaches the consumer exactly once)
        # ---- C01 / C05: outputs
        stop_at = case.get('stop_at')
        sfa = case.get('src_fail_at')
        limit = n if sfa is None else sfa
        first_fail = None if case['rexc'] else next((i for i in range(limit) if i in fails), None)
        expect_len = limit if first_fail is None else first_fail
        if stop_at is not None:
            expect_len = min(expect_len, stop_at)
        vals = []
        intervals = []
        for k, y in enumerate(out):
            x, r = (y if case['rx'] else (k, y))
            if case['rx'] and x != k:
                add('C01', 'output', f'round {rnd}: output #{k} is paired with input {x}')
            if isinstance(r, W.WorkFailed):
                vals.append(('exc', r.args[0]))
                intervals.append((r.args[2], r.args[3]))
                pids.add(r.args[1])
            elif isinstance(r, tuple) and len(r) == 4:
                vals.append(('val', r[0]))
                intervals.append((r[2], r[3]))
                pids.add(r[1])
            else:
                vals.append(('other', repr(r)[:80]))
        want = [(('exc', i) if i in fails else ('val', W.spec(i))) for i in range(expect_len)]
        if vals != want:
            d = next((i for i, (a, b) in enumerate(zip(vals, want)) if a != b), min(len(vals), len(want)))
            add('C01', 'output', f'round {rnd}: {len(vals)} outputs, expected {len(want)}; first difference at #{d}: '
                                 f'got {vals[d] if d < len(vals) else None}, expected {want[d] if d < len(want) else None}')
        # how it ended
        if stop_at is not None and stop_at <= expect_len and len(out) >= stop_at:
            want_end = 'stopped'
        elif first_fail is not None:
            want_end = f'WorkFailed:{first_fail}'
        elif sfa is not None:
            want_end = f'SrcFailed:{sfa}'
        else:
            want_end = 'clean'
        if raised is None:
            got_end = 'stopped' if (stop_at is not None and len(out) >= stop_at) else 'clean'
        elif raised[0] is W.WorkFailed:
            got_end = f'WorkFailed:{raised[1][0]}'
            intervals.append((raised[1][2], raised[1][3]))
        elif raised[0] is SrcFailed:
            got_end = f'SrcFailed:{raised[1][0]}'
        else:
            got_end = f'other:{raised[0].__name__}:{raised[1]!r}'[:200]
        if got_end != want_end:
            add('C05' if want_end != 'clean' else 'C01', 'ending', f'round {rnd}: the iteration ended with {got_end}, expected {want_end} '
                                                                    f'after {expect_len} outputs (got {len(out)})')
        # ---- C08: no more than `concurrency` invocations at once (from the stamps of the observed results)
        evs = sorted([(a, 1) for a, _b in intervals] + [(b, -1) for _a, b in intervals], key=lambda e: (e[0], e[1]))
        cur = mx = 0
        for _t, dlt in evs:
            cur += dlt
            mx = max(mx, cur)
        stats['max_running'] = max(stats['max_running'], mx)
        if mx > conc:
            add('C08', 'concurrency', f'round {rnd}: {mx} invocations of the worker function overlapped in time, concurrency={conc}')
        stats['pids'] = max(stats['pids'], len(pids))
        if case['executor'] == 'process' and len(pids) > conc:
            add('C08', 'concurrency', f'round {rnd}: results came from {len(pids)} pool processes, concurrency={conc}')
        stats['rounds'] += 1
        return dict(out=len(out), end=got_end, close_s=round(close_s, 3))

    rounds = [one_round(0)]
    if case.get('again'):
        rounds.append(one_round(1))
    print('RESULT ' + json.dumps(dict(monitors=mon, rounds=rounds, stats=stats)))
    sys.stdout.flush()
    os._exit(0)


if __name__ == '__main__':
    main()
