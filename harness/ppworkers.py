"""Worker functions of the real-process parmap sample (E4): module level, so that a spawned pool process can
unpickle them.  Every result carries the executing pid and CLOCK_MONOTONIC stamps of entry and exit (the
clock is system-wide on Linux, so stamps of different processes are comparable)."""
import os
import time


class WorkFailed(Exception):
    pass


def spec(x):
    return x * x + 1


def work(x, *, lats, fails):
    t0 = time.monotonic()
    d = lats[x % len(lats)]
    if d:
        time.sleep(d / 1000.0)
    if x in fails:
        raise WorkFailed(x, os.getpid(), t0, time.monotonic())
    return (spec(x), os.getpid(), t0, time.monotonic())
