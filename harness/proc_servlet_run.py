"""Run ONE case of the real-process sample (own interpreter, own session; the caller kills the
group).  argv[1] = case JSON.  Prints one JSON line: outcomes per request + traceback verdicts."""
import json
import sys
import threading
import traceback


def main():
    case = json.loads(sys.argv[1])
    import scen_servlet as S
    from mpservice.mpserver import (EnsembleServlet, ProcessServlet, SequentialServlet, Server, SwitchServlet,
                                    ThreadServlet)
    from mpservice.multiprocessing.remote_exception import get_remote_traceback, is_remote_exception
    from procworkers import PW

    def build(t):
        if t['k'] == 'w':
            kw = dict(mark=t['mark'], cf=t['cf'], pf=t['pf'], bp=t['bp'], has_pre=t['pre'])
            if t['bs'] > 0:
                kw['batch_size'] = t['bs']
                if t['bs'] > 1:
                    kw['batch_wait_time'] = 0.02
            if t.get('proc', True):
                return ProcessServlet(PW, cpus=t['nw'], **kw)
            return ThreadServlet(PW, num_threads=t['nw'], **kw)
        chs = [build(c) for c in t['ch']]
        if t['k'] == 's':
            return SequentialServlet(*chs)
        if t['k'] == 'e':
            return EnsembleServlet(*chs, fail_fast=t['ff'])
        n = len(chs)

        class Sw(SwitchServlet):
            def switch(self, x):
                return S.reqof(x) % n
        return Sw(*chs)

    out = {}
    tbs = {}
    batched = set()

    def walk(t):
        if t['k'] == 'w':
            if t['bs'] > 0:
                batched.add(t['mark'])
        else:
            for c in t['ch']:
                walk(c)
    walk(case['tree'])

    def tb_verdict(e):
        """C04: after a process boundary the traceback of the failure site survives as text"""
        e = S.unwrap(e)
        if isinstance(e, S.EnsembleError):
            for y in e.args[1]['y']:
                if S.is_exc(y):
                    y2 = S.unwrap(y)
                    v = tb_verdict(y2) if is_remote_exception(y2) or y2.__traceback__ is not None else \
                        ('' if getattr(y, 'tb', None) else 'member exception without any traceback')
                    if v:
                        return 'inside EnsembleError: ' + v
            return ''
        if not isinstance(e, (S.PreErr, S.CallErr, S.BatchErr)):
            return ''
        if isinstance(e, S.CallErr) and e.k in batched:
            return ''    # an exception object RETURNED inside a batch result (the harness's device for an
            #              element-wise failure in a batch) was never raised by the worker: out of C04's scope
        # the innermost frame is the failure site, whatever the depth of the stack above it (procworkers._descend)
        want = '_failure_site'
        outer = 'preprocess' if isinstance(e, S.PreErr) else ('_one' if isinstance(e, S.CallErr) else 'call')
        text = ''
        if is_remote_exception(e):
            text = get_remote_traceback(e)
        elif e.__traceback__ is not None:
            text = ''.join(traceback.format_exception(type(e), e, e.__traceback__))
        if f'in {want}' not in text or f'in {outer}' not in text or type(e).__name__ not in text:
            return f'{type(e).__name__}{e.args}: no failure-site frame `in {want}` / worker frame `in {outer}` / class name in the traceback text: {text[-300:]!r}'
        return ''

    with Server(build(case['tree']), capacity=case.get('cap', 8)) as srv:
        def caller(reqs):
            for r in reqs:
                try:
                    y = srv.call(r, timeout=60)
                    out[r] = S.enc(y)
                    if isinstance(y, list):
                        for v in y:
                            if S.is_exc(v):
                                tbs[r] = tb_verdict(v) or tbs.get(r, '')
                except BaseException as e:  # noqa
                    out[r] = S.enc(e)
                    tbs[r] = tb_verdict(e)
        ts = [threading.Thread(target=caller, args=(c,)) for c in case['callers']]
        for t in ts:
            t.start()
        for t in ts:
            t.join()
    print('RESULT ' + json.dumps(dict(out={str(k): v for k, v in out.items()}, tbs={str(k): v for k, v in tbs.items()})))


if __name__ == '__main__':
    main()
