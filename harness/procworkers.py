"""Worker class for the real-process sample of C02/C04 (E4): importable at module level so that a
spawned worker process can unpickle it.  Same function library as scen_servlet (mark k maps x to
(x, k); failure plans are sets of request numbers)."""
from mpservice.mpserver import Worker

from scen_servlet import BatchErr, CallErr, PreErr, is_exc, reqof


def _failure_site(e):
    raise e


def _descend(e, d):
    """the failure happens `d` frames below the worker method (deep library stacks, recursion)"""
    if d > 0:
        return _descend(e, d - 1)
    return _failure_site(e)


def _depth(r):
    return 45 if r % 2 == 1 else 0


class PW(Worker):
    def __init__(self, *, mark, cf=(), pf=(), bp=(), has_pre=False, **kw):
        super().__init__(**kw)
        self.mark, self.cf, self.pf, self.bp, self.has_pre = mark, set(cf), set(pf), set(bp), has_pre

    def preprocess(self, x):
        if self.has_pre and reqof(x) in self.pf:
            _descend(PreErr(self.mark, reqof(x)), _depth(reqof(x)))
        return x

    def _one(self, v, batched):
        r = reqof(v)
        if r in self.cf:
            e = CallErr(self.mark, r)
            if batched:
                try:
                    raise e
                except CallErr as e2:
                    return e2
            _descend(e, _depth(r))
        return (v, self.mark)

    def call(self, x):
        if self.batch_size > 0:
            if any(is_exc(v) for v in x):
                raise RuntimeError('call on an exception value')
            if any(reqof(v) in self.bp for v in x):
                _descend(BatchErr(self.mark), _depth(min(reqof(v) for v in x)))
            return [self._one(v, True) for v in x]
        if is_exc(x):
            raise RuntimeError('call on an exception value')
        return self._one(x, False)
