"""
Scenario for C16: `async_fifo_stream` / `AsyncParmapperAsync` under the virtual-time event loop (E2),
differentially against the synchronous `fifo_stream` / `Stream.parmap(executor='thread')` on the
same case.  (The thread-mixing variants `AsyncParmapper`, `AsyncServer` are in `scen_asrv.py`.)

One run = one case dict (JSON-able) -> result dict with
* `events`: the observable events of the async run (pull / preFail / submit / start / finish / yld /
  next / close / srcEnd / srcRaise / join), validated against the Lean model by `drv afifo`;
* `out`, `end`: what the async consumer received and how the iteration ended; `sync_out`, `sync_end`:
  the same for the synchronous counterpart on the same case;
* `monitors`: the property statement evaluated directly on this run (async == sync == spec, values,
  exception objects, order, pairing; rejected elements carry their own exception; exactly-once).

No scheduler is installed for this scenario: the async side is single-threaded and deterministic
under `vloop`; the sync side runs with real threads (its answer does not depend on the schedule —
that is C01 — and it is only the reference here).
"""
import asyncio
import itertools
import random

import vloop

from mpservice._common import StopRequested
from mpservice.streamer import Stream
from mpservice.streamer._streamer import async_fifo_stream, fifo_stream
from mpservice.streamer._streamer_async import AsyncParmapperAsync

MODEL = 'afifo'
BASE = 100  # element i is the value BASE + i
PP = 1000   # the preprocessor (when there is one) maps x to x + PP; the worker must be given that value


class SrcError(Exception):
    pass


class WorkError(Exception):
    def __init__(self, i):
        super().__init__(i)
        self.i = i


class PreError(Exception):
    def __init__(self, i):
        super().__init__(i)
        self.i = i


class FuncError(Exception):
    """raised by `func` itself (the submitting function), not by the worker"""

    def __init__(self, i):
        super().__init__(i)
        self.i = i


# ----------------------------------------------------------------------------------------------
# cases
# ----------------------------------------------------------------------------------------------

def gen_case(rng: random.Random, tier: str, bias: str = ''):
    """bias in {'', 'pre', 'order', 'stop', 'src'}"""
    big = tier == 'thorough'
    kind = rng.choice(['afifo', 'afifo', 'apmap'])
    conc = rng.choice([1, 1, 2, 3])
    cap = 2 * conc if kind == 'apmap' else rng.choice([1, 1, 2, 3, 4, 6])
    n = rng.choice([0, 1, 2, 3, 4, 5, 8, 12] if not big else [0, 1, 2, 3, 5, 9, 16, 30, 60])
    pre = rng.random() < (0.9 if bias == 'pre' else 0.5)
    rexc = rng.random() < (0.7 if bias == 'pre' else 0.5)
    ppf = rng.choice([0.1, 0.2, 0.5]) if bias == 'pre' else 0.15
    pf = sorted(i for i in range(n) if pre and rng.random() < ppf)
    if pre and bias == 'pre' and n > 0 and rng.random() < 0.4:
        pf = sorted(set(pf) | {0})                      # boundary: the very first element is rejected
    re = sorted(i for i in range(n) if rng.random() < 0.1)
    src = rng.choice(['clean'] * 5 + ['exc', 'stopreq'] + (['exc', 'stopreq'] * 2 if bias == 'src' else []))
    stop_after = None
    if n > 0 and rng.random() < (0.6 if bias == 'stop' else 0.2):
        stop_after = rng.randrange(1, n + 1)
    # virtual durations: of each call, of the source before each element, of the consumer after each output
    dur = [rng.choice([0, 0, 1, 2, 3, 5, 9]) for _ in range(n)]
    if bias == 'order' and n >= 2:
        dur = [max(0, 2 * (n - i) + rng.randrange(3)) for i in range(n)]     # later elements finish first
    sdel = [rng.choice([0, 0, 0, 1, 4]) for _ in range(n + 1)]
    cdel = [rng.choice([0, 0, 0, 2, 7]) for _ in range(n + 1)]
    # rarely: `func` itself raises on some non-rejected element (both implementations forward that like a source
    # failure); not in the Lean models — monitors only
    fx = None
    if kind == 'afifo' and n > 0 and rng.random() < 0.05:
        fx = rng.randrange(n)
        if fx in pf:
            fx = None
    return dict(kind=kind, n=n, src=src, cap=cap, conc=conc, rexc=rexc, retx=rng.random() < 0.5,
                pre=pre, pf=pf, re=re, stop_after=stop_after, dur=dur, sdel=sdel, cdel=cdel, fx=fx,
                seed=rng.randrange(1 << 30))


def boundary_cases():
    """hand-picked boundary cases, always run first"""
    out = []
    for kind in ('afifo', 'apmap'):
        for rexc in (True, False):
            for retx in (True, False):
                # the first element is rejected; the middle one; the last one; all of them
                for n, pf in ((1, [0]), (3, [0]), (3, [1]), (3, [2]), (3, [0, 1, 2]), (4, [0, 2])):
                    out.append(dict(kind=kind, n=n, src='clean', cap=2, conc=1, rexc=rexc, retx=retx, pre=True,
                                    pf=pf, re=[], stop_after=None, dur=[n - i for i in range(n)],
                                    sdel=[0] * (n + 1), cdel=[0] * (n + 1), seed=0))
        for src in ('clean', 'exc', 'stopreq'):
            for n in (0, 1, 3):
                out.append(dict(kind=kind, n=n, src=src, cap=2, conc=1, rexc=True, retx=True, pre=False, pf=[],
                                re=[], stop_after=None, dur=[1] * n, sdel=[0] * (n + 1), cdel=[0] * (n + 1), seed=0))
        # early close with a full queue / running tasks
        out.append(dict(kind=kind, n=8, src='clean', cap=2, conc=1, rexc=False, retx=True, pre=False, pf=[], re=[],
                        stop_after=1, dur=[3, 1, 1, 5, 5, 5, 5, 5], sdel=[0] * 9, cdel=[0] * 9, seed=0))
        # a rejected element right behind a slow one (the stale awaitable would be the slow one's)
        out.append(dict(kind=kind, n=3, src='clean', cap=2, conc=1, rexc=True, retx=False, pre=True, pf=[1], re=[],
                        stop_after=None, dur=[5, 0, 0], sdel=[0] * 4, cdel=[0] * 4, seed=0))
    return out


def perm_cases(n, cap, pf=(), re=(), rexc=True, kind='afifo'):
    """all completion orders of n concurrent calls: call i takes perm[i]+1 virtual time units"""
    for perm in itertools.permutations(range(n)):
        yield dict(kind=kind, n=n, src='clean', cap=cap, conc=max(1, cap // 2), rexc=rexc, retx=True,
                   pre=bool(pf), pf=list(pf), re=list(re), stop_after=None, dur=[p + 1 for p in perm],
                   sdel=[0] * (n + 1), cdel=[0] * (n + 1), seed=0, perm=True)


def nontrivial(case, res):
    """>= 2 elements and at least two calls were in flight at the same time"""
    return case['n'] >= 2 and res.get('max_running', 0) >= 2


def expected(case):
    """The specification, computed from the case alone: (list of (index, kind), ending)."""
    out = []
    end = ('end',)
    fx = case.get('fx')
    for i in range(case['n']):
        if fx is not None and i == fx:
            end = ('raise', 'func', i)
            break
        if case['pre'] and i in case['pf']:
            kind = 'pre'
        elif i in case['re']:
            kind = 'work'
        else:
            kind = 'ok'
        if kind != 'ok' and not case['rexc']:
            end = ('raise', kind, i)
            break
        out.append((i, kind))
    else:
        if case['src'] == 'exc':
            end = ('raise', 'src', None)
        elif case['src'] == 'stopreq':
            end = ('raise', 'stopreq', None)
    if case['stop_after'] is not None and case['stop_after'] <= len(out):
        out = out[:case['stop_after']]
        end = ('closed',)
    return out, end


# ----------------------------------------------------------------------------------------------
# running one case
# ----------------------------------------------------------------------------------------------

class _Book:
    """what the instrumented source / preprocessor / worker of one run record"""

    def __init__(self, case, log):
        self.case = case
        self.log = log
        self.pf = set(case['pf']) if case['pre'] else set()
        self.re = set(case['re'])
        self.calls = {}
        self.running = 0
        self.max_running = 0
        self.excs = {}     # index -> the very exception object raised for that element
        self.off = BASE + (PP if case['pre'] else 0)   # what the worker has to subtract from its argument

    def pre(self, x):
        i = x - BASE
        if i in self.pf:
            self.log(('preFail', i))
            e = PreError(i)
            self.excs[('pre', i)] = e
            raise e
        return x + PP

    def enter(self, i):
        self.calls[i] = self.calls.get(i, 0) + 1
        self.running += 1
        self.max_running = max(self.max_running, self.running)
        self.log(('start', i))

    def leave(self, i):
        self.running -= 1
        self.log(('finish', i))

    def outcome(self, i):
        if not 0 <= i < self.case['n']:
            return ('fed-unprocessed-input', i)
        if i in self.re:
            e = WorkError(i)
            self.excs[('work', i)] = e
            raise e
        return ('y', i)

    def decode(self, v, retx):
        """-> (index from x or None, index from y, kind of y, is-the-very-object)"""
        ix = None
        if retx:
            x, y = v
            ix = x - BASE
        else:
            y = v
        if isinstance(y, WorkError):
            return ix, y.i, 'work', self.excs.get(('work', y.i)) is y
        if isinstance(y, PreError):
            return ix, y.i, 'pre', self.excs.get(('pre', y.i)) is y
        if isinstance(y, tuple) and len(y) == 2 and y[0] == 'y':
            return ix, y[1], 'ok', True
        return ix, None, 'garbage:' + type(y).__name__, False

    def classify(self, e):
        """exception that ended the iteration -> ending tuple (+ identity flag)"""
        if isinstance(e, WorkError):
            return ('raise', 'work', e.i), self.excs.get(('work', e.i)) is e
        if isinstance(e, PreError):
            return ('raise', 'pre', e.i), self.excs.get(('pre', e.i)) is e
        if isinstance(e, SrcError):
            return ('raise', 'src', None), True
        if isinstance(e, StopRequested):
            return ('raise', 'stopreq', None), True
        if isinstance(e, FuncError):
            return ('raise', 'func', e.i), True
        return ('raise', 'other:' + type(e).__name__, None), False


def _run_async(case):
    ev = []
    log = ev.append
    book = _Book(case, log)
    n, dur, sdel, cdel = case['n'], case['dur'], case['sdel'], case['cdel']
    kind = case['kind']

    class Src:
        def __init__(self):
            self.i = 0

        def __aiter__(self):
            return self

        async def __anext__(self):
            if sdel[min(self.i, n)]:
                await asyncio.sleep(sdel[min(self.i, n)])
            if self.i < n:
                i = self.i
                self.i += 1
                log(('pull', i))
                return BASE + i
            if case['src'] == 'clean':
                log(('srcEnd',))
                raise StopAsyncIteration
            log(('srcRaise',))
            if case['src'] == 'exc':
                raise SrcError('src')
            raise StopRequested()

    async def awork(x):
        i = x - book.off
        book.enter(i)
        try:
            if 0 <= i < n and dur[i]:
                await asyncio.sleep(dur[i])
            return book.outcome(i)
        finally:
            book.leave(i)

    def work_factory(x):
        # what AsyncParmapperAsync calls as `self._func(x)`: creating the coroutine = submitting
        log(('submit', x - book.off))
        return awork(x)

    async def main():
        loop = asyncio.get_running_loop()
        pre = book.pre if case['pre'] else None
        if kind == 'afifo':
            async def func(x):
                if case.get('fx') is not None and x - book.off == case['fx']:
                    raise FuncError(case['fx'])
                log(('submit', x - book.off))
                return loop.create_task(awork(x))
            gen = async_fifo_stream(Src(), func, capacity=case['cap'], return_x=case['retx'],
                                    return_exceptions=case['rexc'], preprocessor=pre)
        elif kind == 'apmap':
            gen = AsyncParmapperAsync(Src(), work_factory, concurrency=case['conc'], return_x=case['retx'],
                                      return_exceptions=case['rexc'], preprocessor=pre).__aiter__()
        else:
            raise ValueError(kind)
        out = []
        ident = True
        first = True
        end = None
        try:
            while True:
                if not first:
                    log(('next',))
                first = False
                v = await gen.__anext__()
                ix, iy, k, same = book.decode(v, case['retx'])
                ident = ident and same
                log(('yld', iy if iy is not None else -1) + ((ix,) if ix is not None else ()))
                out.append((ix, iy, k))
                if cdel[min(len(out), n)]:
                    await asyncio.sleep(cdel[min(len(out), n)])
                if case['stop_after'] is not None and len(out) == case['stop_after']:
                    log(('close',))
                    await gen.aclose()
                    end = ('closed',)
                    break
        except StopAsyncIteration:
            end = ('end',)
        except (WorkError, PreError, SrcError, StopRequested, FuncError, UnboundLocalError) as e:
            end, same = book.classify(e)
            ident = ident and same
        log(('join',))
        # let whatever the feeder submitted after the drain run to its end (it is not awaited by the
        # generator; asyncio.run would cancel it when the loop shuts down)
        await asyncio.sleep(sum(dur) + 1)
        log(('final',))
        return out, end, ident

    v, e, stats = vloop.run(main)
    return v, e, stats, ev, book


def _run_sync(case):
    """the synchronous counterpart on the same case, with real threads"""
    from concurrent.futures import ThreadPoolExecutor
    ev = []
    book = _Book(case, ev.append)
    n = case['n']

    class Src:
        def __init__(self):
            self.i = 0

        def __iter__(self):
            return self

        def __next__(self):
            if self.i < n:
                self.i += 1
                return BASE + self.i - 1
            if case['src'] == 'clean':
                raise StopIteration
            if case['src'] == 'exc':
                raise SrcError('src')
            raise StopRequested()

    def work(x):
        i = x - book.off
        book.calls[i] = book.calls.get(i, 0) + 1
        return book.outcome(i)

    pre = book.pre if case['pre'] else None
    out = []
    ident = True

    def consume(gen):
        nonlocal ident
        try:
            for v in gen:
                ix, iy, k, same = book.decode(v, case['retx'])
                ident = ident and same
                out.append((ix, iy, k))
                if case['stop_after'] is not None and len(out) == case['stop_after']:
                    gen.close()
                    return ('closed',)
            return ('end',)
        except (WorkError, PreError, SrcError, StopRequested, FuncError) as e:
            end, same = book.classify(e)
            ident = ident and same
            return end

    if case['kind'] == 'afifo':
        with ThreadPoolExecutor(max(2, case['conc'])) as pool:
            def func(x):
                if case.get('fx') is not None and x - book.off == case['fx']:
                    raise FuncError(case['fx'])
                return pool.submit(work, x)
            gen = fifo_stream(Src(), func, capacity=case['cap'], return_x=case['retx'],
                              return_exceptions=case['rexc'], preprocessor=pre)
            end = consume(gen)
    else:
        gen = iter(Stream(Src()).parmap(work, executor='thread', concurrency=case['conc'], return_x=case['retx'],
                                        return_exceptions=case['rexc'], preprocessor=pre))
        end = consume(gen)
    return out, end, ident, book


def run_case(case):
    v, e, stats, ev, book = _run_async(case)
    res = dict(events=ev, stats=stats, max_running=book.max_running, monitors=[], out=None, end=None,
               switches=stats.get('jumps', 0))
    mon = res['monitors']
    if case['kind'] == 'apmap' and book.max_running > case['conc']:
        # known finding F35: async worker functions are limited only by the hand-off capacity (2*concurrency+3
        # elements in flight); anything beyond that envelope is a different violation
        mon.append(dict(prop='C08', rule='concurrency-async-worker-within-capacity' if book.max_running <= 2 * case['conc'] + 3 else 'concurrency',
                        detail=f'AsyncStream.parmap(async worker): {book.max_running} invocations of the worker function under way '
                               f'at the same time, concurrency={case["conc"]}'))
    exp_out, exp_end = expected(case)
    res['expected'] = [list(exp_out), list(exp_end)]
    sync_out, sync_end, sync_ident, sbook = _run_sync(case)
    res['sync_out'] = sync_out
    res['sync_end'] = list(sync_end)
    if e is not None:
        if isinstance(e, vloop.Hang):
            res['hang'] = str(e)
            mon.append(dict(prop='C16', rule='async-hangs-sync-does-not',
                            detail=f'the async iteration never ends ({e}); the sync counterpart delivered '
                                   f'{len(sync_out)} outputs and ended {sync_end}'))
        else:
            res['error'] = repr(e)
            mon.append(dict(prop='C16', rule='unexpected-exception', detail=repr(e)))
        return res
    out, end, ident = v
    res['out'] = out
    res['end'] = list(end)
    got = [(iy, k) for (_ix, iy, k) in out]
    sgot = [(iy, k) for (_ix, iy, k) in sync_out]
    # C16: async == sync (values, exceptions, order, pairing, ending)
    if out != sync_out or tuple(end) != tuple(sync_end):
        mon.append(dict(prop='C16', rule='async-differs-from-sync',
                        detail=f'async delivered {out} and ended {end}; sync delivered {sync_out} and ended {sync_end}'))
    # ... and both equal the specification
    if got != exp_out or tuple(end) != tuple(exp_end):
        mon.append(dict(prop='C16', rule='async-differs-from-spec',
                        detail=f'async delivered {got} and ended {end}; expected {exp_out}, {exp_end}'))
    if sgot != exp_out or tuple(sync_end) != tuple(exp_end):
        mon.append(dict(prop='C16', rule='sync-differs-from-spec',
                        detail=f'sync delivered {sgot} and ended {sync_end}; expected {exp_out}, {exp_end}'))
    if case['retx'] and any(ix != iy for (ix, iy, _k) in out):
        mon.append(dict(prop='C16', rule='pairing', detail=f'{out}'))
    # a rejected element yields its own exception, never another element's result
    for pos, (ix, iy, k) in enumerate(out):
        if pos in book.pf and (iy, k) != (pos, 'pre'):
            mon.append(dict(prop='C16', rule='rejected-element-got-other-result',
                            detail=f'element {pos} was rejected by the preprocessor but position {pos} delivered {(ix, iy, k)}'))
    if end[0] == 'raise' and end[1].startswith('other'):
        mon.append(dict(prop='C16', rule='foreign-exception', detail=f'the async iteration raised {end[1]}'))
    if not ident or not sync_ident:
        mon.append(dict(prop='C16', rule='exception-object',
                        detail=f'a delivered exception is not the object that was raised (async ok={ident}, sync ok={sync_ident})'))
    # exactly-once on the async side
    for i, cnt in book.calls.items():
        if cnt != 1 or i in book.pf:
            mon.append(dict(prop='C16', rule='exactly-once', detail=f'element {i} entered {cnt} times (rejected={i in book.pf})'))
    for (_ix, iy, k) in out:
        if k in ('ok', 'work') and book.calls.get(iy, 0) != 1:
            mon.append(dict(prop='C16', rule='exactly-once', detail=f'delivered element {iy} entered {book.calls.get(iy, 0)} times'))
    return res


# ----------------------------------------------------------------------------------------------
# the model side
# ----------------------------------------------------------------------------------------------

def model_lines(cid, case, res, stale=False):
    """Lines for `drv afifo`.  `stopreq` ends the source like an exception (the model has one
    failing-source ending; which exception class arrives is checked by the monitor).
    `stale=True`: lines for `drv afifostale` (Legacy model of the pinned code, where the
    `UnboundLocalError` of defect F1 travels on the source-failure path)."""
    if case.get('fx') is not None:
        return []          # a raising `func` is not in the Lean models: monitors only
    src = 'clean' if case['src'] == 'clean' else 'exc'
    pfl = ','.join(map(str, case['pf'])) if case['pre'] else ''
    lines = [f'case {cid} n={case["n"]} cap={case["cap"]} rexc={int(case["rexc"])} '
             f'src={src} pf={pfl} re={",".join(map(str, case["re"]))}']
    final = 0
    for e in res['events']:
        if e[0] == 'final':
            final = 1
            continue
        lines.append('e ' + ' '.join(str(x) for x in e))
    if res.get('out') is None:
        lines.append('end out=0 raised=none close=0 final=0 partial=1')
        return lines
    end = res['end']
    if end[0] == 'raise':
        if end[1] in ('src', 'stopreq') or (stale and end[1] == 'other:UnboundLocalError'):
            raised = 'src'
        elif end[1].startswith('other'):
            raised = 'foreign'          # no model state has this: the main model never raises a foreign exception
        else:
            raised = f'item:{end[2]}'
    else:
        raised = 'none'
    lines.append(f'end out={len(res["out"])} raised={raised} close={int(end[0] == "closed")} final={final}')
    return lines


_K = {'ok': 'o', 'work': 'w', 'pre': 'p'}


def differential(case, res, verdict_line):
    """compare the driver's `dl=` (AFifo.delivered of the model state the trace leads to) and `oc=`
    (AFifo.outcome of the configuration) with what the real code delivered.  -> None or a message"""
    if res.get('out') is None:
        return None
    kv = dict(w.split('=', 1) for w in verdict_line.split() if '=' in w)
    got = ','.join(f'{pos if ix is None else ix}:{_K.get(k, "?")}{iy}' for pos, (ix, iy, k) in enumerate(res['out']))
    if kv.get('dl', '') != got:
        return f'model delivered [{kv.get("dl")}] but the code delivered [{got}]'
    end = res['end']
    if end[0] != 'closed':
        if end[0] == 'raise':
            raised = 'src' if end[1] in ('src', 'stopreq') else f'item:{end[2]}'
        else:
            raised = 'none'
        oc = f'{len(res["out"])}/{raised}'
        if kv.get('oc') != oc:
            return f'model outcome {kv.get("oc")} but the code ended with {oc}'
    return None
