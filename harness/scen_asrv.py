"""
Scenario for C16, thread-mixing variants under the deterministic scheduler (E1) with the
cooperative-selector event loop (`cooploop.CoopLoop`):

* `srv_stream`:  `AsyncServer.stream`  vs  `Server.stream`   (thread servlet, same data, preprocessor, flags)
* `srv_call`:    concurrent `AsyncServer.call` (gather)  vs  concurrent `Server.call` (caller threads)
* `apmap_thread`: `AsyncParmapper(executor='thread')`  vs  `Stream.parmap(executor='thread')`
* `pmap_async`:  `Stream.parmap(<async worker>)` = `ParmapperAsync` (sync environment, worker coroutines on
                 a background loop thread)  vs  `Stream.parmap(<sync worker>, executor='thread')`

Each case is run twice under `detsched.run` with the case's chooser — once through the async
variant (event loop in the scheduler-managed main thread, servlet/pool threads scheduled like any
other), once through the sync variant — and the monitors compare the two answers with each other
and with the specification computed from the case alone.  For `srv_stream` and `apmap_thread` the
async side also records the observable events of the underlying `async_fifo_stream` (pull / preFail /
submit = entry into `_enqueue` resp. `executor.submit` / start / finish = `Worker.call` resp. the
pool function / yld / next / close / join), which `drv afifo` validates against the Lean model
(cancelling these awaitables is the model's `drainDetach`).  `srv_call` and `pmap_async`: monitors only
(the servers' own ledger is C02's model; `ParmapperAsync` runs on the *sync* `fifo_stream`).

Import only after `detsched.install()`.
"""
import asyncio
import random

import detsched
import cooploop

from mpservice._common import StopRequested
from mpservice.mpserver import AsyncServer, Server, ThreadServlet, Worker
from mpservice.streamer import Stream
from mpservice.streamer._streamer_async import AsyncParmapper
import mpservice.streamer._streamer_async as _SA

cooploop.install()      # loops created by the code under test (ParmapperAsync) are cooperative, virtual-time loops

MODEL = 'afifo'
_OrigTPE = _SA.ThreadPoolExecutor
BASE = 100
PP = 1000
FOREVER = 1e6


class SrcError(Exception):
    pass


class WorkError(Exception):
    def __init__(self, i):
        super().__init__(i)
        self.i = i


class PreError(Exception):
    def __init__(self, i):
        super().__init__(i)
        self.i = i


def gen_case(rng: random.Random, tier: str, bias: str = ''):
    kind = rng.choice(['srv_stream', 'srv_stream', 'srv_call', 'apmap_thread', 'pmap_async'])
    n = rng.choice([0, 1, 2, 3, 4, 5, 7])
    if kind == 'srv_call':
        n = max(n, 1)
    conc = rng.choice([1, 2, 3])
    if kind in ('apmap_thread', 'pmap_async') and n == 7:
        n = 2 * conc + 3 + 4        # longer than the look-ahead bound of the stage (C08)
    cap = rng.choice([1, 2, 3, 5]) if kind not in ('apmap_thread', 'pmap_async') else 2 * conc
    pre = kind != 'srv_call' and rng.random() < (0.85 if bias == 'pre' else 0.5)
    ppf = rng.choice([0.15, 0.3, 0.5]) if bias == 'pre' else 0.15
    pf = sorted(i for i in range(n) if pre and rng.random() < ppf)
    if pre and bias == 'pre' and n > 0 and rng.random() < 0.35:
        pf = sorted(set(pf) | {0})
    re = sorted(i for i in range(n) if rng.random() < 0.12)
    src = 'clean' if kind == 'srv_call' else rng.choice(['clean'] * 5 + ['exc', 'stopreq'])
    stop_after = None
    if kind != 'srv_call' and n > 0 and rng.random() < 0.2:
        stop_after = rng.randrange(1, n + 1)
    dur = [rng.choice([0, 0, 1, 2, 4]) for _ in range(n)]
    ch = rng.choice([('random', 0.0), ('random', 0.0), ('sticky', 0.2, 0.0), ('sticky', 0.05, 0.0),
                     ('pct', 2, 600, 0.0), ('pct', 3, 600, 0.0)])
    return dict(kind=kind, n=n, src=src, cap=cap, conc=conc, rexc=rng.random() < 0.6, retx=rng.random() < 0.5,
                pre=pre, pf=pf, re=re, stop_after=stop_after, dur=dur, chooser=list(ch),
                two_loops=rng.random() < 0.3, seed=rng.randrange(1 << 30))


def nontrivial(case, res):
    return case['n'] >= 2 and res.get('switches', 0) >= 1


def expected(case):
    out = []
    end = ('end',)
    for i in range(case['n']):
        if case['pre'] and i in case['pf']:
            kind = 'pre'
        elif i in case['re']:
            kind = 'work'
        else:
            kind = 'ok'
        if kind != 'ok' and not case['rexc']:
            end = ('raise', kind, i)
            break
        out.append((i, kind))
    else:
        if case['src'] == 'exc':
            end = ('raise', 'src', None)
        elif case['src'] == 'stopreq':
            end = ('raise', 'stopreq', None)
    if case['stop_after'] is not None and case['stop_after'] <= len(out):
        out = out[:case['stop_after']]
        end = ('closed',)
    return out, end


def _decode_y(y):
    if isinstance(y, WorkError):
        return y.i, 'work'
    if isinstance(y, PreError):
        return y.i, 'pre'
    if isinstance(y, tuple) and len(y) == 2 and y[0] == 'y':
        return y[1], 'ok'
    return None, 'garbage:' + type(y).__name__ + ':' + repr(y)[:60]


def _decode(v, retx):
    ix = None
    if retx:
        x, y = v
        ix = x - BASE
    else:
        y = v
    iy, k = _decode_y(y)
    return ix, iy, k


def _classify(e):
    if isinstance(e, WorkError):
        return ('raise', 'work', e.i)
    if isinstance(e, PreError):
        return ('raise', 'pre', e.i)
    if isinstance(e, SrcError):
        return ('raise', 'src', None)
    if isinstance(e, StopRequested):
        return ('raise', 'stopreq', None)
    return ('raise', 'other:' + type(e).__name__, None)


def _one_side(case, asynchronous):
    """run the async or the sync variant of the case under the scheduler -> (out, end, calls) or error"""
    n, dur = case['n'], case['dur']
    pf = set(case['pf']) if case['pre'] else set()
    re = set(case['re'])
    off = BASE + (PP if case['pre'] else 0)
    calls = {}
    kind = case['kind']
    ev = []
    log = ev.append if asynchronous else (lambda e: None)

    run = {'cur': 0, 'max': 0}     # invocations of the worker function that are under way (C08)

    def watch_over():
        # once an element whose exception ends the iteration has its result, the generator may already be unwinding
        # with it (draining its queue lets the feeder pull once more before it sees the stop flag): the look-ahead
        # watch ends here, so that it never over-counts (same rule as scen_fifo)
        ahead['over'] = True

    def compute(x):
        i = x - off
        calls[i] = calls.get(i, 0) + 1
        if not 0 <= i < n:
            return ('fed-unprocessed-input', i)
        log(('start', i))
        run['cur'] += 1
        run['max'] = max(run['max'], run['cur'])
        try:
            for _ in range(dur[i]):
                detsched.yield_here('work')
            if i in re:
                if not case['rexc']:
                    watch_over()
                raise WorkError(i)
            return ('y', i)
        finally:
            run['cur'] -= 1
            log(('finish', i))

    class LoggingTPE(_OrigTPE):
        def submit(self, fn, x, *a, **kw):
            log(('submit', x - off))
            return super().submit(fn, x, *a, **kw)

    class W(Worker):
        def call(self, x):
            return compute(x)

    async def acompute(x):
        i = x - off
        calls[i] = calls.get(i, 0) + 1
        if not 0 <= i < n:
            return ('fed-unprocessed-input', i)
        run['cur'] += 1
        run['max'] = max(run['max'], run['cur'])
        try:
            for _ in range(dur[i]):
                await asyncio.sleep(0)
            if i in re:
                if not case['rexc']:
                    watch_over()
                raise WorkError(i)
            return ('y', i)
        finally:
            run['cur'] -= 1

    def pre(x):
        i = x - BASE
        if i in pf:
            log(('preFail', i))
            if not case['rexc']:
                watch_over()
            raise PreError(i)
        return x + PP

    prep = pre if case['pre'] else None

    def src_end():
        log(('srcEnd',) if case['src'] == 'clean' else ('srcRaise',))
        if case['src'] == 'exc':
            raise SrcError('src')
        if case['src'] == 'stopreq':
            raise StopRequested()

    ahead = {'pulled': 0, 'recv': 0, 'max': 0}     # source elements pulled but not yet handed to the consumer (C08)

    def pulled():
        # "while the stream is consumed": the watch ends when the consumer has its last output, the failure, or closes
        ahead['pulled'] += 1
        if not ahead.get('over'):
            ahead['max'] = max(ahead['max'], ahead['pulled'] - ahead['recv'])

    def sync_src():
        for i in range(n):
            pulled()
            yield BASE + i
        src_end()

    async def async_src():
        for i in range(n):
            log(('pull', i))
            pulled()
            yield BASE + i
        src_end()

    out = []

    def sync_consume(gen):
        try:
            for v in gen:
                ahead['recv'] += 1
                out.append(_decode(v, case['retx']))
                if case['stop_after'] is not None and len(out) == case['stop_after']:
                    ahead['over'] = True
                    gen.close()
                    return ('closed',)
            return ('end',)
        except (WorkError, PreError, SrcError, StopRequested, UnboundLocalError) as e:
            ahead['over'] = True
            return _classify(e)

    async def async_consume(gen):
        first = True
        try:
            while True:
                if not first:
                    log(('next',))
                first = False
                v = await gen.__anext__()
                ahead['recv'] += 1
                ix, iy, k = _decode(v, case['retx'])
                log(('yld', iy if iy is not None else -1) + ((ix,) if ix is not None else ()))
                out.append((ix, iy, k))
                if case['stop_after'] is not None and len(out) == case['stop_after']:
                    log(('close',))
                    ahead['over'] = True
                    await gen.aclose()
                    # No `join` here: `AsyncServer.stream` and `AsyncParmapper.__aiter__` are async generators
                    # *around* `async_fifo_stream`; closing the outer one does not close the inner one
                    # synchronously (it is finalised later by the loop's asyncgen hook), so the inner
                    # generator's return is not observable at this point.
                    return ('closed',)
        except StopAsyncIteration:
            log(('join',))
            return ('end',)
        except (WorkError, PreError, SrcError, StopRequested, UnboundLocalError) as e:
            ahead['over'] = True
            log(('join',))
            return _classify(e)

    def sync_main():
        if kind == 'pmap_async' and asynchronous:
            gen = iter(Stream(sync_src()).parmap(acompute, concurrency=case['conc'],
                                                 return_x=case['retx'], return_exceptions=case['rexc'],
                                                 preprocessor=prep))
            return sync_consume(gen)
        if kind in ('apmap_thread', 'pmap_async'):
            gen = iter(Stream(sync_src()).parmap(compute, executor='thread', concurrency=case['conc'],
                                                 return_x=case['retx'], return_exceptions=case['rexc'],
                                                 preprocessor=prep))
            return sync_consume(gen)
        with Server(ThreadServlet(W, num_threads=case['conc']), capacity=case['cap']) as srv:
            if kind == 'srv_stream':
                gen = srv.stream(sync_src(), return_x=case['retx'], return_exceptions=case['rexc'],
                                 timeout=FOREVER, preprocessor=prep)
                return sync_consume(gen)
            # srv_call: n concurrent callers
            from mpservice.threading import Thread
            res = {}

            def caller(i):
                try:
                    res[i] = _decode_y(srv.call(BASE + i, timeout=FOREVER, backpressure=False))
                except Exception as e:  # noqa: BLE001
                    res[i] = _decode_y(e)
            ts = [Thread(target=caller, args=(i,), name=f'caller{i}') for i in range(n)]
            for t in ts:
                t.start()
            for t in ts:
                t.join()
            out.extend((i,) + res[i] for i in range(n))
            return ('end',)

    async def warm_session(srv):
        """an earlier session of the SAME AsyncServer object, on another event loop, in which callers had to wait
        for room (capacity + 2 concurrent calls without backpressure)"""
        async with srv:
            await asyncio.gather(*[srv.call(off + n + 10 + j, timeout=FOREVER, backpressure=False)
                                   for j in range(case['cap'] + 2)], return_exceptions=True)

    async def async_main(srv0=None):
        if kind == 'apmap_thread':
            _SA.ThreadPoolExecutor = LoggingTPE
            try:
                gen = AsyncParmapper(async_src(), compute, executor='thread', concurrency=case['conc'],
                                     return_x=case['retx'], return_exceptions=case['rexc'],
                                     preprocessor=prep).__aiter__()
                return await async_consume(gen)
            finally:
                _SA.ThreadPoolExecutor = _OrigTPE
        async with (srv0 if srv0 is not None else AsyncServer(ThreadServlet(W, num_threads=case['conc']), capacity=case['cap'])) as srv:
            if kind == 'srv_stream':
                orig_enqueue = srv._enqueue

                async def logging_enqueue(x, **kw):
                    log(('submit', x - off))
                    return await orig_enqueue(x, **kw)
                srv._enqueue = logging_enqueue
                gen = srv.stream(async_src(), return_x=case['retx'], return_exceptions=case['rexc'],
                                 timeout=FOREVER, preprocessor=prep)
                return await async_consume(gen)

            async def caller(i):
                try:
                    return _decode_y(await srv.call(BASE + i, timeout=FOREVER, backpressure=False))
                except Exception as e:  # noqa: BLE001
                    return _decode_y(e)
            res = await asyncio.gather(*[caller(i) for i in range(n)])
            out.extend((i,) + r for i, r in enumerate(res))
            return ('end',)

    def main():
        if not asynchronous or kind == 'pmap_async':
            return sync_main()
        srv0 = None
        if case.get('two_loops') and kind in ('srv_stream', 'srv_call'):
            # the server object has already been used in a session on a different event loop
            srv0 = AsyncServer(ThreadServlet(W, num_threads=case['conc']), capacity=case['cap'])
            loop0 = cooploop.CoopLoop()
            try:
                loop0.run_until_complete(warm_session(srv0))
            finally:
                try:
                    loop0.run_until_complete(loop0.shutdown_asyncgens())
                    loop0.run_until_complete(loop0.shutdown_default_executor())
                finally:
                    loop0.close()
            calls.clear()
        loop = cooploop.CoopLoop()
        try:
            return loop.run_until_complete(async_main(srv0))
        finally:
            try:
                loop.run_until_complete(loop.shutdown_asyncgens())
                loop.run_until_complete(loop.shutdown_default_executor())
            finally:
                loop.close()

    chooser = detsched.make_chooser(tuple(case['chooser']), case['seed'] + (1 if asynchronous else 0))
    v, e, s = detsched.run(main, chooser, max_steps=case.get('max_steps', 300000))
    if asynchronous and e is None:
        ev.append(('final',))
    calls['__max_running__'] = run['max']
    calls['__max_ahead__'] = ahead['max']
    return v, e, s, out, calls, ev


def run_case(case):
    av, ae, as_, aout, acalls, aev = _one_side(case, True)
    sv, se, ss, sout, scalls, _ = _one_side(case, False)
    amax, smax = acalls.pop('__max_running__', 0), scalls.pop('__max_running__', 0)
    aahead, sahead = acalls.pop('__max_ahead__', 0), scalls.pop('__max_ahead__', 0)
    res = dict(max_running=[amax, smax], events=aev, steps=[as_.steps, ss.steps], switches=as_.switches, monitors=[],
               out=None, end=None, sync_out=None, sync_end=None)
    mon = res['monitors']
    if case['kind'] in ('apmap_thread', 'pmap_async'):
        # C08: at most capacity+3 = 2*concurrency+3 source elements pulled but not yet handed to the consumer
        for side, mx in (('async', aahead), ('sync', sahead)):
            if mx > 2 * case['conc'] + 3:
                what = {'apmap_thread': {'async': 'AsyncStream.parmap(sync worker)', 'sync': 'Stream.parmap(sync worker)'},
                        'pmap_async': {'async': 'Stream.parmap(async worker)', 'sync': 'Stream.parmap(sync worker)'}}[case['kind']][side]
                mon.append(dict(prop='C08', rule='lookahead', detail=f'{what}: {mx} source elements pulled but not yet handed to the '
                                                                      f'consumer > 2*concurrency+3 = {2 * case["conc"] + 3}'))
        # C08: no more than `concurrency` invocations of the worker function at any time (async variant, sync reference)
        for side, mx in (('async', amax), ('sync', smax)):
            if mx > case['conc']:
                what = {'apmap_thread': {'async': 'AsyncStream.parmap(sync worker)', 'sync': 'Stream.parmap(sync worker)'},
                        'pmap_async': {'async': 'Stream.parmap(async worker)', 'sync': 'Stream.parmap(sync worker)'}}[case['kind']][side]
                within = case['kind'] == 'pmap_async' and side == 'async' and mx <= 2 * case['conc'] + 3   # F35
                mon.append(dict(prop='C08', rule='concurrency-async-worker-within-capacity' if within else 'concurrency',
                                detail=f'{what}: {mx} invocations of the worker function under way at the same time, concurrency={case["conc"]}'))
    if se is not None:
        # the reference itself failed: not a C16 verdict unless the async side differs; report as its own rule
        res['sync_error'] = repr(se)
    else:
        res['sync_out'], res['sync_end'] = sout, list(sv)
    if ae is not None:
        if isinstance(ae, detsched.Deadlock):
            res['hang'] = str(ae.args[0] if ae.args else '')[:300]
            if se is None:
                mon.append(dict(prop='C16', rule='async-hangs-sync-does-not',
                                detail=f'the async variant never ends ({res["hang"]}); the sync counterpart delivered '
                                       f'{len(sout)} outputs and ended {sv}'))
        else:
            res['error'] = repr(ae)
            mon.append(dict(prop='C16', rule='unexpected-exception', detail=repr(ae)[:300]))
        return res
    res['out'], res['end'] = aout, list(av)
    if se is not None:
        mon.append(dict(prop='C16', rule='sync-fails-async-does-not', detail=repr(se)[:300]))
        return res
    if case['kind'] == 'srv_call':
        exp = [(i, i, 'work' if i in case['re'] else 'ok') for i in range(case['n'])]
        if aout != sout:
            mon.append(dict(prop='C16', rule='async-differs-from-sync', detail=f'async calls -> {aout}; sync calls -> {sout}'))
        if aout != exp:
            mon.append(dict(prop='C16', rule='async-differs-from-spec', detail=f'async calls -> {aout}; expected {exp}'))
        return res
    exp_out, exp_end = expected(case)
    got = [(iy, k) for (_ix, iy, k) in aout]
    if aout != sout or tuple(av) != tuple(sv):
        mon.append(dict(prop='C16', rule='async-differs-from-sync',
                        detail=f'async delivered {aout} and ended {av}; sync delivered {sout} and ended {sv}'))
    if got != exp_out or tuple(av) != tuple(exp_end):
        mon.append(dict(prop='C16', rule='async-differs-from-spec',
                        detail=f'async delivered {got} and ended {av}; expected {exp_out}, {exp_end}'))
    if case['retx'] and any(ix != iy for (ix, iy, _k) in aout):
        mon.append(dict(prop='C16', rule='pairing', detail=f'{aout}'))
    pfs = set(case['pf']) if case['pre'] else set()
    for pos, (ix, iy, k) in enumerate(aout):
        if pos in pfs and (iy, k) != (pos, 'pre'):
            mon.append(dict(prop='C16', rule='rejected-element-got-other-result',
                            detail=f'element {pos} was rejected by the preprocessor but position {pos} delivered {(ix, iy, k)}'))
    for i, cnt in acalls.items():
        if cnt != 1 or i in pfs:
            mon.append(dict(prop='C16', rule='exactly-once', detail=f'element {i} entered {cnt} times (rejected={i in pfs})'))
    return res


VALIDATED_KINDS = ('srv_stream', 'apmap_thread')


def model_lines(cid, case, res, stale=False):
    """Lines for `drv afifo` (kinds whose async side is `async_fifo_stream` with a future-returning `func`)."""
    if case['kind'] not in VALIDATED_KINDS:
        return []
    src = 'clean' if case['src'] == 'clean' else 'exc'
    pfl = ','.join(map(str, case['pf'])) if case['pre'] else ''
    lines = [f'case {cid} n={case["n"]} cap={case["cap"]} rexc={int(case["rexc"])} '
             f'src={src} pf={pfl} re={",".join(map(str, case["re"]))} detach=1']
    final = 0
    for e in res['events']:
        if e[0] == 'final':
            final = 1
            continue
        lines.append('e ' + ' '.join(str(x) for x in e))
    if res.get('out') is None:
        lines.append('end out=0 raised=none close=0 final=0 partial=1')
        return lines
    end = res['end']
    if end[0] == 'raise':
        if end[1] in ('src', 'stopreq') or (stale and end[1] == 'other:UnboundLocalError'):
            raised = 'src'
        elif end[1].startswith('other'):
            raised = 'foreign'
        else:
            raised = f'item:{end[2]}'
    else:
        raised = 'none'
    if end[0] == 'closed':
        final = 0       # see `async_consume`: the inner generator may still be winding down
    lines.append(f'end out={len(res["out"])} raised={raised} close={int(end[0] == "closed")} final={final}')
    return lines


_K = {'ok': 'o', 'work': 'w', 'pre': 'p'}


def differential(case, res, verdict_line):
    if res.get('out') is None:
        return None
    kv = dict(w.split('=', 1) for w in verdict_line.split() if '=' in w)
    got = ','.join(f'{pos if ix is None else ix}:{_K.get(k, "?")}{iy}' for pos, (ix, iy, k) in enumerate(res['out']))
    if kv.get('dl', '') != got:
        return f'model delivered [{kv.get("dl")}] but the code delivered [{got}]'
    end = res['end']
    if end[0] != 'closed':
        if end[0] == 'raise':
            raised = 'src' if end[1] in ('src', 'stopreq') else f'item:{end[2]}'
        else:
            raised = 'none'
        oc = f'{len(res["out"])}/{raised}'
        if kv.get('oc') != oc:
            return f'model outcome {kv.get("oc")} but the code ended with {oc}'
    return None
