"""
Scenario: the batching worker machinery (`Worker.run/start/_start_single/_start_batch/
_build_input_batches/_get_input_batch/stream`, `SingleLane`) driven directly with hand-made
`_SimpleThreadQueue`s under the deterministic scheduler and its virtual clock.  Serves C09.

1..3 worker threads of one (would-be) servlet share `q_in`/`q_out`; a feeder thread puts the
generated arrival pattern (virtual times, ties included; regular inputs, inputs `preprocess`
rejects, exception values) and finally the end marker.  All observation is from the harness side:
per-worker *views* of the two queues and of the read lock, a logging `deque` inside the worker's
real `SingleLane`, a logging view of `_batch_get_called`, instrumented `preprocess` / `call`.
Every event carries the virtual time; the Lean driver (`drv batch`) replays the events through
the proved model.  Must be imported only after `detsched.install()` in workers.
"""
import collections
import random

import detsched

from mpservice.mpserver._worker import Worker, _SimpleThreadQueue
from mpservice.multiprocessing.remote_exception import RemoteException
from mpservice.threading import Thread

MODEL = 'batch'
U = 1.0 / 1024          # one clock tick (dyadic, so the code's float arithmetic is exact)


class PreErr(Exception):
    pass


class InErr(Exception):
    pass


class CallErr(Exception):
    pass


def _raised(e):
    try:
        raise e
    except Exception as x:   # gives the object a traceback, as an exception from upstream has
        return x


CHOOSERS = [('random', 0.0), ('random', 0.0), ('sticky', 0.2, 0.0), ('sticky', 0.05, 0.0),
            ('pct', 2, 300, 0.0), ('pct', 3, 300, 0.0), ('pct', 2, 900, 0.0), ('starve',), ('pctrel', 300),
            ('pctrel', 900, ['rlock.release'])]


def gen_case(rng: random.Random, tier: str, bias: str = ''):
    big = tier == 'thorough'
    k = rng.choice([1, 1, 2, 2, 3])
    b = rng.choice([0, 1, 2, 2, 3, 3, 4, 5] if not big else [0, 1, 2, 3, 4, 5, 8])
    wait = rng.choice([0, 0, 1, 2, 3, 5, 8]) if b > 1 else 0
    nst = rng.choice([0, 0, 0, 2, 3])
    pre = rng.random() < 0.6
    n = rng.choice([1, 1, 2, 3, 4, 6, 8, 12] if not big else [1, 2, 3, 5, 8, 13, 20, 30])
    service = rng.choice([0, 1, 3, 8])
    gaps = [0, 0, 0, 1, 2, 3, 5, wait, wait + 1, 2 * wait + 1]
    if bias == 'single':
        # batch_size 0 / 1: _start_single (no collector thread, no buffer)
        b = rng.choice([0, 1])
        wait = 0
    if bias == 'lone':
        # a single request (or a few far apart): nothing else ever arrives to fill the batch
        n = rng.choice([1, 1, 2, 3])
        gaps = [wait + 1, 2 * wait + 3, 20]
        b = max(b, 2)
    elif bias == 'burst':
        # many arrivals at once, small batch, slow call: the batch buffer (b + 10) fills up
        b = rng.choice([2, 2, 3])
        wait = rng.choice([0, 1, 2])
        n = rng.choice([b + 18, 40, 60, 100] if not big else [b + 14, 2 * b + 24, 40, 60, 100, 150])
        k = rng.choice([1, 1, 1, 2])
        nst = rng.choice([0, 0, 0, 2])
        service = rng.choice([0, 3, 8])
        gaps = [0]
    elif bias == 'boundary':
        # ties with the deadline, exactly b / b+1 / b-1 arrivals
        b = max(b, 2)
        n = rng.choice([b - 1, b, b + 1, 2 * b])
        gaps = [0, wait, wait, max(0, wait - 1), wait + 1]
    arr = []
    for _ in range(n):
        dt = rng.choice(gaps)
        r = rng.random()
        if bias == 'burst':
            r *= 0.8
        kind = 'g' if r < 0.75 else ('r' if r < 0.87 else ('x' if r < 0.94 else 'X'))
        if kind == 'r' and not pre:
            kind = 'g'
        arr.append([dt, kind])
    fail = sorted(rng.sample(range(n), k=rng.choice([0, 0, 0, 1, 2]) if n >= 2 else 0))
    ch = rng.choice(CHOOSERS)
    if bias == 'burst' and rng.random() < 0.7:
        ch = ('pctrel', rng.choice([6 * n, 12 * n]), ['lock.acquire'])
    return dict(k=k, b=b, wait=wait, nst=nst, pre=pre, pre_form=rng.choice(['method', 'method', 'attr']), arr=arr, fail=fail, service=service,
                stop=rng.choice(['end', 'end', 'mid']), bias=bias, chooser=list(ch),
                seed=rng.randrange(1 << 30))


def nontrivial(case, res):
    return len(case['arr']) >= 2 and res.get('switches', 0) >= 1 and res.get('ncalls', 0) >= 1


def starve_chooser(seed):
    """Long preemption right after a lock release (the check-then-act / lost-wake-up pattern): runs
    like a sticky chooser; from a random step on, the first thread that yields at a lock release
    (with probability 1/2 per occurrence) becomes the victim and is not scheduled any more while any
    other thread is enabled."""
    rng = random.Random(seed)
    st = {'k': 0, 'start': rng.randrange(5, 700), 'victim': None, 'p': rng.choice([0.1, 0.3, 0.6])}

    def choose(s, enabled, me):
        st['k'] += 1
        if st['victim'] is None and st['k'] >= st['start'] and me is not None \
                and getattr(me, 'why', '') in ('rlock.release', 'lock.release') and rng.random() < 0.5:
            st['victim'] = me.tid
        if st['victim'] is not None:
            rest = [t for t in enabled if t.tid != st['victim']]
            if rest:
                enabled = rest
        if me in enabled and rng.random() > st['p']:
            return me
        return enabled[rng.randrange(len(enabled))]
    return choose


def pct_release_chooser(seed, expected_steps=300, kinds=('rlock.release', 'lock.release')):
    """PCT (random thread priorities, highest enabled runs) whose single priority change point is
    snapped to a lock release: from a random step on, the first thread that yields right after
    releasing a lock is demoted below everybody else for the rest of the run."""
    rng = random.Random(seed)
    prio = {}
    st = {'k': 0, 'start': rng.randrange(1, max(2, expected_steps)), 'done': False}

    def choose(s, enabled, me):
        st['k'] += 1
        for ts in enabled:
            if ts.tid not in prio:
                prio[ts.tid] = rng.random() + 1.0
        if not st['done'] and st['k'] >= st['start'] and me is not None and getattr(me, 'why', '') in kinds:
            st['done'] = True
            prio[me.tid] = -1.0
        return max(enabled, key=lambda ts: prio[ts.tid])
    return choose


def make_chooser(spec, seed):
    if spec[0] == 'starve':
        return starve_chooser(seed)
    if spec[0] == 'pctrel':
        return pct_release_chooser(seed, *spec[1:])
    return detsched.make_chooser(tuple(spec), seed)


class _LogDeque(collections.deque):
    """the deque inside the worker's real SingleLane; logs at the commit points (under the mutex)"""

    def __init__(self, i, log):
        super().__init__()
        self._i = i
        self._log = log

    def append(self, item):
        self._log('bapp', self._i, 'stop' if item is None else item[0])
        super().append(item)

    def popleft(self):
        z = super().popleft()
        self._log('bget', self._i, 'stop' if z is None else z[0])
        return z


class _EvView:
    def __init__(self, ev, i, log):
        self._e, self._i, self._log = ev, i, log

    def is_set(self):
        r = self._e.is_set()
        self._log('isset', self._i, int(bool(r)))
        return r

    def set(self):
        self._log('fset', self._i)
        self._e.set()

    def clear(self):
        self._e.clear()


class _LockView:
    def __init__(self, lock, i, log):
        self._l, self._i, self._log = lock, i, log

    def __enter__(self):
        self._l.acquire()
        self._log('lock', self._i)
        return self

    def __exit__(self, *a):
        self._l.release()


class _QInView:
    def __init__(self, q, i, log):
        self._q, self._i, self._log = q, i, log
        self._rlock = _LockView(q._rlock, i, log)

    def get(self, *a, **kw):
        z = self._q.get(*a, **kw)
        self._log('qget', self._i, 'stop' if z is None else z[0])
        return z

    def put(self, z):
        self._log('qputback', self._i)
        self._q.put(z)

    def empty(self):
        r = self._q.empty()
        self._log('empty', self._i, int(bool(r)))
        return r


class _QOutView:
    def __init__(self, q, i, log):
        self._q, self._i, self._log = q, i, log

    def put(self, z):
        if z is None:
            self._log('osent', self._i)
        elif isinstance(z, str):
            pass
        else:
            uid, y = z
            if isinstance(y, RemoteException):
                e = y.exc
                if isinstance(e, CallErr):
                    d = ('callerr', e.args[0])
                elif isinstance(e, PreErr):
                    d = ('preerr', e.args[0])
                elif isinstance(e, InErr):
                    d = ('inerr', e.args[0])
                else:
                    d = ('otherexc', repr(e)[:80])
            elif isinstance(y, tuple) and len(y) == 3 and y[0] == 'y':
                d = ('val', y[1], y[2])
            else:
                d = ('garbage', repr(y)[:80])
            self._log('oput', self._i, uid, *d)
        self._q.put(z)


def run_case(case):
    if case.get('mode') == 'server':
        return run_server_case(case)
    ev = []
    k, b, wait, nst = case['k'], case['b'], case['wait'], case['nst']
    fail = set(case['fail'])
    service = case['service']
    st = {'cid': 0, 'badtime': None}

    def log(name, *args):
        t = detsched.now() / U
        ti = int(round(t))
        if abs(t - ti) > 1e-6 and st['badtime'] is None:
            st['badtime'] = (name, t)
        ev.append((ti, name) + args)

    class W(Worker):
        def __init__(self, **kw):
            super().__init__(**kw)
            self.num_stream_threads = nst
            if case['pre'] and case.get('pre_form') == 'attr':
                # the other documented form of the hook: an instance attribute holding a free-standing function,
                # set after `super().__init__()`
                self.preprocess = _pre_function

        # the two attributes `_start_batch` creates are wrapped at assignment
        @property
        def _batch_buffer(self):
            return self.__dict__['_bb']

        @_batch_buffer.setter
        def _batch_buffer(self, lane):
            lane._queue = _LogDeque(self.worker_index, log)
            orig_get = lane.get

            def get(*a, **kw):
                try:
                    return orig_get(*a, **kw)
                except Exception as e:
                    if type(e).__name__ == 'Empty':
                        log('bempty', self.worker_index)
                    raise
            lane.get = get
            self.__dict__['_bb'] = lane

        @property
        def _batch_get_called(self):
            return self.__dict__['_bgc']

        @_batch_get_called.setter
        def _batch_get_called(self, e):
            self.__dict__['_bgc'] = _EvView(e, self.worker_index, log)

        def call(self, x):
            is_list = isinstance(x, list)
            xs = x if is_list else [x]
            uids = []
            for v in xs:
                if isinstance(v, tuple) and len(v) == 2 and v[0] == ('p' if case['pre'] else 'x'):
                    uids.append(v[1])
                else:
                    uids.append('BAD:' + type(v).__name__)
            cid = st['cid']
            st['cid'] += 1
            log('call', self.worker_index, int(is_list), ','.join(str(u) for u in uids))
            for _ in range(service):
                detsched.yield_here('service')
            bad = any(u in fail for u in uids)
            log('ret', self.worker_index, cid, int(not bad))
            if bad:
                raise CallErr(cid)
            ys = [('y', u, cid) for u in uids]
            return ys if is_list else ys[0]

    def _pre_function(x):
        if x[0] == 'bad':
            raise PreErr(x[1])
        return ('p', x[1])

    if case['pre'] and case.get('pre_form') != 'attr':
        def preprocess(self, x):
            return _pre_function(x)
        W.preprocess = preprocess

    def value(uid, kind):
        if kind == 'g':
            return ('x', uid)
        if kind == 'r':
            return ('bad', uid)
        if kind == 'x':
            return _raised(InErr(uid))
        return RemoteException(_raised(InErr(uid)))

    def main():
        q_in = _SimpleThreadQueue()
        q_out = _SimpleThreadQueue()
        ths = [Thread(target=W.run, name=f'w{i}',
                      kwargs=dict(q_in=_QInView(q_in, i, log), q_out=_QOutView(q_out, i, log), worker_index=i,
                                  batch_size=b, batch_wait_time=(wait * U if b > 1 else None)))
               for i in range(k)]
        for t in ths:
            t.start()
        n = len(case['arr'])

        def feed():
            for uid, (dt, kind) in enumerate(case['arr']):
                if dt > 0:
                    detsched.v_sleep(dt * U)
                log('arr', kind.lower(), uid)
                q_in.put((uid, value(uid, kind)))
            if case['stop'] == 'mid':
                log('stop')
                q_in.put(None)

        f = Thread(target=feed, name='feeder')
        f.start()
        got = 0
        results = []
        if case['stop'] == 'end':
            while got < n:
                z = q_out.get()
                results.append(z)
                if isinstance(z, tuple):
                    got += 1
            f.join()
            log('stop')
            q_in.put(None)
        else:
            f.join()
        for t in ths:
            t.join()
        log('joined')
        while q_out.qsize():
            results.append(q_out.get())
        return results

    chooser = make_chooser(case['chooser'], case['seed'])
    v, e, s = detsched.run(main, chooser, max_steps=case.get('max_steps', 200000))
    res = dict(events=ev, steps=s.steps, switches=s.switches, monitors=[], rest=0, deadlock=None)
    mon = res['monitors']
    if st['badtime'] is not None:
        # All virtual times the scenario generates are integral multiples of the unit, and the only
        # durations the code under test may add are the configured batch_wait_time values (integral
        # too).  An event off the grid means the code waited for a time it was not told to wait.
        mon.append(dict(prop='C09', rule='off-grid-time',
                        detail=f'event {st["badtime"]} happened at a virtual time that no configured wait can produce '
                               f'(batch_size={case.get("b")}, batch_wait_time={case.get("wait")})'))
        res['skip_model'] = True
        return res
    if e is not None:
        if isinstance(e, detsched.Deadlock) or s.deadlock_info is not None:
            # (while the scheduler unwinds a deadlock, a blocked thread may surface another exception)
            res['deadlock'] = s.deadlock_info
            if res['deadlock'] == 'max_steps':
                res['infra_error'] = 'max_steps reached'
                return res
            res['rest'] = 1
        else:
            res['error'] = repr(e)
            mon.append(dict(prop='C09', rule='unexpected-exception', detail=repr(e)[:300]))
    else:
        res['rest'] = 1
    monitor(case, res, v if e is None else None)
    return res


def monitor(case, res, results):
    """the property statement evaluated directly on the recorded run"""
    mon = res['monitors']
    b, wait, k = case['b'], case['wait'], case['k']
    kinds = {uid: kd.lower() for uid, (dt, kd) in enumerate(case['arr'])}
    good = {u for u, kd in kinds.items() if kd == 'g'}
    arrived_at = {}
    tfirst = {}            # worker -> time the first element of the batch being assembled was taken
    in_batch = {}
    members = {}
    released = {}          # (worker, uids) -> (t0, t_release)
    calls = []             # (worker, uids, t)
    seen = collections.Counter()
    outs = collections.defaultdict(list)
    taken = set()
    stopped_at = None
    for e in res['events']:
        t, name = e[0], e[1]
        if name == 'arr':
            arrived_at[e[3]] = t
        elif name == 'stop':
            stopped_at = t
        elif name == 'qget' and e[3] != 'stop':
            taken.add(e[3])
        elif name == 'bget':
            i = e[2]
            if e[3] != 'stop':
                if not in_batch.get(i):
                    in_batch[i] = True
                    tfirst[i] = t
                    members[i] = []
                members[i].append(e[3])
        elif name == 'fset':
            i = e[2]
            in_batch[i] = False
            released[(i, tuple(members.get(i, [])))] = (tfirst.get(i), t)
        elif name == 'call':
            i, is_list, us = e[2], e[3], e[4]
            toks = [u for u in us.split(',') if u != '']
            uids = [int(u) if u.isdigit() else u for u in toks]
            calls.append((i, uids, t))
            if b > 0:
                if not is_list:
                    mon.append(dict(prop='C09', rule='malformed-batch', detail=f'batch_size={b} but call got a single element {uids}'))
                if not (1 <= len(uids) <= b):
                    mon.append(dict(prop='C09', rule='malformed-batch', detail=f'call got {len(uids)} elements {uids}, batch_size={b}'))
            elif is_list:
                mon.append(dict(prop='C09', rule='malformed-batch', detail=f'batch_size=0 but call got a list {uids}'))
            for u in uids:
                if not isinstance(u, int):
                    mon.append(dict(prop='C09', rule='malformed-batch', detail=f'call got a non-input element {u} in {uids}'))
                elif u not in good:
                    mon.append(dict(prop='C09', rule='malformed-batch', detail=f'call got element {u} of kind {kinds.get(u)} (rejected by preprocess / exception value)'))
                else:
                    seen[u] += 1
            if b > 1:
                t0, trel = released.get((i, tuple(uids)), (None, None))
                if t0 is None:
                    mon.append(dict(prop='C09', rule='malformed-batch', detail=f'worker {i}: call got {uids}, which is not a batch the consumer assembled'))
                elif trel > t0 + wait or (t > t0 + wait):
                    mon.append(dict(prop='C09', rule='deadline', detail=f'worker {i}: batch {uids} first element taken at {t0}, released at {trel}, handed to call at {t} > {t0}+{wait}'))
        elif name == 'oput':
            outs[e[3]].append(e[4:])
    res['ncalls'] = len(calls)
    res['batch_sizes'] = [len(c[1]) for c in calls]
    for u, c in seen.items():
        if c > 1:
            mon.append(dict(prop='C09', rule='partition', detail=f'request {u} appears in {c} batches'))
    cid_of = {}
    for cid, (i, uids, t) in enumerate(calls):
        for u in uids:
            cid_of.setdefault(u, cid)
    # requests that arrived before the end marker must all be served once the system is at rest
    if res.get('rest'):
        for u in sorted(kinds):
            before_stop = True   # generated patterns never put a request after the end marker
            if not before_stop:
                continue
            if u in good and seen[u] == 0:
                lone = 'deadlock: ' + str(res['deadlock']) if res.get('deadlock') else 'run ended'
                mon.append(dict(prop='C09', rule='unserved', detail=f'accepted request {u} (arrived at {arrived_at.get(u)}) never reached call; {lone}'))
                break
        for u in sorted(kinds):
            o = outs.get(u, [])
            if res.get('deadlock'):
                break               # reported as unserved / hang below
            if len(o) != 1:
                mon.append(dict(prop='C09', rule='output-count', detail=f'request {u} ({kinds[u]}) has {len(o)} outputs {o}'))
                break
        if res.get('deadlock') and not any(m['rule'] == 'unserved' for m in mon):
            mon.append(dict(prop='C09', rule='hang', detail=f'threads blocked forever: {res["deadlock"]}'))
    fail = set(case['fail'])
    for u, o in outs.items():
        for d in o:
            kd = kinds.get(u)
            if kd == 'g':
                cid = cid_of.get(u)
                if cid is None:
                    mon.append(dict(prop='C09', rule='pairing', detail=f'output {d} for request {u} that never reached call'))
                    continue
                bad = any(x in fail for x in calls[cid][1])
                exp = ('callerr', cid) if bad else ('val', u, cid)
                if tuple(d) != exp:
                    mon.append(dict(prop='C09', rule='pairing', detail=f'request {u} (call {cid}, members {calls[cid][1]}) got {d}, expected {exp}'))
            else:
                exp = ('preerr', u) if kd == 'r' else ('inerr', u)
                if tuple(d) != exp:
                    mon.append(dict(prop='C09', rule='pairing', detail=f'short-circuited request {u} ({kd}) got {d}, expected {exp}'))


def gen_server_case(rng: random.Random, tier: str):
    """the same worker behind the public API: Server(ThreadServlet(W, num_threads=k, batch_size=b, ...))"""
    case = gen_case(rng, tier, rng.choice(['', '', 'lone', 'boundary']))
    case['mode'] = 'server'
    case['arr'] = [[dt, 'g' if kd in ('x', 'X') else kd] for dt, kd in case['arr']][:16]   # callers send regular inputs
    case['fail'] = [u for u in case['fail'] if u < len(case['arr'])]
    case['chooser'] = list(rng.choice([('random', 0.0), ('sticky', 0.2, 0.0), ('sticky', 0.05, 0.0),
                                       ('pct', 2, 600, 0.0), ('pct', 3, 600, 0.0)]))
    return case


def run_server_case(case):
    """monitors only (no model replay): every caller gets its own outcome, batches are well-formed and
    partition the accepted requests, nobody waits for a full batch"""
    from mpservice.mpserver import Server, ThreadServlet
    ev = []
    k, b, wait, nst = case['k'], case['b'], case['wait'], case['nst']
    fail = set(case['fail'])
    st = {'cid': 0}
    outcomes = {}

    def log(name, *args):
        ev.append((int(round(detsched.now() / U)), name) + args)

    class W(Worker):
        def __init__(self, **kw):
            super().__init__(**kw)
            self.num_stream_threads = nst
            if case['pre'] and case.get('pre_form') == 'attr':
                # the other documented form of the hook: an instance attribute holding a free-standing function,
                # set after `super().__init__()`
                self.preprocess = _pre_function

        def call(self, x):
            is_list = isinstance(x, list)
            xs = x if is_list else [x]
            uids = [v[1] if isinstance(v, tuple) and len(v) == 2 and v[0] == ('p' if case['pre'] else 'x')
                    else 'BAD:' + type(v).__name__ for v in xs]
            cid = st['cid']
            st['cid'] += 1
            log('call', self.worker_index, int(is_list), ','.join(str(u) for u in uids))
            for _ in range(case['service']):
                detsched.yield_here('service')
            if any(u in fail for u in uids):
                raise CallErr(cid)
            ys = [('y', u, cid) for u in uids]
            return ys if is_list else ys[0]

    def _pre_function(x):
        if x[0] == 'bad':
            raise PreErr(x[1])
        return ('p', x[1])

    if case['pre'] and case.get('pre_form') != 'attr':
        def preprocess(self, x):
            return _pre_function(x)
        W.preprocess = preprocess

    def main():
        kw = dict(num_threads=k, batch_size=b)
        if b > 1:
            kw['batch_wait_time'] = wait * U
        with Server(ThreadServlet(W, **kw), capacity=64) as srv:
            def caller(uid, t, kind):
                if t > 0:
                    detsched.v_sleep(t * U)
                log('arr', kind, uid)
                try:
                    y = srv.call(('x', uid) if kind == 'g' else ('bad', uid), timeout=1e6)
                    outcomes[uid] = ('val', y[1], y[2]) if isinstance(y, tuple) and len(y) == 3 and y[0] == 'y' else ('garbage', repr(y)[:60])
                except CallErr as e:
                    outcomes[uid] = ('callerr', e.args[0])
                except PreErr as e:
                    outcomes[uid] = ('preerr', e.args[0])
                except BaseException as e:  # noqa
                    outcomes[uid] = ('other', type(e).__name__)
                log('outcome', uid)
            ths = []
            t = 0
            for uid, (dt, kind) in enumerate(case['arr']):
                t += dt
                ths.append(Thread(target=caller, args=(uid, t, kind.lower()), name=f'c{uid}'))
            for th in ths:
                th.start()
            for th in ths:
                th.join()
            log('allback')
        return True

    chooser = make_chooser(case['chooser'], case['seed'])
    v, e, s = detsched.run(main, chooser, max_steps=case.get('max_steps', 400000))
    res = dict(events=ev, steps=s.steps, switches=s.switches, monitors=[], rest=0, deadlock=None)
    mon = res['monitors']
    allback = any(x[1] == 'allback' for x in ev)
    if e is not None and not allback:
        if s.deadlock_info == 'max_steps':
            res['infra_error'] = 'max_steps reached'
            return res
        if s.deadlock_info is not None:
            res['deadlock'] = s.deadlock_info
        else:
            mon.append(dict(prop='C09', rule='unexpected-exception', detail=repr(e)[:300]))
    # (a problem after all callers are back belongs to the server's exit path: C11, not reported here)
    kinds = {uid: kd.lower() for uid, (dt, kd) in enumerate(case['arr'])}
    good = {u for u, kd in kinds.items() if kd == 'g'}
    seen = collections.Counter()
    calls = []
    for x in ev:
        if x[1] != 'call':
            continue
        i, is_list, us = x[2], x[3], x[4]
        uids = [int(u) if u.isdigit() else u for u in us.split(',') if u != '']
        calls.append(uids)
        if b > 0 and (not is_list or not (1 <= len(uids) <= b)):
            mon.append(dict(prop='C09', rule='malformed-batch', detail=f'server: call got {uids} (list={is_list}), batch_size={b}'))
        if b == 0 and is_list:
            mon.append(dict(prop='C09', rule='malformed-batch', detail=f'server: batch_size=0 but call got a list {uids}'))
        for u in uids:
            if u not in good:
                mon.append(dict(prop='C09', rule='malformed-batch', detail=f'server: call got {u} ({kinds.get(u)}) in {uids}'))
            else:
                seen[u] += 1
    res['ncalls'] = len(calls)
    res['batch_sizes'] = [len(c) for c in calls]
    cid_of = {u: cid for cid, us in enumerate(calls) for u in us}
    for u in sorted(kinds):
        if seen[u] > 1:
            mon.append(dict(prop='C09', rule='partition', detail=f'server: request {u} appears in {seen[u]} batches'))
        if u not in outcomes:
            if res['deadlock']:
                mon.append(dict(prop='C09', rule='unserved', detail=f'server: request {u} never answered; deadlock: {res["deadlock"]}'))
                break
            continue
        if kinds[u] == 'g':
            cid = cid_of.get(u)
            exp = None if cid is None else (('callerr', cid) if any(x in fail for x in calls[cid]) else ('val', u, cid))
        else:
            exp = ('preerr', u)
        if outcomes[u] != exp:
            mon.append(dict(prop='C09', rule='pairing', detail=f'server: request {u} ({kinds[u]}) got {outcomes[u]}, expected {exp}'))
    return res


def model_lines(cid, case, res):
    """event trace -> lines for `drv batch` (one model action per line; see Drv/Batch.lean)"""
    if res.get('skip_model'):
        return []
    b = case['b']
    lines = [f'case {cid} k={case["k"]} b={b} wait={case["wait"]} pool={int(case["nst"] > 0)}']
    in_batch = {}
    putback = {}
    asm = collections.defaultdict(list)       # worker -> uids of the batch being assembled
    pend = collections.defaultdict(list)      # worker -> released batches not yet emitted, release order: [uids, n, outputs seen]
    kinds = {uid: kd.lower() for uid, (dt, kd) in enumerate(case['arr'])}
    ncalls = 0
    for e in res['events']:
        t, name = e[0], e[1]
        a = e[2:]
        if name == 'arr':
            kd = {'g': 'g', 'r': 'r', 'x': 'x'}[a[0]]
            lines.append(f'e {t} arr {kd} {a[1]}')
        elif name == 'stop':
            lines.append(f'e {t} stop')
        elif name == 'lock':
            lines.append(f'e {t} lock {a[0]}')
        elif name == 'qget':
            lines.append(f'e {t} qget {a[0]} {a[1]}')
            if b <= 1 and kinds.get(a[1]) == 'g':
                pend[a[0]].append([str(a[1]), 1, 0])
        elif name == 'empty':
            lines.append(f'e {t} empty {a[0]}')
        elif name == 'isset':
            lines.append(f'e {t} isset {a[0]} {a[1]}')
        elif name == 'bapp':
            i = a[0]
            if a[1] == 'stop':
                if putback.get(i):
                    putback[i] = False          # the consumer putting the end marker back (part of gNext)
                else:
                    lines.append(f'e {t} cput {i} stop')
            else:
                lines.append(f'e {t} cput {i} buf {a[1]}')
        elif name == 'bget':
            i = a[0]
            if a[1] == 'stop':
                if in_batch.get(i):
                    putback[i] = True
                    in_batch[i] = False
            else:
                in_batch[i] = True
                asm[i].append(a[1])
            lines.append(f'e {t} bget {i} {a[1]}')
        elif name == 'bempty':
            lines.append(f'e {t} bempty {a[0]}')
        elif name == 'fset':
            in_batch[a[0]] = False
            pend[a[0]].append([','.join(str(u) for u in asm[a[0]]), len(asm[a[0]]), 0])
            asm[a[0]] = []
            lines.append(f'e {t} fset {a[0]}')
        elif name == 'call':
            ncalls += 1
            lines.append(f'e {t} call {a[0]} {a[1]} {a[2]}')
        elif name == 'ret':
            lines.append(f'e {t} ret {a[0]} {a[1]} {a[2]}')
        elif name == 'oput':
            i, uid, kind = a[0], a[1], a[2]
            if kind in ('preerr', 'inerr'):
                if b > 1:
                    lines.append(f'e {t} cput {i} short {uid}')
                # batch_size <= 1: the short-circuit is part of the model's sGet
            elif kind in ('val', 'callerr'):
                if not pend[i]:
                    lines.append(f'e {t} emit {i} 0 unexpected-output-for-{uid}')
                    continue
                head = pend[i][0]
                head[2] += 1
                head.append(uid)                 # the uids in the order they were actually written
                if head[2] == head[1]:
                    pend[i].pop(0)
                    lines.append(f'e {t} emit {i} {int(kind == "val")} {",".join(str(u) for u in head[3:])}')
            else:
                lines.append(f'e {t} emit {i} 0 garbage-output-for-{uid}')
        # qputback / osent / joined: not model actions (folded into cPut / gFirst / sGet)
    lines.append(f'end {cid} rest={res.get("rest", 0)} calls={ncalls}')
    return lines
