"""
Scenario (E4, sampled): the batching worker in real worker *processes* —
`Server(ProcessServlet(W, cpus=k, batch_size=b, batch_wait_time=w))` with concurrent caller threads.
The OS schedules; nothing is replayed through the model.  Every result carries the batch it was
computed in, so the parent can evaluate well-formedness, partition and uid/result pairing of C09 on
the run; a request that is not answered within `ANSWER_CAP` seconds is reported as unserved.
Each case runs in a fresh interpreter in its own session; the whole process group is killed afterwards.

This file is the scenario module (parent side, no scheduler) *and* the child program
(`python scen_batch_proc.py <result file>`, case as JSON in the environment variable C09_CASE).
"""
import json
import os
import random
import signal
import subprocess
import sys
import time

ANSWER_CAP = 60.0        # a lone request with batch_wait_time of a few ms must be answered long before this
CASE_CAP = 150.0         # whole case (interpreter start, worker processes, all callers, server exit)
TICK = 0.004             # seconds per arrival-gap unit


def gen_case(rng: random.Random, tier: str, bias: str = ''):
    k = rng.choice([1, 2, 2])
    b = rng.choice([0, 1, 2, 3, 4])
    wait = rng.choice([0, 1, 3, 8]) if b > 1 else 0
    n = rng.choice([3, 6, 10, 16] if tier == 'quick' else [3, 6, 10, 16, 40])
    pre = rng.random() < 0.6
    arr = []
    for _ in range(n):
        kind = 'g' if (rng.random() < 0.85 or not pre) else 'r'
        arr.append([rng.choice([0, 0, 0, 0, 0, 1, 2, wait + 2]), kind])
    # a lone request at the end, long after everything else: must not wait for a batch to fill
    arr.append([25 + 2 * wait, 'g'])
    fail = sorted(rng.sample(range(n), k=rng.choice([0, 0, 1, 2]))) if n >= 2 else []
    return dict(mode='process', k=k, b=b, wait=wait, pre=pre, arr=arr, fail=fail, seed=rng.randrange(1 << 30),
                chooser=['os'])


def nontrivial(case, res):
    return len(case['arr']) >= 2 and res.get('ncalls', 0) >= 1


def model_lines(cid, case, res):      # not replayed
    return []


def run_case(case):
    """parent side: run the child in its own session, kill its process group afterwards"""
    env = dict(os.environ)
    repo = os.environ.get('VERIF_REPO', '/repo')
    env['PYTHONPATH'] = os.pathsep.join([os.path.join(repo, 'src'), os.path.dirname(os.path.abspath(__file__))])
    t0 = time.time()
    import tempfile
    fd, path = tempfile.mkstemp(prefix='c09proc_', suffix='.json')
    os.close(fd)
    # no pipes to the child: the worker processes it spawns would keep them open after it has exited
    p = subprocess.Popen([sys.executable, os.path.abspath(__file__), path], stdin=subprocess.DEVNULL,
                         stdout=subprocess.DEVNULL, stderr=subprocess.DEVNULL, env=dict(env, C09_CASE=json.dumps(case)),
                         start_new_session=True)
    try:
        p.wait(CASE_CAP)
        timed_out = False
    except subprocess.TimeoutExpired:
        timed_out = True
    finally:
        try:
            os.killpg(p.pid, signal.SIGKILL)
        except Exception:
            pass
        try:
            p.wait(5)
        except Exception:
            pass
    wall = time.time() - t0
    try:
        out = open(path).read()
    finally:
        try:
            os.unlink(path)
        except Exception:
            pass
    if timed_out:
        # the harness' own cap: not a verdict (the answers themselves are capped by ANSWER_CAP inside the child)
        return dict(infra_error=f'process case did not finish within {CASE_CAP}s', monitors=[], events=[])
    last = [l for l in out.splitlines() if l.startswith('RESULT ')]
    if not last:
        return dict(infra_error=f'process case produced no result (exit {p.returncode})', monitors=[], events=[])
    child = json.loads(last[-1][7:])
    res = dict(events=child['batches'], monitors=[], wall=round(wall, 2), switches=1, ncalls=len(child['batches']),
               batch_sizes=[len(bt[1]) for bt in child['batches']])
    monitor(case, child, res['monitors'])
    return res


def monitor(case, child, mon):
    b = case['b']
    kinds = {u: kd for u, (dt, kd) in enumerate(case['arr'])}
    good = {u for u, kd in kinds.items() if kd == 'g'}
    fail = set(case['fail'])
    outcomes = {int(u): v for u, v in child['outcomes'].items()}
    batches = {}                      # tag -> uids, as reported by the members' results
    member_of = {}
    for u, o in sorted(outcomes.items()):
        if o[0] in ('val', 'callerr'):
            tag, uids, is_list = tuple(o[1]), list(o[2]), o[3]
            if tag in batches and batches[tag] != uids:
                mon.append(dict(prop='C09', rule='partition', detail=f'process: call {tag} reported with two different batches {batches[tag]} / {uids}'))
            batches[tag] = uids
            if u not in uids:
                mon.append(dict(prop='C09', rule='pairing', detail=f'process: request {u} answered from call {tag} whose batch {uids} does not contain it'))
            if u in member_of and member_of[u] != tag:
                mon.append(dict(prop='C09', rule='partition', detail=f'process: request {u} in two calls'))
            member_of[u] = tag
            if b > 0 and (not is_list or not (1 <= len(uids) <= b)):
                mon.append(dict(prop='C09', rule='malformed-batch', detail=f'process: call got {uids} (list={is_list}), batch_size={b}'))
            if b == 0 and (is_list or len(uids) != 1):
                mon.append(dict(prop='C09', rule='malformed-batch', detail=f'process: batch_size=0 but call got {uids} (list={is_list})'))
            for x in uids:
                if x not in good:
                    mon.append(dict(prop='C09', rule='malformed-batch', detail=f'process: call got {x} ({kinds.get(x)}) in {uids}'))
    for tag, uids in batches.items():
        for x in uids:
            if isinstance(x, int) and x in outcomes and outcomes[x][0] in ('val', 'callerr') and tuple(outcomes[x][1]) != tag:
                mon.append(dict(prop='C09', rule='partition', detail=f'process: request {x} is in batch {uids} of call {tag} but was answered from call {outcomes[x][1]}'))
    for u in sorted(kinds):
        o = outcomes.get(u)
        if o is None or o[0] == 'timeout':
            mon.append(dict(prop='C09', rule='unserved', detail=f'process: request {u} ({kinds[u]}) not answered within {ANSWER_CAP}s (k={case["k"]}, b={b}, wait={case["wait"]} ms-units)'))
            continue
        if kinds[u] == 'g':
            if o[0] not in ('val', 'callerr'):
                mon.append(dict(prop='C09', rule='pairing', detail=f'process: regular request {u} got {o}'))
                continue
            bad = any(x in fail for x in o[2])
            if (o[0] == 'callerr') != bad or (o[0] == 'val' and o[4] != u):
                mon.append(dict(prop='C09', rule='pairing', detail=f'process: request {u} in batch {o[2]} (planned failures {sorted(fail)}) got {o[0]} {o[4] if len(o) > 4 else ""}'))
        else:
            if o != ['preerr', u]:
                mon.append(dict(prop='C09', rule='pairing', detail=f'process: rejected request {u} got {o}, expected preerr'))


# ----------------------------------------------------------------------------------------------
# child side
# ----------------------------------------------------------------------------------------------

class PreErr(Exception):
    pass


class CallErr(Exception):
    pass


def _child_main():
    import threading
    from mpservice.mpserver import ProcessServlet, Server, Worker

    case = json.loads(os.environ['C09_CASE'])

    outcomes = {}
    k, b, wait = case['k'], case['b'], case['wait']
    kw = dict(cpus=k, batch_size=b, failset=case['fail'])
    if b > 1:
        kw['batch_wait_time'] = wait * 0.001
    cls = _PWP if case['pre'] else _PW
    with Server(ProcessServlet(cls, **kw), capacity=256) as srv:
        def caller(uid, t, kind):
            time.sleep(t)
            try:
                y = srv.call(('x', uid) if kind == 'g' else ('bad', uid), timeout=ANSWER_CAP)
                outcomes[uid] = ['val', y[2], y[3], y[4], y[1]] if isinstance(y, tuple) and len(y) == 5 and y[0] == 'y' \
                    else ['garbage', repr(y)[:80]]
            except CallErr as e:
                outcomes[uid] = ['callerr', e.args[0], e.args[1], e.args[2], None]
            except PreErr as e:
                outcomes[uid] = ['preerr', e.args[0]]
            except BaseException as e:  # noqa
                outcomes[uid] = ['timeout' if type(e).__name__ == 'TimeoutError' else 'other', type(e).__name__, repr(e)[:80]]
        ths = []
        t = 0.0
        for uid, (dt, kind) in enumerate(case['arr']):
            t += dt * TICK
            ths.append(threading.Thread(target=caller, args=(uid, t, kind)))
        for th in ths:
            th.start()
        for th in ths:
            th.join()
        batches = sorted({(tuple(o[1]), tuple(o[2])) for o in outcomes.values() if o[0] in ('val', 'callerr')})
        # report before leaving the server: its exit path is not this property's subject
        with open(sys.argv[1], 'w') as f:
            f.write('RESULT ' + json.dumps(dict(outcomes=outcomes, batches=batches)) + '\n')
        os._exit(0)


try:
    from mpservice.mpserver import Worker as _Worker
except Exception:  # parent side without PYTHONPATH: the classes are only needed in the child
    _Worker = object


class _PW(_Worker):
    def __init__(self, failset=(), **kw):
        super().__init__(**kw)
        self._failset = set(failset)
        self._n = 0

    def call(self, x):
        is_list = isinstance(x, list)
        xs = x if is_list else [x]
        want = 'p' if hasattr(self, 'preprocess') else 'x'
        uids = [v[1] if isinstance(v, tuple) and len(v) == 2 and v[0] == want else 'BAD:' + type(v).__name__ for v in xs]
        tag = [os.getpid(), self.worker_index, self._n]
        self._n += 1
        if any(u in self._failset for u in uids):
            raise CallErr(tag, uids, is_list)
        ys = [('y', u, tag, uids, is_list) for u in uids]
        return ys if is_list else ys[0]


class _PWP(_PW):
    def preprocess(self, x):
        if x[0] == 'bad':
            raise PreErr(x[1])
        return ('p', x[1])


if __name__ == '__main__':
    _child_main()
