"""
Scenario: `Stream.buffer(n)` / `AsyncBuffer` / `SyncIter` under the deterministic scheduler.
Serves C05 (early stop / failing source: no hang, no leak) and C08 (look-ahead <= n + 2).
Must be imported only after `detsched.install()` in workers.
"""
import asyncio
import gc
import random

import detsched

from mpservice._common import StopRequested
from mpservice.streamer import Stream
from mpservice.streamer._streamer_async import AsyncBuffer, AsyncStream, SyncIter

MODEL = 'buffer'
BASE = 100


class _Interrupt(BaseException):
    pass


import excflavours


class SrcError(Exception):
    pass


def _ident(x):
    return x


def gen_case(rng: random.Random, tier: str, bias: str = ''):
    big = tier == 'thorough'
    kind = rng.choice(['buffer', 'buffer', 'buffer', 'asyncbuffer', 'synciter', 'buffer', 'asyncbuffer', 'synciter',
                       'synciter+abuffer', 'synciter+aparmap', 'aparmap+abuffer', 'abuffer+abuffer'])
    maxsize = 2 if kind == 'synciter' else rng.choice([1, 1, 2, 2, 3, 4] if not big else [1, 2, 3, 5, 8])
    n = rng.choice([0, 1, 2, 3, 5, 8, 12] if not big else [0, 1, 2, 5, 9, 16, 30])
    if bias == 'lookahead':
        n = max(n, maxsize + 5)
    src = rng.choice(['clean'] * 4 + ['exc', 'exc', 'stopreq'])
    stop_after = None
    if n > 0 and rng.random() < (0.65 if bias == 'stop' else 0.3):
        stop_after = rng.randrange(1, n + 1)
    ch = rng.choice([('random', 0.0), ('random', 0.0), ('sticky', 0.2, 0.0), ('sticky', 0.05, 0.0),
                     ('pct', 2, 200, 0.0), ('pct', 3, 200, 0.0)])
    case = dict(kind=kind, n=n, src=src, maxsize=maxsize, stop_after=stop_after,
                stop_mode=rng.choice(['close', 'close', 'del', 'throw']), chooser=list(ch), seed=rng.randrange(1 << 30))
    case['exc_flavour'] = excflavours.of_seed(case['seed'])
    if kind not in ('asyncbuffer', 'aparmap+abuffer', 'abuffer+abuffer') and case['seed'] % 11 == 0:
        case['stop_after'] = 0       # the iterator is never advanced
    return case


def nontrivial(case, res):
    return case['n'] >= 2 and res.get('switches', 0) >= 1


def expected(case):
    out = list(range(case['n']))
    end = ('end',) if case['src'] == 'clean' else ('raise', case['src'])
    if case['stop_after'] is not None and case['stop_after'] <= len(out):
        out = out[:case['stop_after']]
        end = ('closed',)
    return out, end


def run_case(case):
    ev = []
    log = ev.append
    n = case['n']
    st = {'i': 0}
    # the failure class of this case (see excflavours: also derived from a class the plumbing catches for itself)
    SrcErr = excflavours.flavoured(SrcError, case.get('exc_flavour'))

    def _next():
        if st['i'] < n:
            i = st['i']
            st['i'] += 1
            log(('pull', i))
            return BASE + i
        if case['src'] == 'clean':
            log(('srcEnd',))
            return None
        log(('srcRaise',))
        if case['src'] == 'exc':
            raise SrcErr('src')
        raise StopRequested()

    class Src:
        def __iter__(self):
            return self

        def __next__(self):
            v = _next()
            if v is None:
                raise StopIteration
            return v

    class ASrc:
        def __aiter__(self):
            return self

        async def __anext__(self):
            v = _next()
            if v is None:
                raise StopAsyncIteration
            return v

    def consume_sync(box, out):
        gen = box[0]
        first = True
        if case['stop_after'] == 0:
            # the iterator is obtained and given up without ever being advanced (`it = iter(s); it.close()`, an
            # unused `zip` argument, a probe): stop position 0.  Whatever obtaining it has started must be gone.
            if case['stop_mode'] in ('close', 'throw'):
                gen.close()
            box[0] = None
            gen = None
            gc.collect()
            for _ in range(30):
                detsched.yield_here('settle')    # helper threads that were told to stop get the time to do so
            return ('closed',)
        try:
            while True:
                if not first:
                    log(('next',))
                first = False
                v = next(gen)
                log(('yld', v - BASE))
                out.append(v - BASE)
                if case['stop_after'] is not None and len(out) == case['stop_after']:
                    log(('close',))
                    if case['stop_mode'] == 'close':
                        gen.close()
                    elif case['stop_mode'] == 'throw':
                        try:
                            gen.throw(_Interrupt())
                        except _Interrupt:
                            pass
                    else:
                        box[0] = None
                        gen = None
                        gc.collect()
                    log(('join',))
                    return ('closed',)
        except StopIteration:
            log(('join',))
            return ('end',)
        except SrcError:
            log(('join',))
            return ('raise', 'exc')
        except StopRequested:
            log(('join',))
            return ('raise', 'stopreq')

    async def consume_async(agen, out):
        first = True
        try:
            while True:
                if not first:
                    log(('next',))
                first = False
                v = await agen.__anext__()
                log(('yld', v - BASE))
                out.append(v - BASE)
                if case['stop_after'] is not None and len(out) == case['stop_after']:
                    log(('close',))
                    await agen.aclose()
                    log(('join',))
                    return ('closed',)
        except StopAsyncIteration:
            log(('join',))
            return ('end',)
        except SrcError:
            log(('join',))
            return ('raise', 'exc')
        except StopRequested:
            log(('join',))
            return ('raise', 'stopreq')

    def main():
        base_threads = {ts.tid for ts in detsched.SCHED.order if not ts.done}
        out = []
        if case['kind'] == 'buffer':
            box = [iter(Stream(Src()).buffer(case['maxsize']))]
            end = consume_sync(box, out)
        elif case['kind'] == 'synciter':
            box = [iter(SyncIter(ASrc()))]
            end = consume_sync(box, out)
        elif case['kind'] == 'synciter+abuffer':
            # the adapter over an async pipeline that owns a helper thread of its own (monitors only)
            box = [iter(SyncIter(AsyncStream(ASrc()).buffer(case['maxsize'])))]
            end = consume_sync(box, out)
        elif case['kind'] == 'synciter+aparmap':
            box = [iter(SyncIter(AsyncStream(ASrc()).parmap(_ident, executor='thread', concurrency=case['maxsize'])))]
            end = consume_sync(box, out)
        elif case['kind'] in ('aparmap+abuffer', 'abuffer+abuffer'):
            # a buffer downstream of a stage that owns helper threads of its own (its worker thread iterates that stage
            # on its private event loop): stopping early or a failure must wind the upstream stage down as well
            async def amain2():
                up = AsyncStream(ASrc())
                up = up.parmap(_ident, executor='thread', concurrency=case['maxsize']) if case['kind'] == 'aparmap+abuffer' \
                    else up.buffer(case['maxsize'])
                agen = up.buffer(case['maxsize']).__aiter__()
                return await consume_async(agen, out)
            end = asyncio.run(amain2())
        else:
            async def amain():
                agen = AsyncBuffer(ASrc(), case['maxsize']).__aiter__()
                return await consume_async(agen, out)
            end = asyncio.run(amain())
        log(('final',))
        leaked = [ts.name for ts in detsched.SCHED.order if not ts.done and ts.tid not in base_threads]
        return out, end, leaked

    import cooploop
    cooploop.install()
    chooser = detsched.make_chooser(tuple(case['chooser']), case['seed'])
    v, e, s = detsched.run(main, chooser, max_steps=case.get('max_steps', 40000))
    res = dict(events=ev, steps=s.steps, switches=s.switches, monitors=[])
    mon = res['monitors']
    if e is not None:
        if isinstance(e, detsched.Deadlock):
            res['deadlock'] = e.args[0] if e.args else None
            mon.append(dict(prop='C05', rule='hang', detail=f'deadlock/livelock: {res["deadlock"]}'))
        else:
            res['error'] = repr(e)
            mon.append(dict(prop='C05', rule='unexpected-exception', detail=repr(e)))
        res['out'] = None
        res['end'] = None
        return res
    out, end, leaked = v
    res['out'] = out
    res['end'] = list(end)
    exp_out, exp_end = expected(case)
    if out != exp_out:
        mon.append(dict(prop='C05', rule='output', detail=f'got {out} expected {exp_out}'))
    if tuple(end) != tuple(exp_end):
        mon.append(dict(prop='C05', rule='ending', detail=f'got {end} expected {exp_end}'))
    if leaked:
        mon.append(dict(prop='C05', rule='leak', detail=f'threads alive after the iterator ended: {leaked}'))
    pulled = recv = worst = 0
    for e2 in ev:
        if e2[0] == 'pull':
            pulled += 1
            worst = max(worst, pulled - recv)
        elif e2[0] == 'yld':
            recv += 1
    res['max_ahead'] = worst
    if '+' not in case['kind']:
        res['ahead_slack'] = ['buffer: pulled - handed, relative to maxsize (theorem: <= 2, attained)', worst - case['maxsize']]
    if '+' not in case['kind'] and worst > case['maxsize'] + 2:
        mon.append(dict(prop='C08', rule='lookahead', detail=f'{worst} > maxsize+2 = {case["maxsize"] + 2}'))
    return res


def model_lines(cid, case, res):
    if '+' in case['kind'] or case.get('stop_after') == 0:
        return []          # stacked stages: no single-buffer trace; the monitors (output, ending, hang, leak) decide
    src = 'clean' if case['src'] == 'clean' else 'exc'
    lines = [f'case {cid} n={case["n"]} maxsize={case["maxsize"]} src={src}']
    final = 0
    for e in res['events']:
        if e[0] == 'final':
            final = 1
            continue
        lines.append('e ' + ' '.join(str(x) for x in e))
    if res.get('out') is None:
        lines.append('end out=0 raised=0 close=0 final=0 partial=1')
        return lines
    end = res['end']
    lines.append(f'end out={len(res["out"])} raised={int(end[0] == "raise")} close={int(end[0] == "closed")} final={final}')
    return lines
