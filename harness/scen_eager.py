"""
Scenario: the real `EagerBatcher` fed by a producer thread through a `queue.Queue`, under the
deterministic scheduler's virtual clock (E1).  Serves C19.

One run = one JSON-able case dict -> result dict with the timed observable events, the monitors
that fired (the C19 statement evaluated directly on this run of the real code, in virtual time) and
the lines for the Lean driver `drv eager` (trace validation against `Model/EagerBatcher.lean`).

Time: the unit is U = 2**-ulog seconds; every generated time (arrival gaps, wait, consumer holds) is
an integer number of units, so every clock value the code computes is an exact dyadic float and is
reported in integer units.  In the default (`strict`) cases virtual time advances only when every
thread is blocked (no "early" timer firing): this is the zero-processing-time reading the model's
`tick` guard formalises, and the one in which "no delay" is checked.  In `lazy` cases the chooser may
fire the earliest timer although threads are runnable (an OS may delay any thread for any finite
time): there the model runs with `strict = false`, and partition and "short only after the wait has
expired on an empty queue" are checked, but of course not "no delay".

Events (all stamped with the virtual clock in units):
  ('arrive', code, t)   producer's put took effect      (hook: LogQueue._put, under the queue mutex)
  ('take', code, t)     a get of the batcher returned   (hook: LogQueue._get, under the queue mutex)
  ('emit', [codes], t)  the consumer received a batch
  ('resume', t)         the consumer asks for the next batch (after holding the previous one)
  ('stop', t)           StopIteration reached the consumer

Must be imported only after `detsched.install()`.
"""
import queue
import random
import sys
import threading
import time
import types

import detsched

from mpservice.streamer import EagerBatcher

MODEL = 'eager'

_STR = {'END': 1000, 'a': 1001, '': 1002, 'None': 1003}


class RealClockRead(BaseException):
    """a managed thread read a clock that is not the scheduler's virtual clock"""


# ----------------------------------------------------------------------------------------------
# values
# ----------------------------------------------------------------------------------------------

class EqNone:
    """a "null object": an ordinary item that compares equal to None"""
    def __eq__(self, o):
        return o is None or isinstance(o, EqNone)

    def __hash__(self):
        return 0

    def __repr__(self):
        return 'EqNone()'


class _Ambiguous:
    def __bool__(self):
        raise ValueError('the truth value of an element-wise comparison is ambiguous')


class Vec:
    """array-like item: `==` is element-wise and its result has no truth value (as for numpy arrays)"""
    def __eq__(self, o):
        return _Ambiguous()

    __hash__ = None

    def __repr__(self):
        return 'Vec()'


def mat(v):
    """case value -> the object that is put: ['@', kind] stands for an item with an overloaded `==`"""
    if isinstance(v, list) and len(v) == 2 and v[0] == '@':
        return EqNone() if v[1] == 'eqnone' else Vec()
    return v


def enc(v):
    """Python value -> model item: 'N' for None, otherwise a natural number per `==` class
    (5 == 5.0, True == 1; strings get codes >= 1000)."""
    if v is None:
        return 'N'
    if isinstance(v, EqNone):
        return 2001
    if isinstance(v, Vec):
        return 2002
    if isinstance(v, str):
        return _STR[v]
    return int(v)


def is_end(v, end):
    """what the property calls "the end marker": `is None` by default, `==` for a custom marker"""
    if isinstance(v, list):
        return False          # ['@', kind]: an item object (generated under the default marker only)
    return (v is None) if end is None else (v == end)


# ----------------------------------------------------------------------------------------------
# case generation
# ----------------------------------------------------------------------------------------------

def gen_case(rng: random.Random, tier: str, bias: str = ''):
    """bias: '' (general) | 'ties' (arrivals at the very instant of deadlines/resumes) |
    'boundary' (bs 1, wait 0, empty input, marker first, bursts) | 'marker' (custom end markers)."""
    big = tier == 'thorough'
    if not bias:
        bias = rng.choice(['', '', 'ties', 'ties', 'boundary', 'marker'])
    bs = rng.choice([1, 2, 2, 3, 3, 4, 5] if not big else [1, 2, 3, 4, 5, 8, 13])
    wait = rng.choice([0, 1, 2, 3, 4, 6, 8])
    n = rng.choice([0, 1, 2, 3, 5, 8, 12] if not big else [0, 1, 2, 5, 9, 16, 30, 50])
    if bias == 'boundary':
        bs = rng.choice([1, 1, 2, bs])
        wait = rng.choice([0, 0, 1, wait])
        n = rng.choice([0, 1, 2, bs, bs + 1, 2 * bs, n])
    # end marker
    end = None
    if bias == 'marker' or rng.random() < 0.25:
        end = rng.choice([0, 7, 7, 'END', 'END', 7.0, True, ''])
    # item values
    def item():
        r = rng.random()
        if end is not None and r < 0.12:
            return None                      # None is an ordinary item under a custom marker
        if end is None and r < 0.1:
            # under the default marker the end is recognised by identity: items whose `==` is overloaded
            # (equal to None; element-wise without a truth value) are ordinary items
            return ['@', rng.choice(['eqnone', 'vec'])]
        if r < 0.2:
            return rng.choice(['a', 'None', 3.0, 12.0, False])
        return rng.randrange(1, 20)
    gaps_general = [0, 0, 1, 1, 2, 3, 5, 8, wait + 3]
    gaps_ties = [0, wait, wait, wait, wait + 1, max(wait - 1, 0), 2 * wait, 1, 2]
    gaps = gaps_ties if bias == 'ties' else gaps_general
    if bias == 'boundary':
        gaps = [0, 0, 0, 1, wait, wait + 1]
    t = rng.choice([0, 0, 1, 3])
    arrivals = []
    for _ in range(n):
        v = item()
        while is_end(v, end):
            v = rng.randrange(1, 20) + (1 if end == 7 else 0) * 20
        arrivals.append([t, v])
        t += rng.choice(gaps)
    # the end marker: usually sent, at a generated time; sometimes an `==`-equal variant of it;
    # sometimes followed by more puts (never consumed); rarely never sent (batcher keeps waiting)
    send_end = rng.random() < 0.93
    if send_end:
        ev = end
        if end == 7 and rng.random() < 0.3:
            ev = 7.0
        elif end is True and rng.random() < 0.5:
            ev = 1
        elif end == 0 and rng.random() < 0.5:
            ev = False
        arrivals.append([t, ev])
        for _ in range(rng.choice([0, 0, 0, 1, 2])):
            t += rng.choice(gaps)
            arrivals.append([t, rng.choice([5, None if end is None else 6, end])])
    # the marker somewhere in the middle (everything after it must be ignored)
    if n >= 2 and rng.random() < 0.08:
        k = rng.randrange(len(arrivals))
        arrivals[k][1] = end
    # consumer holds (units) after each batch
    if rng.random() < 0.5:
        holds = []
    else:
        hs = [0, 0, 1, 2, wait, wait + 1, 5] if bias != 'ties' else [0, wait, wait, 2 * wait, 1]
        holds = [rng.choice(hs) for _ in range(n + 1)]
    wait_arg = wait
    if rng.random() < 0.06:
        wait_arg = None                      # constructor default: 60 s if batch_size > 1 else 0
    ulog = rng.choice([3, 3, 6, 10]) if wait_arg is not None else 0
    lazy = rng.random() < 0.25
    ep = rng.choice([0.03, 0.1, 0.3]) if lazy else 0.0
    ch = rng.choice([('random', ep), ('random', ep), ('sticky', 0.2, ep), ('sticky', 0.05, ep),
                     ('pct', 2, 200, ep), ('pct', 3, 200, ep)])
    case = dict(bs=bs, wait=wait_arg, ulog=ulog, end=end, arrivals=arrivals, holds=holds, lazy=lazy,
                bias=bias, chooser=list(ch), seed=rng.randrange(1 << 30))
    # one EagerBatcher object used for up to three rounds (a run of items closed by its own end marker each), when
    # the generated arrivals end with their only end marker
    ends = [k for k, (_t, v) in enumerate(arrivals) if is_end(mat(v), end)]
    case['rounds'] = 1 + case['seed'] % 3 if ends == [len(arrivals) - 1] else 1
    return case


def eff_wait(case):
    """batch_wait_time in units as the constructor resolves it"""
    if case['wait'] is None:
        return (60 if case['bs'] > 1 else 0) * (1 << case['ulog'])
    return case['wait']


def nontrivial(case, res):
    items = 0
    for _t, v in case['arrivals']:
        if is_end(v, case['end']):
            break
        items += 1
    return items >= 2 and res.get('switches', 0) >= 1 and any(e[0] == 'emit' for e in res.get('events', []))


# ----------------------------------------------------------------------------------------------
# clock hygiene: every clock the code can read must be the virtual one
# ----------------------------------------------------------------------------------------------

_CLOCK_NAMES = ('monotonic', 'perf_counter', 'time', 'sleep', 'monotonic_ns', 'perf_counter_ns', 'time_ns',
                'process_time', 'process_time_ns', 'thread_time', 'thread_time_ns', 'clock_gettime',
                'clock_gettime_ns')
_NOT_VIRTUAL = ('monotonic_ns', 'perf_counter_ns', 'time_ns', 'process_time', 'process_time_ns', 'thread_time',
                'thread_time_ns', 'clock_gettime', 'clock_gettime_ns')
_TRAPS_INSTALLED = False
VCLOCK_READS = [0]


def _is_real_clock(v):
    return (isinstance(v, types.BuiltinFunctionType) and getattr(v, '__self__', None) is time
            and v.__name__ in _CLOCK_NAMES)


def stale_clock_bindings():
    """names in the modules the scenario runs through that are still bound to a real clock function"""
    bad = []
    for mname, mod in list(sys.modules.items()):
        if mod is None or mod is time:
            continue
        if not (mname in ('queue', 'threading', 'heapq', 'collections') or mname.startswith('mpservice')):
            continue
        for k, v in list(vars(mod).items()):
            if _is_real_clock(v):
                bad.append(f'{mname}.{k} -> time.{v.__name__}')
    for k in ('monotonic', 'perf_counter', 'time', 'sleep'):
        if _is_real_clock(getattr(time, k)):
            bad.append(f'time.{k} is the real clock')
    return bad


def install_traps():
    """Replace the clock functions detsched does not virtualise by traps that fail the run when a
    managed thread calls them, and count the reads of the virtual clock."""
    global _TRAPS_INSTALLED
    if _TRAPS_INSTALLED:
        return
    _TRAPS_INSTALLED = True
    for name in _NOT_VIRTUAL:
        real = getattr(time, name, None)
        if real is None:
            continue

        def trap(*a, _real=real, _name=name, **kw):
            if detsched.SCHED.me() is not None:
                raise RealClockRead(f'time.{_name} read by a managed thread')
            return _real(*a, **kw)
        setattr(time, name, trap)
    vnow = detsched.v_now

    def counted_now():
        VCLOCK_READS[0] += 1
        return vnow()
    for mod, name in ((time, 'perf_counter'), (time, 'monotonic'), (time, 'time'), (queue, 'time'),
                      (threading, '_time')):
        if getattr(mod, name) is vnow:
            setattr(mod, name, counted_now)


# ----------------------------------------------------------------------------------------------
# one run
# ----------------------------------------------------------------------------------------------

def run_case(case):
    install_traps()
    if case.get('kind') == 'clocktest':
        return _clock_selftest(case)
    return _run(case)


def _run(case):
    case = dict(case, arrivals=[[t, mat(v)] for t, v in case['arrivals']])
    U = 2.0 ** -case['ulog']
    ev = []
    end = case['end']
    bs = case['bs']
    bad_clock = []

    def clock():
        x = detsched.now() / U
        if x != int(x):
            bad_clock.append(x)
            return x
        return int(x)

    logging_on = [True]

    class LogQueue(queue.Queue):
        def _put(self, item):
            if logging_on[0]:
                ev.append(('arrive', enc(item), clock()))
            super()._put(item)

        def _get(self):
            item = super()._get()
            if logging_on[0]:
                ev.append(('take', enc(item), clock()))
            return item

    received = []
    round2 = []

    def main():
        q = LogQueue()

        def prod():
            t = 0
            for ta, v in case['arrivals']:
                if ta > t:
                    time.sleep((ta - t) * U)
                    t = ta
                q.put(v)

        th = threading.Thread(target=prod, name='producer')
        th.start()
        kw = {}
        if case['wait'] is not None:
            kw['batch_wait_time'] = case['wait'] * U
        if end is not None or case.get('explicit_none'):
            kw['endmarker'] = end
        eb = EagerBatcher(q, batch_size=bs, **kw)
        it = iter(eb)
        holds = case['holds']
        k = 0
        while True:
            try:
                b = next(it)
            except StopIteration:
                ev.append(('stop', clock()))
                break
            received.append(list(b))
            ev.append(('emit', [enc(x) for x in b], clock()))
            h = holds[k] if k < len(holds) else 0
            k += 1
            if h > 0:
                time.sleep(h * U)
            ev.append(('resume', clock()))
        th.join()
        # Further rounds over the SAME object and queue: the producer sends another run closed by its own end
        # marker, the consumer iterates the batcher again.  Every iteration partitions "the items received before
        # the end marker" (not replayed through the model: the first round is; judged directly).
        logging_on[0] = False
        for rnd in range(case.get('rounds', 1) - 1):
            items = [1000 * (rnd + 1) + i for i in range(1 + (case['seed'] + rnd) % (2 * bs + 1))]
            for x in items:
                q.put(x)
            q.put(end)
            got = [list(b) for b in eb]
            if [x for b in got for x in b] != items or any(not (1 <= len(b) <= bs) for b in got):
                round2.append(f'round {rnd + 2} over the same EagerBatcher: sent {items} then the end marker, got batches {got}')
                break
        return True

    chooser = detsched.make_chooser(tuple(case['chooser']), case['seed'])
    reads0 = VCLOCK_READS[0]
    v, e, s = detsched.run(main, chooser, max_steps=case.get('max_steps', 100000))
    res = dict(events=ev, steps=s.steps, switches=s.switches, monitors=[], vclock_reads=VCLOCK_READS[0] - reads0,
               end_clock=detsched_units(s.now, U))
    mon = res['monitors']
    blocked = False
    if e is not None:
        if isinstance(e, RealClockRead):
            raise RuntimeError(f'clock hygiene: {e}')
        if isinstance(e, detsched.Deadlock) or s.deadlock_info is not None:
            # no thread enabled and no timer pending: the run came to rest (while the scheduler unwinds the
            # blocked threads, `with cond:` exits may turn its Abort into a RuntimeError — same situation)
            info = s.deadlock_info
            blocked = True
            res['blocked'] = str(info)
            if info == 'max_steps':
                mon.append(dict(prop='C19', rule='hang', detail='scheduler step bound exceeded (livelock)'))
        else:
            res['error'] = repr(e)
            mon.append(dict(prop='C19', rule='unexpected-exception', detail=repr(e)))
    res['blocked_flag'] = blocked
    res['received'] = [[repr(x) for x in b] for b in received]
    if bad_clock:
        mon.append(dict(prop='C19', rule='no-delay', detail=f'clock values that are not multiples of the unit: {bad_clock[:3]} '
                                                            '(the code waited for a time nobody asked for)'))
    mon += monitor(case, ev, received, blocked)
    for d in round2:
        mon.append(dict(prop='C19', rule='reiterate', detail=d))
    return res


def detsched_units(t, U):
    x = t / U
    return int(x) if x == int(x) else x


# ----------------------------------------------------------------------------------------------
# the property, evaluated directly on one run
# ----------------------------------------------------------------------------------------------

def monitor(case, ev, received, blocked):
    """C19 on the timed events of one run of the real code.  Returns the list of hits."""
    hits = []

    def hit(rule, detail):
        hits.append(dict(prop='C19', rule=rule, detail=detail))

    end, bs, wait = case['end'], case['bs'], eff_wait(case)
    lazy = bool(case.get('lazy'))      # time may pass while the batcher is runnable: no "no delay" checks
    puts = [v for _t, v in case['arrivals']]
    arr = [(e[1], e[2]) for e in ev if e[0] == 'arrive']
    # --- what was put, in order (the producer is sequential, so `arrive` events follow the script)
    n_arr = len(arr)
    put_done = puts[:n_arr]
    before_end = []
    end_sent = False
    for v in put_done:
        if is_end(v, end):
            end_sent = True
            break
        before_end.append(v)
    stopped = any(e[0] == 'stop' for e in ev)
    flat = [x for b in received for x in b]
    # --- partition: sizes, order, completeness
    for b in received:
        if not (1 <= len(b) <= bs):
            hit('partition-size', f'batch of {len(b)} items with batch_size={bs}: {b!r}')
            break
    same = len(flat) <= len(before_end) and all(x is y for x, y in zip(flat, before_end))
    if not same:
        hit('partition-content', f'batches {received!r} are not a prefix of the items put before the end marker {before_end!r}')
    elif stopped and not end_sent:
        hit('partition-content', 'the iteration ended although no end marker was put')
    elif stopped and len(flat) != len(before_end):
        hit('partition-content', f'iteration ended after {len(flat)} of {len(before_end)} items: {received!r}')
    elif not stopped and blocked and n_arr == len(puts):
        # the run came to rest (every timer expired) without StopIteration
        if end_sent:
            hit('hang', f'end marker was put but the iteration never ended (delivered {len(flat)} of {len(before_end)} items)')
        elif len(flat) != len(before_end):
            hit('hang', f'{len(before_end) - len(flat)} items were never delivered although every wait has expired')
    elif not stopped and not blocked:
        hit('hang', 'the run ended without StopIteration and without coming to rest')
    # --- timing: walk the events
    arr_time = [t for (_c, t) in arr]
    n_taken = 0            # takes so far (the k-th take returns the k-th arrival: FIFO)
    ready = 0              # since when the batcher has been able to look at the queue
    cur_t0 = None          # take time of the current batch's first item
    cur_n = 0
    last_take = None       # (is_end, time)
    delivered = 0
    n_arr_ev = 0           # arrive events so far
    arr_before_last_take = 0
    for e in ev:
        kind = e[0]
        if kind == 'arrive':
            n_arr_ev += 1
        elif kind == 'take':
            arr_before_last_take = n_arr_ev
            t = e[2]
            if n_taken >= n_arr:
                hit('partition-content', 'a get returned something that was never put')
                break
            v = put_done[n_taken]
            want = max(arr_time[n_taken], ready)
            if t != want and not (lazy and t > want):
                hit('no-delay', f'item #{n_taken} arrived at {arr_time[n_taken]}, batcher ready at {ready}, but taken at {t}')
            n_taken += 1
            ise = is_end(v, end)
            last_take = (ise, t)
            ready = t
            if not ise:
                if cur_n == 0:
                    cur_t0 = t
                cur_n += 1
        elif kind == 'emit':
            t = e[2]
            b = e[1]
            short = len(b) < bs
            if cur_n != len(b):
                hit('partition-content', f'batch of {len(b)} emitted after {cur_n} gets')
                break
            delivered += len(b)
            via_end = last_take is not None and last_take[0]
            if short and not via_end:
                dl = cur_t0 + wait
                if t < dl:
                    hit('short-only-if', f'short batch {b} emitted at {t} < t_first + wait = {cur_t0} + {wait}, no end marker taken')
                # only items count (whatever comes at or after the end marker is never owed to the consumer)
                n_items = len(before_end)
                seen = min(n_items, sum(1 for ta in arr_time if ta < dl))
                arr_before_last_take = min(n_items, arr_before_last_take)
                if seen > delivered:
                    hit('short-only-if', f'short batch {b} emitted at {t} although {seen - delivered} more item(s) had arrived '
                                         f'before t_first + wait = {dl}')
                elif arr_before_last_take > delivered:
                    # whatever was put before the batch's last get returned was queued when the batcher looked again
                    hit('short-only-if', f'short batch {b} emitted at {t} although {arr_before_last_take - delivered} more '
                                         f'item(s) were already queued when its last item was taken')
                if t > dl and not lazy:
                    hit('no-delay', f'short batch {b} emitted at {t} > t_first + wait = {cur_t0} + {wait}')
            else:
                if last_take is None or (t != last_take[1] and not (lazy and t > last_take[1])):
                    hit('no-delay', f'batch {b} (full or cut by the end marker) complete at {last_take and last_take[1]} but emitted at {t}')
            cur_n = 0
            cur_t0 = None
        elif kind == 'resume':
            ready = e[1]
        elif kind == 'stop':
            t = e[1]
            if not (last_take is not None and last_take[0]):
                hit('partition-content', 'iteration ended without taking an end marker')
            elif t != max(last_take[1], ready) and not (lazy and t > max(last_take[1], ready)):
                hit('no-delay', f'end marker taken at {last_take[1]}, consumer ready at {ready}, StopIteration at {t}')
    return hits


# ----------------------------------------------------------------------------------------------
# lines for `drv eager`
# ----------------------------------------------------------------------------------------------

def _n(x):
    return str(x) if isinstance(x, int) else f'nonint:{x}'


def model_lines(cid, case, res):
    end = case['end']
    # batch_wait_time=None: the model resolves the constructor default itself (Eager.defaultWait)
    w = f'D ups={1 << case["ulog"]}' if case['wait'] is None else str(case['wait'])
    lines = [f'case {cid} bs={case["bs"]} wait={w} end={enc(end)} strict={0 if case.get("lazy") else 1}']
    now = 0
    n_arr = n_take = n_out = 0
    stopped = False
    for e in res['events']:
        t = e[-1]
        if isinstance(t, int) and t > now:
            lines.append(f'e tick {t - now}')
            now = t
        elif not isinstance(t, int):
            lines.append(f'e tick {_n(t)}')
        if e[0] in ('arrive', 'take'):
            lines.append(f'e {e[0]} {e[1]}')
            n_arr += e[0] == 'arrive'
            n_take += e[0] == 'take'
        elif e[0] == 'emit':
            lines.append('e emit ' + ','.join(str(x) for x in e[1]))
            n_out += 1
        else:
            lines.append(f'e {e[0]}')
            stopped = stopped or e[0] == 'stop'
    # closed form (Eager.greedy, C19_closed_form) vs. what was delivered: complete strict runs only
    complete = stopped or (res.get('blocked_flag') and n_arr == len(case['arrivals']))
    if complete and not case.get('lazy') and 'error' not in res and all(isinstance(e[-1], int) for e in res['events']):
        takes = ';'.join(f'{e[1]}@{e[2]}' for e in res['events'] if e[0] == 'take')
        outs = '|'.join(','.join(str(x) for x in e[1]) for e in res['events'] if e[0] == 'emit')
        ats = ','.join(str(e[2]) for e in res['events'] if e[0] == 'emit')
        lines.append(f'cf takes={takes} out={outs} at={ats}')
    pc = 'done' if stopped else 'idle'
    lines.append(f'end pc={pc} out={n_out} clock={now} q={n_arr - n_take}')
    return lines


# ----------------------------------------------------------------------------------------------
# self-test: the clock the code reads is the virtual one, and a real-clock read is trapped
# ----------------------------------------------------------------------------------------------

def _clock_selftest(case):
    import time as _t
    problems = list(stale_clock_bindings())
    # (1) a real-clock read from a managed thread must be trapped
    trapped = []

    def probe():
        for name in ('monotonic_ns', 'perf_counter_ns', 'time_ns'):
            try:
                getattr(_t, name)()
                trapped.append((name, False))
            except RealClockRead:
                trapped.append((name, True))
        return True
    detsched.run(probe, detsched.make_chooser(('random', 0.0), 1))
    if not trapped or not all(ok for _n2, ok in trapped):
        problems.append(f'real-clock trap did not fire: {trapped}')
    # (2) the real EagerBatcher on waits of ~2**20 virtual seconds: must finish at once in real time,
    #     with exact virtual clocks, and must have read the virtual clock
    real0 = detsched._real_monotonic()
    c = dict(bs=3, wait=4, ulog=-18, end=None, arrivals=[[1, 1], [2, 2], [9, 3], [20, None]], holds=[3],
             chooser=['random', 0.0], seed=7)
    r = _run(c)
    real = detsched._real_monotonic() - real0
    exp = [('arrive', 1, 1), ('take', 1, 1), ('arrive', 2, 2), ('take', 2, 2), ('emit', [1, 2], 5), ('resume', 8),
           ('arrive', 3, 9), ('take', 3, 9), ('emit', [3], 13), ('resume', 13), ('arrive', 'N', 20), ('take', 'N', 20),
           ('stop', 20)]
    # (whether the batches/clocks are RIGHT is the monitors' and the model's business, not this test's: a changed
    #  EagerBatcher must end as a verdict, never as a harness problem)
    exact = [tuple(x) for x in r['events']] == exp
    if r['end_clock'] < 20 or not r['events']:
        problems.append(f'virtual time did not advance as scripted: end clock {r["end_clock"]} units')
    if real > 5.0:
        problems.append(f'run over 2**20 virtual seconds took {real:.1f}s of real time: some wait is on the real clock')
    if r['vclock_reads'] < 4:
        problems.append(f'the code read the virtual clock only {r["vclock_reads"]} times')
    return dict(events=r['events'], monitors=[], switches=r['switches'], clocktest=dict(ok=not problems, problems=problems,
                trapped=trapped, real_s=round(real, 3), vclock_reads=r['vclock_reads'],
                matches_hand_computed_run=exact))
