"""
Scenario: `fifo_stream` / `Stream.parmap(executor='thread')` under the deterministic scheduler.

Serves C01 (order / exactly-once), C05 (early stop / failure: no hang, no leak), C08 (look-ahead,
concurrency).  One run = one case dict (JSON-able) -> result dict with the observable events, the
monitors that fired (property statements evaluated directly on this run of the real code) and
the summary the Lean driver checks against the model's final state.

Must be imported only after `detsched.install()`.
"""
import gc
import random

import detsched

import mpservice.streamer._streamer as _S
from mpservice._common import StopRequested
from mpservice.streamer import Stream
from mpservice.streamer._streamer import fifo_stream

MODEL = 'fifo'
_OrigTPE = _S.ThreadPoolExecutor


import excflavours


class SrcError(Exception):
    pass


class _Interrupt(BaseException):
    pass


class WorkError(Exception):
    def __init__(self, i):
        super().__init__(i)
        self.i = i


class RetVal(Exception):
    """an exception object that the worker function RETURNS (it is that element's result)"""

    def __init__(self, i):
        super().__init__(i)
        self.i = i


class PreError(Exception):
    def __init__(self, i):
        super().__init__(i)
        self.i = i


BASE = 100  # element i is the value BASE + i


def gen_case(rng: random.Random, tier: str, bias: str = ''):
    """bias in {'', 'order', 'stop', 'lookahead'} shifts the distribution towards a property."""
    big = tier == 'thorough'
    kind = rng.choice(['fifo', 'fifo', 'parmap'])
    conc = rng.choice([1, 1, 2, 2, 3, 4] if not big else [1, 2, 3, 4, 6])
    cap = 2 * conc if kind == 'parmap' else rng.choice([1, 1, 2, 3, 4])
    n = rng.choice([0, 1, 2, 3, 5, 8, 12] if not big else [0, 1, 2, 5, 9, 16, 30, 60])
    if bias == 'lookahead':
        n = max(n, cap + 6)
    pre = rng.random() < 0.4
    rexc = rng.random() < 0.5
    pf = sorted(i for i in range(n) if pre and rng.random() < 0.15)
    re = sorted(i for i in range(n) if rng.random() < (0.15 if bias != 'order' else 0.08))
    # elements on which the worker function RETURNS an exception object (an ordinary result)
    rv = sorted(i for i in range(n) if i not in re and rng.random() < 0.08)
    src = rng.choice(['clean'] * 5 + ['exc', 'exc', 'stopreq', 'iterexc'])
    if src == 'iterexc':
        n = 0          # the source fails when its iterator is created: nothing is ever produced
    stop_after = None
    if n > 0 and rng.random() < (0.6 if bias == 'stop' else 0.25):
        stop_after = rng.randrange(1, n + 1)
    # service durations in scheduling points; biased so that later elements often finish first
    dur = [rng.choice([0, 0, 1, 2, 5, 9]) for _ in range(n)]
    if bias == 'order' and n >= 2 and rng.random() < 0.5:
        dur = [max(0, 2 * (n - i) + rng.randrange(3)) for i in range(n)]
    again = kind == 'parmap' and rng.random() < 0.5
    if again and stop_after is not None and rng.random() < 0.6:
        # calls beyond the stop position are long: they are still under way when the consumer leaves, and
        # would overlap with the calls of a second consumption if the first one did not wait for them
        dur = [d if i < stop_after else rng.choice([60, 100, 150]) for i, d in enumerate(dur)]
    ep = rng.choice([0.0, 0.0, 0.05, 0.2])     # timed waits (if the code has any) may expire at any moment
    ch = rng.choice([('random', ep), ('random', ep), ('sticky', 0.2, ep), ('sticky', 0.05, ep),
                     ('pct', 2, 300, ep), ('pct', 3, 300, ep)])
    case = dict(kind=kind, n=n, src=src, cap=cap, conc=conc, rexc=rexc, retx=rng.random() < 0.4,
                none_at=(rng.randrange(n) if n and rng.random() < 0.25 else None),
                pre=pre, pf=pf, re=re, rv=rv, again=again, stop_after=stop_after,
                stop_mode=rng.choice(['close', 'close', 'del', 'throw']), dur=dur, chooser=list(ch),
                seed=rng.randrange(1 << 30))
    case['exc_flavour'] = excflavours.of_seed(case['seed'])
    if case['seed'] % 13 == 0:
        case['stop_after'] = 0       # the iterator is never advanced
    case['falsy_src'] = case['seed'] % 5 == 0
    # (parmap) two iterations of the same stream object alive at once, see run_case
    case['overlap'] = kind == 'parmap' and case['seed'] % 7 == 0
    case['nested'] = kind == 'parmap' and case['seed'] % 7 == 3
    return case


def nontrivial(case, res):
    return case['n'] >= 2 and res.get('switches', 0) >= 1


def expected(case):
    """The property statement (C01/C05), computed from the case alone:
    (list of expected (index, kind) outputs, expected ending)."""
    out = []
    end = ('end',)
    for i in range(case['n']):
        if i in case['pf']:
            kind = 'pre'
        elif i in case['re']:
            kind = 'work'
        elif i in case.get('rv', ()):
            kind = 'retexc'
        else:
            kind = 'ok'
        if kind in ('pre', 'work') and not case['rexc']:
            end = ('raise', kind, i)
            break
        out.append((i, kind))
    else:
        if case['src'] in ('exc', 'iterexc'):
            end = ('raise', 'src', None)
        elif case['src'] == 'stopreq':
            end = ('raise', 'stopreq', None)
    if case['stop_after'] is not None and case['stop_after'] <= len(out):
        out = out[:case['stop_after']]
        end = ('closed',)
    return out, end


def _decode(v, retx, none_at=None):
    """-> (index from x or None, index from y, kind of y)"""
    ix = None
    if retx:
        x, y = v
        ix = none_at if x is None else x - BASE
    else:
        y = v
    if isinstance(y, WorkError):
        return ix, y.i, 'work'
    if isinstance(y, PreError):
        return ix, y.i, 'pre'
    if isinstance(y, RetVal):
        return ix, y.i, 'retexc'
    if isinstance(y, tuple) and len(y) == 2 and y[0] == 'y':
        return ix, y[1], 'ok'
    return ix, None, 'garbage'


def run_case(case):
    ev = []
    log = ev.append
    state = {'pulled': 0, 'recv': 0, 'running': 0, 'max_running': 0, 'max_ahead': 0,
             'calls': {}, 'viol': []}
    n, conc, cap = case['n'], case['conc'], case['cap']
    pf, re, dur = set(case['pf']), set(case['re']), case['dur']
    rv = set(case.get('rv', ()))
    none_at = case.get('none_at')
    # the failure classes of this case (see excflavours: also derived from a class the plumbing catches for itself)
    flav = case.get('exc_flavour') or 'plain'
    SrcErr, WorkErr_, PreErr = (excflavours.flavoured(c, flav) for c in (SrcError, WorkError, PreError))

    class Src:
        def __init__(self):
            self.i = 0

        def __iter__(self):
            if case['src'] == 'iterexc':
                log(('srcRaise',))
                raise SrcErr('src')
            return self

        def __next__(self):
            if self.i < n:
                i = self.i
                self.i += 1
                state['pulled'] += 1
                ahead = state['pulled'] - state['recv']
                if ahead > state['max_ahead']:
                    state['max_ahead'] = ahead
                log(('pull', i))
                if i == none_at:
                    return None         # `None` is an ordinary element (e.g. the output of an upstream stage run for its side effect)
                return BASE + i
            if case['src'] == 'clean':
                log(('srcEnd',))
                raise StopIteration
            log(('srcRaise',))
            if case['src'] == 'exc':
                raise SrcErr('src')
            raise StopRequested()

    if case.get('falsy_src'):
        # a source whose truth value / length says nothing about what iterating it yields (a live feed reporting the
        # number of currently buffered items: 0): it is an iterable like any other
        Src.__len__ = lambda self: 0

    def work(x):
        i = none_at if x is None else x - BASE
        state['calls'][i] = state['calls'].get(i, 0) + 1
        state['running'] += 1
        if state['running'] > state['max_running']:
            state['max_running'] = state['running']
        log(('start', i))
        try:
            for _ in range(dur[i]):
                detsched.yield_here('work')
            if i in re:
                raise WorkErr_(i)
            if i in rv:
                return RetVal(i)
            return ('y', i)
        finally:
            state['running'] -= 1
            log(('finish', i))

    def work2(x):
        state['running'] += 1
        if state['running'] > state['max_running']:
            state['max_running'] = state['running']
        try:
            for _ in range(12):
                detsched.yield_here('work2')
            return x
        finally:
            state['running'] -= 1

    def pre(x):
        i = none_at if x is None else x - BASE
        if i in pf:
            log(('preFail', i))
            raise PreErr(i)
        return x

    class LoggingTPE(_OrigTPE):
        def submit(self, fn, x, *a, **kw):
            if not state.get('second'):
                log(('submit', none_at if x is None else x - BASE))
            return super().submit(fn, x, *a, **kw)

    def main():
        base_threads = {ts.tid for ts in detsched.SCHED.order if not ts.done}
        out = []
        end = None
        if case['kind'] == 'parmap':
            _S.ThreadPoolExecutor = LoggingTPE
            try:
                stream = Stream(Src()).parmap(
                    work, executor='thread', concurrency=conc, return_x=case['retx'],
                    return_exceptions=case['rexc'], preprocessor=pre if case['pre'] else None)
                box = [iter(stream)]
                end = consume(box, out)
                if case.get('nested'):
                    # The worker function of a thread-mode parmap runs a thread-mode parmap of its own (same default name,
                    # same concurrency), with at least `concurrency` outer elements in flight: every stage has its own
                    # workers, so the outer stream delivers one output per input (judged directly; not replayed).
                    state['second'] = True
                    state['in_nested'] = True

                    def inner(x):
                        detsched.yield_here('inner')
                        return x + 1

                    def outer(x):
                        return sum(Stream([x, x + 1]).parmap(inner, executor='thread', concurrency=conc))
                    m = 2 * conc + 1
                    src3 = list(range(m))
                    got3 = list(Stream(src3).parmap(outer, executor='thread', concurrency=conc))
                    if got3 != [2 * x + 3 for x in src3]:
                        state['overlap_problem'] = f'nested thread-mode parmap over {m} elements delivered {got3}'
                    state['in_nested'] = False
                    state['second'] = False
                if case.get('overlap'):
                    # Two iterations of ONE parmap stream object over a re-iterable source, alive at the same time: the
                    # first is advanced by one element, the second is consumed completely, then the first is finished.
                    # Each is a stream of its own: one output per input, in order (judged directly; not replayed).
                    state['second'] = True
                    m = 2 * conc + 3
                    src2 = [BASE + n + k for k in range(m)]
                    def work3(x):
                        for _ in range(3):
                            detsched.yield_here('work3')
                        return x
                    st2 = Stream(src2).parmap(work3, executor='thread', concurrency=conc)
                    a, b = [], []
                    try:
                        it1 = iter(st2)
                        a = [next(it1)]
                        b = list(st2)
                        a += list(it1)
                    except detsched.Abort:
                        raise
                    except Exception as e2:  # noqa: BLE001
                        state['overlap_problem'] = (f'two overlapping iterations of one parmap stream over {m} elements: {e2!r} after '
                                                    f'{len(a)} outputs of the first and {len(b)} of the second')
                    if 'overlap_problem' not in state and (a != src2 or b != src2):
                        state['overlap_problem'] = (f'two overlapping iterations of one parmap stream over {m} elements: the first '
                                                    f'delivered {len(a)} outputs ({"in order" if a == src2[:len(a)] else "not the inputs in order"}), '
                                                    f'the second {len(b)}')
                    state['second'] = False
                if case.get('again') and end[0] != 'end':
                    # the iteration ended early (close / failure): consume a second stream right away;
                    # calls left running by the first one would add to the concurrency (C08)
                    state['second'] = True
                    second = Stream(list(range(BASE + n, BASE + n + 3 * conc))).parmap(
                        work2, executor='thread', concurrency=conc)
                    state['second_out'] = list(second)
            finally:
                _S.ThreadPoolExecutor = _OrigTPE
        else:
            with LoggingTPE(conc) as pool:
                def func(x):
                    return pool.submit(work, x, loud_exception=False)
                box = [fifo_stream(Src(), func, capacity=cap, return_x=case['retx'],
                                   return_exceptions=case['rexc'],
                                   preprocessor=pre if case['pre'] else None)]
                end = consume(box, out)
        log(('final',))
        leaked = [ts.name for ts in detsched.SCHED.order if not ts.done and ts.tid not in base_threads]
        return out, end, leaked

    def consume(box, out):
        gen = box[0]
        first = True
        if case['stop_after'] == 0:
            # stop position 0: the iterator is obtained and given up without ever being advanced
            if case['stop_mode'] in ('close', 'throw'):
                gen.close()
            box[0] = None
            gen = None
            gc.collect()
            for _ in range(30):
                detsched.yield_here('settle')
            return ('closed',)
        try:
            while True:
                if not first:
                    log(('next',))
                first = False
                v = next(gen)
                state['recv'] += 1
                ix, iy, kind = _decode(v, case['retx'], case.get('none_at'))
                log(('yld', iy if iy is not None else -1))
                out.append((ix, iy, kind))
                if case['stop_after'] is not None and len(out) == case['stop_after']:
                    log(('close',))
                    if case['stop_mode'] == 'close':
                        gen.close()
                    elif case['stop_mode'] == 'throw':
                        # the consumer is interrupted at the yield by something that is not an Exception
                        # (Ctrl-C, Thread.throw, cancellation): the generator must wind down all the same
                        try:
                            gen.throw(_Interrupt())
                        except _Interrupt:
                            pass
                    else:
                        box[0] = None
                        gen = None
                        gc.collect()
                    log(('join',))
                    return ('closed',)
        except StopIteration:
            log(('join',))
            return ('end',)
        except WorkError as e:
            state['recv'] += 1      # the exception is handed over in place of the element
            log(('join',))
            return ('raise', 'work', e.i)
        except PreError as e:
            state['recv'] += 1
            log(('join',))
            return ('raise', 'pre', e.i)
        except RetVal as e:
            # a RETURNED exception object must never be raised (it is that element's result)
            log(('join',))
            return ('raise', 'retexc', e.i)
        except SrcError:
            log(('join',))
            return ('raise', 'src', None)
        except StopRequested:
            log(('join',))
            return ('raise', 'stopreq', None)

    chooser = detsched.make_chooser(tuple(case['chooser']), case['seed'])
    v, e, s = detsched.run(main, chooser, max_steps=case.get('max_steps', 60000))
    res = dict(events=ev, steps=s.steps, switches=s.switches, trace=s.trace if case.get('keep_trace') else None,
               max_ahead=state['max_ahead'], max_running=state['max_running'], monitors=[])
    mon = res['monitors']
    if e is not None:
        if isinstance(e, detsched.Deadlock):
            res['deadlock'] = e.args[0] if e.args else None
            mon.append(dict(prop='C05', rule='hang', detail=f'deadlock/livelock: {res["deadlock"]}'))
            if state.get('in_nested'):
                mon.append(dict(prop='C01', rule='nested-hang', detail='a thread-mode parmap whose worker function runs a thread-mode parmap '
                                                                      f'of its own never delivers its outputs: {res["deadlock"]}'))
        else:
            res['error'] = repr(e)
            mon.append(dict(prop='C05', rule='unexpected-exception', detail=repr(e)))
        res['out'] = None
        res['end'] = None
        return res
    out, end, leaked = v
    res['out'] = out
    res['end'] = list(end)
    exp_out, exp_end = expected(case)
    # C01: order, own result, pairing
    got = [(iy, kind) for (_ix, iy, kind) in out]
    if got != exp_out[:len(got)] or (end[0] != 'closed' and len(got) != len(exp_out)) \
            or (end[0] == 'closed' and len(got) != len(exp_out)):
        mon.append(dict(prop='C01', rule='output', detail=f'got {got} expected {exp_out}'))
    if case['retx'] and any(ix != iy for (ix, iy, _k) in out):
        mon.append(dict(prop='C01', rule='pairing', detail=f'{out}'))
    for i, cnt in state['calls'].items():
        if cnt != 1 or i in pf:
            mon.append(dict(prop='C01', rule='exactly-once', detail=f'element {i} invoked {cnt} times (pf={i in pf})'))
    for (_ix, iy, kind) in out:
        if kind in ('ok', 'work', 'retexc') and state['calls'].get(iy, 0) != 1:
            mon.append(dict(prop='C01', rule='exactly-once', detail=f'delivered element {iy} invoked {state["calls"].get(iy, 0)} times'))
    if state.get('overlap_problem'):
        mon.append(dict(prop='C01', rule='overlap', detail=state['overlap_problem']))
    # C05: ending
    if tuple(end) != tuple(exp_end):
        mon.append(dict(prop='C05', rule='ending', detail=f'got {end} expected {exp_end}'))
    if leaked:
        mon.append(dict(prop='C05', rule='leak', detail=f'threads alive after the iterator ended: {leaked}'))
    # C08: look-ahead at every pull = pulled - handed, where handed = outputs received so far, plus
    # one once the element whose exception ends the iteration has its result (from then on the
    # generator may already be unwinding with it; the harness cannot see that moment, so this
    # never over-counts the look-ahead; see DESIGN §5 C08)
    raised_i = end[2] if end[0] == 'raise' and end[1] in ('work', 'pre') else None
    pulled = recv = 0
    done_raised = 0
    worst = 0
    for e2 in ev:
        if e2[0] == 'pull':
            pulled += 1
            worst = max(worst, pulled - recv - done_raised)
        elif e2[0] == 'yld':
            recv += 1
        elif e2[0] in ('finish', 'preFail') and e2[1] == raised_i:
            done_raised = 1
    res['max_ahead'] = worst
    res['ahead_slack'] = ['fifo_stream / parmap: pulled - handed, relative to capacity (theorem: <= 3, attained)', worst - cap]
    if worst > cap + 3:
        mon.append(dict(prop='C08', rule='lookahead', detail=f'{worst} > cap+3 = {cap + 3}'))
    if state['max_running'] > conc:
        mon.append(dict(prop='C08', rule='concurrency', detail=f'{state["max_running"]} > {conc}'))
    return res


def model_lines(cid, case, res):
    """Lines for `drv fifo`.  `stopreq` ends the source like an exception (the model has one
    failing-source ending; which exception class arrives is checked by the monitor)."""
    if case.get('stop_after') == 0:
        return []       # never advanced: nothing for the model to replay; the monitors (leak, hang) decide
    src = 'clean' if case['src'] == 'clean' else 'exc'
    cap = case['cap']
    pfl = ','.join(map(str, case['pf'])) if case['pre'] else ''
    # if the hand-over to the pool could not be observed (the executor was created where the harness
    # cannot shadow it) the driver infers `submit` like the other internal steps
    evs = res['events']
    obs_submit = int(any(e[0] == 'submit' for e in evs) or not any(e[0] == 'start' for e in evs))
    lines = [f'case {cid} n={case["n"]} cap={cap} conc={case["conc"]} rexc={int(case["rexc"])} '
             f'src={src} pf={pfl} re={",".join(map(str, case["re"]))} obs_submit={obs_submit}']
    final = 0
    for e in res['events']:
        if e[0] == 'final':
            final = 1
            continue
        lines.append('e ' + ' '.join(str(x) for x in e))
    if res.get('out') is None:
        # run did not complete (hang): only the prefix is validated
        lines.append('end out=0 raised=none close=0 final=0 partial=1')
        return lines
    end = res['end']
    if end[0] == 'raise':
        raised = 'src' if end[1] in ('src', 'stopreq') else f'item:{end[2]}'
    else:
        raised = 'none'
    lines.append(f'end out={len(res["out"])} raised={raised} close={int(end[0] == "closed")} final={final}')
    return lines
