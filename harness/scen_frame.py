"""
Scenario (E3, in-process, no scheduler): the REAL `mpservice.socket.write_record` / `read_record`
against the framing model `lean/MpsVerif/Model/Frame.lean` (`drv frame`).

One case = a list of records (request id, encoder, payload spec), a reader limit, a mode:
  clean  : write all records with the real write_record, feed the bytes to a real asyncio.StreamReader
           in several chunkings, read with the real read_record until it raises;
  trunc  : same, but the byte stream is cut at `cut` (the peer died mid-stream);
  raw    : hand-made (malformed) header bytes are fed; only the reader side is compared.
The bytes the real code hands to the transport, the bytes `decode` receives and the way the read
loop ends are compared byte-exactly with the model; a monitor evaluates C18 directly (what was read
equals what was written: same ids, equal objects, same order; nothing invented after a cut).
"""
import asyncio
import hashlib
import random
import vloop

import mpservice.socket as S

MODEL = 'frame'
_orig_encode = S.encode
_orig_decode = S.decode

SIZES_Q = [0, 0, 1, 2, 3, 7, 10, 33, 100, 1000, 4096, 16384]
SIZES_EDGE = [65535, 65536, 65537, 131072 + 5]


# ------------------------------------------------------------------------------------------------
# payloads (built deterministically from a small JSON-able spec)
# ------------------------------------------------------------------------------------------------

def _nested(rng, depth=0):
    k = rng.randrange(8 if depth < 3 else 5)
    if k == 0:
        return rng.randrange(-10 ** 12, 10 ** 12)
    if k == 1:
        return ''.join(rng.choice('ab\n 0 9 pickle\tπé\x00"\\') for _ in range(rng.randrange(12)))
    if k == 2:
        return bytes(rng.choice(b'\n 01 none\x00\xff') for _ in range(rng.randrange(12)))
    if k == 3:
        return rng.choice([True, False, (), 0, ''])
    if k == 4:
        return None if depth > 0 else 0          # None only inside an object (C18: non-None payload)
    if k == 5:
        return [_nested(rng, depth + 1) for _ in range(rng.randrange(4))]
    if k == 6:
        return tuple(_nested(rng, depth + 1) for _ in range(rng.randrange(4)))
    return {('k%d' % i if rng.random() < 0.7 else i): _nested(rng, depth + 1) for i in range(rng.randrange(4))}


def make_bytes(cls, size, seed):
    rng = random.Random(seed)
    if cls == 'empty' or size == 0:
        return b''
    if cls == 'hdr':     # looks like record headers, incl. a plausible next header right at the start
        unit = b'%d %d pickle\n' % (rng.randrange(10 ** 14), rng.randrange(100)) + b'7 3 none\nabc' + b'\n'
        return (unit * (size // len(unit) + 1))[:size]
    if cls == 'nl':
        return bytes(rng.choice(b'\n\n\n\n\r \x00a') for _ in range(size)) if size <= 4096 else \
            (bytes(rng.choice(b'\n\n\n\n\r \x00a') for _ in range(997)) * (size // 997 + 1))[:size]
    # 'rand'
    return rng.randbytes(size)


def make_payload(spec):
    """spec = [cls, size, seed] -> python object handed to write_record"""
    cls, size, seed = spec
    if cls == 'nested':
        return _nested(random.Random(seed))
    if cls == 'str':
        rng = random.Random(seed)
        return ''.join(rng.choice('ab\n 12 utf8\n\tπé漢\U0001F600') for _ in range(size))
    if cls == 'surr':      # text that is picklable but not UTF-8 encodable (lone surrogates, e.g. os.fsdecode of a latin-1 name)
        rng = random.Random(seed)
        return ''.join(rng.choice(['caf\udce9', 'a', '\n', ' 12 pickle\n', '\ud800', 'é']) for _ in range(max(1, min(size, 2000))))
    if cls == 'wrapped':   # a picklable object holding awkward bytes
        return {'blob': make_bytes('hdr', size, seed), 'n': size, 'tail': [b'\n', '\n']}
    return make_bytes(cls, size, seed)


def payload_spec(rng, enc, big_ok, tier):
    sizes = SIZES_Q + (SIZES_EDGE if big_ok else [])
    if tier == 'thorough' and big_ok and rng.random() < 0.05:
        sizes = [300000, 1 << 20]
    size = rng.choice(sizes)
    if enc == 'none':
        cls = rng.choice(['empty', 'hdr', 'nl', 'rand', 'hdr', 'nl'])
    elif enc == 'utf8':
        cls = 'str'
        size = min(size, 20000)
    else:
        cls = rng.choice(['nested', 'nested', 'wrapped', 'hdr', 'nl', 'rand', 'empty', 'str'])
        if cls == 'str':
            size = min(size, 20000)
    return [cls, size, rng.randrange(1 << 30)]


def gen_rid(rng):
    k = rng.randrange(10)
    if k < 5:
        return str(rng.randrange(10 ** 14, 2 * 10 ** 14))      # like id(fut)
    if k < 7:
        return str(rng.choice([0, 1, 7, 10, 99, 2 ** 64]))
    if k < 9:
        return ''.join(rng.choice('abcdef0123456789') for _ in range(rng.randrange(1, 9)))
    return ''.join(rng.choice('x/1-_.:;!#$%&()*+,<=>?@[]^`{|}~"\'\\') for _ in range(rng.randrange(1, 6)))


RAW_KINDS = ['four-fields', 'two-fields', 'empty-id', 'alpha-len', 'neg-len', 'bad-enc', 'no-newline', 'blank-line',
             'tab-sep', 'double-space', 'long-line', 'hdr-then-eof', 'zero-len']


def gen_case(rng, tier):
    mode = rng.choice(['clean'] * 6 + ['trunc'] * 2 + ['raw'] * 2)
    lim = rng.choice([65536] * 5 + [64, 64, 24, 1000])
    nrec = rng.choice([0, 1, 1, 2, 3, 5, 8] if tier == 'quick' else [0, 1, 2, 3, 5, 8, 20, 40])
    recs = []
    bigs = 0
    for _ in range(nrec):
        enc = rng.choice(['pickle', 'pickle', 'none', 'none', 'utf8'])
        big_ok = bigs < (1 if tier == 'quick' else 2) and rng.random() < (0.15 if tier == 'quick' else 0.3)
        spec = payload_spec(rng, enc, big_ok, tier)
        if spec[1] >= 60000:
            bigs += 1
        rid = gen_rid(rng)
        if lim < 1000 and rng.random() < 0.25:
            rid = rid + 'z' * rng.randrange(lim - 12, lim + 4)     # header line around the reader's limit
        recs.append(dict(rid=rid, enc=enc, pl=spec))
    if rng.random() < 0.04:
        # tiny stream: one short record, fed under every possible chunking (exhaustive for its length)
        recs = [dict(rid=rng.choice('7ax'), enc='none', pl=[rng.choice(['nl', 'hdr', 'empty']), rng.choice([0, 1, 2]),
                                                           rng.randrange(1 << 30)])]
        lim = rng.choice([65536, 24])
        if mode == 'raw':
            mode = 'clean'
    case = dict(kind='frame', mode=mode, lim=lim, recs=recs, nchunk=rng.choice([2, 3, 4]),
                timeout=rng.random() < 0.3, seed=rng.randrange(1 << 30))
    if mode == 'trunc':
        case['cutfrac'] = rng.random()
        case['cutedge'] = rng.choice([None, None, -1, 0, 1])   # relative to a record boundary / header end
    if mode == 'raw':
        case['raw'] = rng.choice(RAW_KINDS)
    return case


def raw_bytes(case):
    """hand-made stream: some good records first (from the case), then a malformed / special tail"""
    k = case['raw']
    rng = random.Random(case['seed'])
    body = make_bytes('hdr', rng.choice([0, 1, 5, 40]), case['seed'])
    n = len(body)
    if k == 'four-fields':
        return b'12 34 %d none\n' % n + body
    if k == 'two-fields':
        return b'%d none\n' % n + body
    if k == 'empty-id':
        return b' %d none\n' % n + body
    if k == 'alpha-len':
        return b'77 %dx none\n' % n + body
    if k == 'neg-len':
        return b'77 -%d none\n' % (n + 1) + body
    if k == 'bad-enc':
        return b'77 %d json\n' % n + body
    if k == 'no-newline':
        return b'77 %d none' % n
    if k == 'blank-line':
        return b'\n' + body
    if k == 'tab-sep':          # str.split() splits on any white space run
        return b'77\t%d \x1f none \n' % n + body + b'8 0 none\n'
    if k == 'double-space':
        return b'  77  %d   none\n' % n + body + b'9 1 none\nQ'
    if k == 'long-line':
        return b'7' * (case['lim'] + rng.choice([-1, 0, 1, 2, 50])) + (b'\n' if rng.random() < 0.5 else b'')
    if k == 'hdr-then-eof':
        return b'77 %d none\n' % (n + rng.choice([1, 5])) + body
    if k == 'zero-len':
        return b'a 0 none\n' + b'b 0 none\n' + b'c 00 none\n'
    raise ValueError(k)


# ------------------------------------------------------------------------------------------------
# running the real code
# ------------------------------------------------------------------------------------------------

class _Writer:
    """what write_record needs from a StreamWriter: write() and an awaitable drain()"""

    def __init__(self):
        self.buf = bytearray()
        self.calls = 0

    def write(self, b):
        self.calls += 1
        self.buf += b

    async def drain(self):
        await asyncio.sleep(0)


EXHAUSTIVE_MAX = 11      # streams up to this length are fed under ALL 2^(L-1) chunkings


def chunkings(data, rng, n, edges):
    """a list of chunk lists: whole; byte-wise (short streams); cuts right around record/header
    boundaries; random cuts; every possible chunking for tiny streams"""
    out = [[data]]
    L = len(data)
    if 1 < L <= EXHAUSTIVE_MAX:
        for mask in range(1, 1 << (L - 1)):
            cuts = [i + 1 for i in range(L - 1) if mask >> i & 1]
            out.append([data[a:b] for a, b in zip([0] + cuts, cuts + [L])])
        return out
    if 0 < L <= 600:
        out.append([data[i:i + 1] for i in range(L)])
    if edges and L:
        cuts = sorted({min(L, max(0, e + d)) for e in edges for d in (-1, 0, 1)} - {0, L})
        if cuts:
            out.append([data[a:b] for a, b in zip([0] + cuts, cuts + [L])])
    for _ in range(n):
        if L < 2:
            break
        k = rng.choice([1, 2, 3, 8, 30])
        cuts = sorted({rng.randrange(1, L) for _ in range(k)})
        out.append([data[a:b] for a, b in zip([0] + cuts, cuts + [L])])
    return out


async def _read_all(chunks, lim, timeout, captured):
    reader = asyncio.StreamReader(limit=lim)

    async def feeder():
        for ch in chunks:
            reader.feed_data(ch)
            await asyncio.sleep(0)
        reader.feed_eof()

    ft = asyncio.create_task(feeder())
    got = []
    try:
        while True:
            n0 = len(captured)
            rid, obj = await S.read_record(reader, timeout=(30 if timeout else None))
            raw, enc = captured[n0] if len(captured) > n0 else (None, None)
            got.append((rid, enc, raw, obj))
    except asyncio.IncompleteReadError as e:
        end = 'eof' if (e.expected is None and e.partial == b'') else 'incomplete'
    except asyncio.LimitOverrunError:
        end = 'overrun'
    except (ValueError, AssertionError) as e:      # incl. UnicodeDecodeError
        end = 'bad'
    except Exception as e:                         # e.g. unpickling a damaged payload
        end = 'exc-' + type(e).__name__
    finally:
        ft.cancel()
    return got, end


async def _read_polling(chunks, gaps, lim, captured):
    """The stream arrives slowly (virtual time: `gaps[k]` seconds before chunk k) and is read the way both
    callers in socket.py read it: `read_record(reader, timeout=0.1)`, `TimeoutError` = nothing yet, poll again."""
    reader = asyncio.StreamReader(limit=lim)

    async def feeder():
        for ch, g in zip(chunks, gaps):
            if g:
                await asyncio.sleep(g)
            reader.feed_data(ch)
            await asyncio.sleep(0)
        reader.feed_eof()

    ft = asyncio.create_task(feeder())
    got = []
    polls = 0
    try:
        while True:
            n0 = len(captured)
            try:
                rid, obj = await S.read_record(reader, timeout=0.1)
            except asyncio.TimeoutError:
                polls += 1
                if polls > 10000:
                    end = 'polls-forever'
                    break
                continue
            raw, enc = captured[n0] if len(captured) > n0 else (None, None)
            got.append((rid, enc, raw, obj))
    except asyncio.IncompleteReadError as e:
        end = 'eof' if (e.expected is None and e.partial == b'') else 'incomplete'
    except asyncio.LimitOverrunError:
        end = 'overrun'
    except (ValueError, AssertionError):
        end = 'bad'
    except Exception as e:
        end = 'exc-' + type(e).__name__
    finally:
        ft.cancel()
    return got, end, polls


def _hex(b):
    return b.hex() if b else '-'


def run_case(case):
    rng = random.Random(case['seed'])
    sent_raw = []
    captured = []

    def enc_spy(data, encoder):
        b = _orig_encode(data, encoder)
        sent_raw.append((bytes(b), encoder))
        return b

    def dec_spy(data, encoder):
        captured.append((bytes(data), encoder))
        return _orig_decode(data, encoder)

    S.encode = enc_spy
    S.decode = dec_spy
    try:
        objs = [make_payload(r['pl']) for r in case['recs']]
        w = _Writer()
        edges = []

        async def write_all():
            for r, o in zip(case['recs'], objs):
                await S.write_record(w, r['rid'], o, encoder=r['enc'])
                edges.append(len(w.buf))
                edges.append(len(w.buf) - len(sent_raw[-1][0]))     # end of that record's header

        write_exc = None
        try:
            asyncio.run(write_all())
        except Exception as e:
            write_exc = repr(e)
        wire = bytes(w.buf)
        feed = wire
        if case['mode'] == 'trunc' and wire:
            cut = int(case['cutfrac'] * len(wire))
            if case.get('cutedge') is not None and edges:
                cut = rng.choice(edges) + case['cutedge']
            cut = max(0, min(len(wire) - 1, cut))
            feed = wire[:cut]
        elif case['mode'] == 'raw':
            feed = wire + raw_bytes(case)

        results = []

        async def read_variants():
            for chunks in chunkings(feed, rng, case['nchunk'], edges):
                del captured[:]
                results.append(await _read_all(chunks, case['lim'], case['timeout'], captured))

        asyncio.run(read_variants())
        # slow arrival under the virtual clock (E2): the records read must not depend on WHEN the bytes come
        slow = []
        for chunks in chunkings(feed, rng, 2, edges)[-2:]:
            gaps = [rng.choice([0, 0, 0.03, 0.12, 0.12, 0.5]) for _ in chunks]
            del captured[:]
            v, exc, _st = vloop.run(lambda: _read_polling(chunks, gaps, case['lim'], captured))
            slow.append((v, exc, gaps))
    finally:
        S.encode = _orig_encode
        S.decode = _orig_decode

    mon = []
    if write_exc:
        mon.append(dict(prop='C18', rule='write-raised', detail=f'write_record raised {write_exc}'))
    got0, end0 = results[0]
    canon = [(g[0], g[1], g[2]) for g in got0]
    for k, (g, e) in enumerate(results[1:], 1):
        if e != end0 or [(x[0], x[1], x[2]) for x in g] != canon:
            mon.append(dict(prop='C18', rule='chunking-dependent',
                            detail=f'chunking #{k} read {len(g)} records ending {e}; unchunked read {len(got0)} ending {end0}'))
            break
    for v, exc, gaps in slow:
        if exc is not None:
            mon.append(dict(prop='C18', rule='arrival-timing-dependent',
                            detail=f'polling read of a slowly arriving stream ended with {exc!r}; gaps {gaps[:12]}'))
            break
        g, e, polls = v
        if e != end0 or [(x[0], x[1], x[2]) for x in g] != canon:
            mon.append(dict(prop='C18', rule='arrival-timing-dependent',
                            detail=f'the same bytes arriving with gaps {gaps[:12]} (s) between chunks and read by polling '
                                   f'`read_record(timeout=0.1)` gave {len(g)} records ending {e}; read at once: {len(got0)} ending {end0}'))
            break
    # C18 evaluated directly: what is read back is what was written, in order
    expect = [(r['rid'], o) for r, o in zip(case['recs'], objs)]
    have = [(g[0], g[3]) for g in got0]
    if case['mode'] == 'clean' and all(_wf(r['rid'], case['lim'], len(sr[0]), r['enc']) for r, sr in zip(case['recs'], sent_raw)):
        if have != expect or end0 != 'eof':
            mon.append(dict(prop='C18', rule='frame-roundtrip',
                            detail=f'wrote {len(expect)} records, read {len(have)} ending {end0}; first difference at '
                                   f'{_first_diff(have, expect)}'))
    else:
        # never a record that was not written (cut / malformed tail / over-long header): a prefix, intact
        k = len(case['recs'])
        if have[:k] != expect[:len(have[:k])]:
            mon.append(dict(prop='C18', rule='frame-prefix',
                            detail=f'read records are not a prefix of the written ones: first difference at {_first_diff(have[:k], expect)}'))
        if case['mode'] == 'trunc' and len(have) > len(expect):
            mon.append(dict(prop='C18', rule='frame-phantom', detail=f'{len(have)} records read from a cut stream of {len(expect)}'))
    res = dict(monitors=mon, end=end0, nread=len(got0), nchunkings=len(results), slow_reads=len(slow),
               slow_polls=sum(v[2] for v, exc, _ in slow if exc is None), wire_len=len(wire),
               exhaustive_chunkings=(1 < len(feed) <= EXHAUSTIVE_MAX), feed_len=len(feed),
               events=[hashlib.sha1(feed).hexdigest(), end0, len(got0)])
    # material for the model comparison (kept compact: hex strings)
    res['recs_hex'] = [f"{_hex(r['rid'].encode())}:{r['enc']}:{_hex(sr[0])}" for r, sr in zip(case['recs'], sent_raw)]
    res['wire_hex'] = _hex(wire)
    res['feed_hex'] = _hex(feed)
    res['got_hex'] = [f"{_hex(str(g[0]).encode())}:{g[1]}:{_hex(g[2] or b'')}" for g in got0]
    res['write_calls'] = w.calls
    return res


def _wf(rid, lim, plen, enc):
    """the theorem's hypothesis: well-formed id and the header line fits the reader's limit"""
    b = rid.encode()
    return len(b) > 0 and all(33 <= x <= 126 for x in b) and len(b) + 1 + len(str(plen)) + 1 + len(enc) <= lim


def _first_diff(a, b):
    for i, (x, y) in enumerate(zip(a, b)):
        if x != y:
            return f'record {i}: id {x[0]!r} vs {y[0]!r}, payload equal={x[1] == y[1]}'
    return f'length {len(a)} vs {len(b)}'


def nontrivial(case, res):
    return res.get('nchunkings', 0) >= 2 and (len(case['recs']) >= 2 or case['mode'] != 'clean')


def model_lines(cid, case, res):
    lines = [f'case {cid} lim={case["lim"]}']
    lines.append('recs ' + (';'.join(res['recs_hex']) or '-'))
    lines.append('wire ' + res['wire_hex'])
    # `=`: same bytes / same records as above (the driver compares structurally; saves re-parsing big hex)
    lines.append('feed ' + ('=' if res['feed_hex'] == res['wire_hex'] else res['feed_hex']))
    lines.append(f'got {res["end"]} ' + ('=' if res['got_hex'] == res['recs_hex'] else (';'.join(res['got_hex']) or '-')))
    lines.append('end')
    return lines
