"""
Scenario: `mpservice.queue.IterableQueue` (+ `ResponsiveQueue`) with real threads under the
deterministic scheduler.  Serves C17.

One run = one case dict (JSON-able): `m` suppliers x `n` consumers x `rounds` rounds separated by
`renew` x data-queue bound `cap` x (optionally) a stop request at a generated moment.  Result: the
observable events (logged at the linearisation point of the real queue operation, inside the
queue's own mutex, via the documented `_put/_get` extension points of `queue.Queue`), quiescent
probes of the token queues, the monitors that fired (the property statement evaluated on this run
of the real code) and the summary the Lean driver compares with the model's state.

Must be imported only after `detsched.install()`.
"""
import collections
import queue
import random
import threading
import time

import detsched

from mpservice._common import StopRequested
from mpservice.queue import IterableQueue, ResponsiveQueue

MODEL = 'iterq'
W = 1.0   # ResponsiveQueue's default wait interval = one clock unit of the model


def gen_case(rng: random.Random, tier: str, bias: str = ''):
    big = tier == 'thorough'
    m = rng.choice([1, 2, 2, 3, 3] if not big else [1, 2, 3, 3, 4])
    n = rng.choice([1, 2, 2, 3, 3] if not big else [1, 2, 3, 3, 4])
    if bias == 'markers':
        n = max(n, 2)
    rounds = rng.choice([1, 2, 2, 3])
    if bias == 'small':
        m, n, rounds = min(m, 2), min(n, 2), min(rounds, 2)
    cap = rng.choice([0, 0, 1, 2, 3, 5])
    kmax = 3 if not big else 6
    dup = rng.random() < 0.25          # duplicate values: the statement is about multisets
    items = []
    for r in range(rounds):
        row = []
        for i in range(m):
            k = rng.choice([0, 1, 1, 2, kmax])
            row.append([(7 if dup and rng.random() < 0.5 else 1000 * r + 100 * i + j) for j in range(k)])
        items.append(row)
    resp = rng.random() < (0.6 if bias != 'markers' else 0.3)
    stop = None
    hold_sup, skip_con = [], []
    if resp and rng.random() < (0.7 if bias == 'stop' else 0.35):
        stop = dict(round=rng.randrange(rounds), yields=rng.choice([0, 1, 3, 8, 20, 50]),
                    sleep=rng.choice([0, 0, 1, 2, 3]))
        # something to be blocked on: a supplier that never ends, or consumers that never start
        if rng.random() < 0.6:
            hold_sup = sorted(rng.sample(range(m), rng.randrange(1, m + 1)))
        if rng.random() < 0.4:
            skip_con = sorted(rng.sample(range(n), rng.randrange(1, n + 1)))
            if cap == 0:
                cap = rng.choice([1, 2])
    ch = rng.choice([('random', 0.0), ('random', 0.0), ('sticky', 0.2, 0.0), ('sticky', 0.05, 0.0),
                     ('pct', 2, 200, 0.0), ('pct', 3, 200, 0.0)])
    final_renew = rng.random() < 0.5
    # late consumers: per round, consumers that start iterating only when the round is already over
    # (before `renew`); early suppliers: per round, suppliers of the NEXT round that start (put, then
    # `put_end(wait_for_renew=True)`) when the round is over and before `renew` -- the use documented
    # in `put_end`.  Early suppliers need the stop event (they are released through it on failure).
    late = [[] for _ in range(rounds)]
    early = [[] for _ in range(rounds)]
    if stop is None and rng.random() < (0.8 if bias in ('late', 'early') else 0.2):
        for r in range(rounds):
            if n >= 2 and rng.random() < 0.7:
                late[r] = sorted(rng.sample(range(n), rng.randrange(1, n)))
        if bias == 'early' or rng.random() < 0.5:
            if rounds == 1:
                rounds = 2
                items.append([[1000 + 100 * i + j for j in range(rng.choice([0, 1, 2]))] for i in range(m)])
                late.append([])
                early.append([])
            resp = True
            for r in range(rounds - 1):
                if rng.random() < 0.8:
                    early[r] = sorted(rng.sample(range(m), rng.randrange(1, m + 1)))
    return dict(m=m, n=n, cap=cap, rounds=rounds, items=items, resp=resp, stop=stop, hold_sup=hold_sup,
                skip_con=skip_con, final_renew=final_renew, late=late, early=early, chooser=list(ch),
                seed=rng.randrange(1 << 30))



class _NoTruth:
    def __bool__(self):
        raise ValueError('the truth value of an element-wise comparison is ambiguous')


class OddItem:
    """a data item whose `==` is overloaded: a "null object" that compares equal to None (value % 5 == 0) or an
    array-like whose comparison has no truth value (value % 7 == 0).  `None` is recognised by identity by the queue
    (it is its internal end mark), so such items are ordinary data."""
    __slots__ = ('v',)

    def __init__(self, v):
        self.v = v

    def __eq__(self, o):
        if self.v % 5 == 0:
            return o is None or (isinstance(o, OddItem) and o.v == self.v)
        return _NoTruth()

    def __ne__(self, o):
        r = self.__eq__(o)
        return (not r) if isinstance(r, bool) else r

    def __hash__(self):
        return hash(self.v)

    def __repr__(self):
        return f'OddItem({self.v})'


def _wrap(x):
    return OddItem(x) if isinstance(x, int) and not isinstance(x, bool) and (x % 5 == 0 or x % 7 == 0) else x


def _unwrap(x):
    return x.v if isinstance(x, OddItem) else x

def nontrivial(case, res):
    if case.get('kind') == 'timed':
        return res.get('timed') is not None and (case['s'] is not None or case['r'] is not None)
    return case['m'] + case['n'] >= 3 and res.get('switches', 0) >= 1 and any(any(row) for row in case['items'])


def _role():
    return threading.current_thread().name


def run_case(case):
    ev = []
    log = ev.append
    m, n, cap = case['m'], case['n'], case['cap']
    stop_plan = case.get('stop')
    mon = []

    class LogQueue(queue.Queue):
        """`_put/_get` run inside the queue's mutex: the event is logged at the linearisation point"""

        def _put(self, x):
            r = _role()
            if x is None:
                if r[0] == 'S':
                    state['marks'] += 1
                log(('mark', int(r[1:])) if r[0] == 'S' else ('xput', int(r[1:])) if r[0] == 'C' else ('mput',))
            else:
                log(('put', int(r[1:]), _unwrap(x)) if r[0] == 'S' else ('badput', r, _unwrap(x)))
            super()._put(x)

        def _get(self):
            x = super()._get()
            r = _role()
            if r[0] == 'C':
                j = int(r[1:])
                if x is None:
                    log(('deqm', j))
                else:
                    log(('deq', j, _unwrap(x)))
                    deq[j].append(_unwrap(x))
            else:
                log(('rdeq',))
            return x

    class LogTok(queue.Queue):
        """token queue with the same behaviour; logs consumer/supplier token moves and the
        consumers' `full()` reads at their linearisation point (fine observation mode)"""

        def __init__(self, which, maxsize):
            super().__init__(maxsize)
            self.which = which
            self.on = False

        def _put(self, x):
            if self.on:
                r = _role()
                if self.which == 'applied' and r[0] == 'S':
                    log(('sapp', int(r[1:])))
                elif self.which == 'used' and r[0] == 'C':
                    log(('give', int(r[1:])))
            super()._put(x)

        def _get(self):
            if self.on:
                r = _role()
                if self.which == 'spare' and r[0] == 'S':
                    log(('sbeg', int(r[1:])))
                elif self.which == 'applied' and r[0] == 'C':
                    log(('take', int(r[1:])))
            return super()._get()

        def full(self):
            with self.mutex:
                b = 0 < self.maxsize <= self._qsize()
                if self.on and self.which == 'used':
                    r = _role()
                    if r[0] == 'C':
                        log(('full', int(r[1:]), int(b)))
                return b

    class FeedTok:
        """Scheduler-driven stand-in for a `multiprocessing.Queue(maxsize)` used as token queue (what
        `IterableQueue` picks when `to_stop` is given or the data queue is a multiprocessing queue):
        `put` appends to a buffer and returns; a feeder thread moves buffered objects to the "pipe",
        one at a time, whenever it is scheduled; `get` and `empty` only see the pipe; `full` and
        `qsize` count buffer + pipe (the bounded semaphore), exactly as `multiprocessing.queues.Queue`
        does.  The real class cannot run under the scheduler (blocking pipe reads)."""

        def __init__(self, which, maxsize, initial):
            self.which = which
            self.maxsize = maxsize
            self.buf = collections.deque()
            self.pipe = collections.deque(initial)
            self.count = len(initial)
            self.closed = False
            self.feeder = None

        def _feed(self):
            while True:
                detsched.SCHED.wait_until(lambda: self.buf or self.closed, None, 'feedtok.feeder')
                if not self.buf:
                    return
                self.pipe.append(self.buf.popleft())
                detsched.yield_here('feedtok.flushed')

        def put(self, x, block=True, timeout=None):
            ok = detsched.SCHED.wait_until(lambda: self.count < self.maxsize, timeout if block else 0, 'feedtok.put')
            if not ok:
                raise queue.Full
            r = _role()
            if self.which == 'applied' and r[0] == 'S':
                log(('sapp', int(r[1:])))
            elif self.which == 'used' and r[0] == 'C':
                log(('give', int(r[1:])))
            self.count += 1
            self.buf.append(x)
            if self.feeder is None:
                self.feeder = threading.Thread(target=self._feed, name=f'F-{self.which}', daemon=True)
                self.feeder.start()
            detsched.yield_here('feedtok.put')

        def get(self, block=True, timeout=None):
            ok = detsched.SCHED.wait_until(lambda: len(self.pipe) > 0, timeout if block else 0, 'feedtok.get')
            if not ok:
                raise queue.Empty
            r = _role()
            if self.which == 'spare' and r[0] == 'S':
                log(('sbeg', int(r[1:])))
            elif self.which == 'applied' and r[0] == 'C':
                log(('take', int(r[1:])))
            x = self.pipe.popleft()
            self.count -= 1
            detsched.yield_here('feedtok.get')
            return x

        def empty(self):
            detsched.yield_here('feedtok.empty')
            return not self.pipe

        def full(self):
            detsched.yield_here('feedtok.full')
            b = self.count >= self.maxsize
            if self.which == 'used':
                r = _role()
                if r[0] == 'C':
                    log(('full', int(r[1:]), int(b)))
            return b

        def qsize(self):
            return self.count

        def close(self):
            self.closed = True
            if self.feeder is not None:
                self.feeder.join()

    deq = [[] for _ in range(n)]
    state = dict(tlast=0, stop_at=None, fine=False, marks=0)
    rounds_log = []     # per round: dict(put=[...], got=[[...] per consumer], complete=bool)

    def tick_cb(s):
        k = int(s.now) - state['tlast']
        for _ in range(k):
            log(('tick',))
        state['tlast'] = int(s.now)

    def probe(iq, logq):
        d = dict(qlen=len(logq.queue), qmarks=sum(1 for z in logq.queue if z is None))
        try:
            d.update(spare=iq._spare_lids.qsize(), applied=iq._applied_lids.qsize(), used=iq._used_lids.qsize())
        except AttributeError:
            pass
        return d

    def main():
        detsched.SCHED.on_step.append(tick_cb)
        logq = LogQueue(cap)
        to_stop = threading.Event() if case['resp'] else None
        # `IterableQueue(q, to_stop=ev)` wraps `q` in a ResponsiveQueue *before* it tests
        # `isinstance(q, queue.Queue)` and therefore picks multiprocessing queues (pipes, feeder
        # threads) for its tokens even in a pure-thread setting; those cannot be driven by the
        # scheduler.  The object is built in thread mode and the ResponsiveQueue installed the way
        # `__init__` does it.
        iq = IterableQueue(logq, num_suppliers=m)
        if to_stop is not None:
            iq._q = ResponsiveQueue(logq, to_stop)
            iq._to_stop = to_stop
        if case.get('fine', True):
            # fine observation: same-behaviour logging token queues in place of the three
            # internal ones (private names; falls back to coarse observation if they are gone)
            try:
                toks = {}
                for which in ('spare', 'applied', 'used'):
                    old = getattr(iq, f'_{which}_lids')
                    if type(old) is not queue.Queue:
                        raise AttributeError(which)
                    if to_stop is not None:
                        # helper-queue kind as `__init__` chooses it: multiprocessing queues when the
                        # data queue is not a plain thread queue -- which includes every queue wrapped
                        # in a ResponsiveQueue, i.e. whenever `to_stop` is given
                        t = FeedTok(which, old.maxsize, list(old.queue))
                    else:
                        t = LogTok(which, old.maxsize)
                        for z in list(old.queue):
                            t.put(z)
                    toks[which] = t
                for which, t in toks.items():
                    setattr(iq, f'_{which}_lids', t)
                    t.on = True
                state['fine'] = True
                state['toks'] = toks
            except AttributeError:
                state['fine'] = False
        sstat = ['i'] * m
        cstat = ['f'] * n
        renewed = 0
        rstat = 'off'
        probes = []
        err = []

        def sup(i, r, hold, early=False):
            try:
                if early:
                    log(('early', i))       # from here on the run is outside the modelled protocol
                for x in case['items'][r][i]:
                    log(('pbeg', i, x))
                    state[('sop', i)] = detsched.now()
                    iq.put(_wrap(x))
                if hold:
                    return
                state[('sop', i)] = detsched.now()
                if early:
                    iq.put_end(wait_for_renew=True)
                else:
                    iq.put_end()
                sstat[i] = 'e'
            except StopRequested:
                log(('sstop', i))
                sstat[i] = 's'
                check_resp('S', i)
            except BaseException as e:  # noqa
                if isinstance(e, detsched.Abort):
                    raise
                err.append(('S%d' % i, repr(e)))

        def con(j, got):
            try:
                state[('cop', j)] = detsched.now()
                for z in iq:
                    got[j].append(_unwrap(z))
                    state[('cop', j)] = detsched.now()
                cstat[j] = 'd'
                need = m * (state['round'] + 1)
                if state['marks'] < need:
                    mon.append(dict(prop='C17', rule='ended-early',
                                    detail=f"round {state['round']}: consumer {j}'s iteration ended after receiving {got[j]} although only "
                                           f"{state['marks'] - need + m} of {m} suppliers had ended"))
            except StopRequested:
                log(('cstop', j))
                cstat[j] = 's'
                check_resp('C', j)
            except BaseException as e:  # noqa
                if isinstance(e, detsched.Abort):
                    raise
                err.append(('C%d' % j, repr(e)))

        def check_resp(kind, k):
            # C17 stop clause: StopRequested arrives within one wait interval of the later of the
            # stop request and the start of the blocking operation
            if state.get('cleanup'):
                return
            t = detsched.now()
            t_op = state.get(('sop' if kind == 'S' else 'cop', k), 0)
            t_stop = state['stop_at']
            if t_stop is None:
                mon.append(dict(prop='C17', rule='stop-spurious', detail=f'{kind}{k} raised StopRequested at t={t} without a stop request'))
            elif t > max(t_stop, t_op) + W:
                mon.append(dict(prop='C17', rule='stop-late', detail=f'{kind}{k} raised StopRequested at t={t}; stop at {t_stop}, operation began at {t_op}'))

        def stopper(plan):
            for _ in range(plan['yields']):
                detsched.yield_here('stopper')
            if plan['sleep']:
                time.sleep(plan['sleep'])
            state['stop_at'] = detsched.now()
            log(('setstop',))
            to_stop.set()

        rounds_n = case['rounds']
        late_plan = case.get('late') or [[] for _ in range(rounds_n)]
        early_plan = case.get('early') or [[] for _ in range(rounds_n)]
        early_threads = {}      # suppliers of the coming round that were started before `renew`
        try:
            for r in range(rounds_n):
                state['round'] = r
                stopping = stop_plan is not None and stop_plan['round'] == r
                late = set() if stopping else set(late_plan[r])
                got = [[] for _ in range(n)]
                rec = dict(put=[x for row in case['items'][r] for x in row], got=got, complete=False)
                rounds_log.append(rec)
                for i in range(m):
                    if i not in early_threads:
                        sstat[i] = 'i'
                for j in range(n):
                    cstat[j] = 'f'
                ts = [threading.Thread(target=sup, args=(i, r, stopping and i in case['hold_sup']), name=f'S{i}')
                      for i in range(m) if i not in early_threads]
                ts += [threading.Thread(target=con, args=(j, got), name=f'C{j}') for j in range(n)
                       if not (stopping and j in case['skip_con']) and j not in late]
                if stopping:
                    ts.append(threading.Thread(target=stopper, args=(stop_plan,), name='X'))
                order = list(range(len(ts)))
                random.Random(case['seed'] + r).shuffle(order)
                for k in order:
                    ts[k].start()
                for t in ts + list(early_threads.values()):
                    t.join()
                early_threads = {}
                p = probe(iq, logq)
                probes.append((len(ev), dict(p, cons=''.join(cstat), sups=''.join(sstat))))
                log(('probe', len(probes) - 1))
                if err:
                    break
                rec['complete'] = all(c == 'd' for j, c in enumerate(cstat) if j not in late) and all(c == 'e' for c in sstat)
                if not rec['complete']:
                    break
                rec['leftover'] = p
                nxt_early = list(early_plan[r]) if r < rounds_n - 1 else []
                if late or nxt_early:
                    # the round is over: late consumers iterate now, and suppliers of the next round may
                    # start already (items, then put_end(wait_for_renew=True)) -- all before `renew`
                    lts = [threading.Thread(target=con, args=(j, got), name=f'C{j}') for j in sorted(late)]
                    ets = {i: threading.Thread(target=sup, args=(i, r + 1, False, True), name=f'S{i}') for i in nxt_early}
                    both = lts + list(ets.values())
                    random.Random(case['seed'] + 7 * r + 3).shuffle(both)
                    for t in both:
                        t.start()
                    early_threads = ets
                    for t in lts:
                        t.join()
                    if err:
                        break
                    rec['complete'] = all(c == 'd' for c in cstat)
                    if not rec['complete']:
                        break
                    if late and not nxt_early:
                        p = probe(iq, logq)
                        probes.append((len(ev), dict(p, cons=''.join(cstat), sups=''.join(sstat))))
                        log(('probe', len(probes) - 1))
                if r < rounds_n - 1 or case['final_renew']:
                    log(('rstart',))
                    try:
                        iq.renew()
                        renewed += 1
                        sstat = ['i'] * m
                        cstat = ['f'] * n
                    except StopRequested:
                        log(('rstop',))
                        rstat = 'stopped'
                        break
                    except RuntimeError as e:
                        err.append(('renew', repr(e)))
                        rstat = 'failed'
                        break
                    if not nxt_early:
                        p = probe(iq, logq)
                        rec['after_renew'] = p
                        probes.append((len(ev), dict(p, round=renewed)))
                        log(('probe', len(probes) - 1))
        finally:
            if not detsched.SCHED.aborting:
                # release early suppliers still waiting for a renew that did not happen, stop the feeders
                if any(t.is_alive() for t in early_threads.values()) and to_stop is not None:
                    state['cleanup'] = True
                    to_stop.set()
                for t in early_threads.values():
                    t.join()
                for t in (state.get('toks') or {}).values():
                    if hasattr(t, 'close'):
                        t.close()
        final = probe(iq, logq)
        final.update(cons=''.join(cstat), sups=''.join(sstat), round=renewed, rpc=rstat)
        return dict(final=final, probes=probes, err=err)

    chooser = detsched.make_chooser(tuple(case['chooser']), case['seed'])
    v, e, s = detsched.run(main, chooser, max_steps=case.get('max_steps', 8000))
    res = dict(events=ev, steps=s.steps, switches=s.switches, monitors=mon, deq=deq, fine=state['fine'],
               trace=s.trace if case.get('keep_trace') else None)
    if e is not None:
        if isinstance(e, detsched.Deadlock):
            info = e.args[0] if e.args else None
            res['deadlock'] = str(info)
            mon.append(dict(prop='C17', rule='hang', detail=f'deadlock/livelock: {info}'))
        else:
            res['error'] = repr(e)
            mon.append(dict(prop='C17', rule='unexpected-exception', detail=repr(e)))
        res['final'] = None
        res['rounds'] = [dict(put=r['put'], got=r['got'], complete=r['complete']) for r in rounds_log]
        return res
    res['final'] = v['final']
    res['probes'] = v['probes']
    res['rounds'] = [dict(put=r['put'], got=r['got'], complete=r['complete'], leftover=r.get('leftover'),
                          after_renew=r.get('after_renew')) for r in rounds_log]
    for who, what in v['err']:
        mon.append(dict(prop='C17', rule='unexpected-exception', detail=f'{who}: {what}'))
    # ---- C17 evaluated on this run
    alldeq = [list(d) for d in deq]
    pos = [0] * n
    for r, rec in enumerate(rounds_log):
        flat = sorted(x for g in rec['got'] for x in g)
        put = sorted(rec['put'])
        if rec['complete']:
            if flat != put:
                mon.append(dict(prop='C17', rule='multiset', detail=f'round {r}: received {flat}, put {put}'))
        else:
            c = collections.Counter(put)
            c.subtract(flat)
            if any(v2 < 0 for v2 in c.values()):
                mon.append(dict(prop='C17', rule='multiset', detail=f'round {r} (stopped): received {flat} not within put {put}'))
        for j in range(n):
            g = rec['got'][j]
            if alldeq[j][pos[j]:pos[j] + len(g)] != g:
                mon.append(dict(prop='C17', rule='returned-not-dequeued', detail=f'round {r} consumer {j}: returned {g}, dequeued {alldeq[j][pos[j]:]}'))
            pos[j] += len(g)
        lo = rec.get('leftover')
        if rec['complete'] and lo is not None:
            if lo['qmarks'] != 1 or lo['qlen'] != 1:
                mon.append(dict(prop='C17', rule='leftover-markers', detail=f'round {r} over: queue holds {lo["qlen"]} entries, {lo["qmarks"]} end markers (expected exactly the one extra marker)'))
        ar = rec.get('after_renew')
        if ar is not None:
            if ar['qlen'] != 0 or ar.get('spare', m) != m or ar.get('applied', 0) != 0 or ar.get('used', 0) != 0:
                mon.append(dict(prop='C17', rule='renew-not-clean', detail=f'after renew of round {r}: {ar}'))
    for j in range(n):
        if pos[j] != len(alldeq[j]):
            mon.append(dict(prop='C17', rule='returned-not-dequeued', detail=f'consumer {j} dequeued {alldeq[j][pos[j]:]} but never returned it'))
    return res


def model_lines(cid, case, res):
    lines = [f'case {cid} m={case["m"]} n={case["n"]} cap={case["cap"]} w=1 fine={int(bool(res.get("fine")))} legacy={int(bool(case.get("legacy_model")))}']
    probes = res.get('probes') or []
    events = res['events']
    truncated = len(events) > 1200        # a livelock under polling: the prefix is enough
    for e in events[:1200]:
        if e[0] == 'early':
            # a supplier of the next round starts before `renew`: documented use, outside the modelled
            # protocol; the trace is validated up to here, the rest of the run is covered by monitors only
            truncated = True
            break
        if e[0] == 'probe':
            if e[1] < len(probes):
                lines.append('probe ' + ' '.join(f'{k}={v}' for k, v in probes[e[1]][1].items()))
            continue
        lines.append('e ' + ' '.join(str(x) for x in e))
    if res.get('final') is None or truncated:
        lines.append('end partial=1')
    else:
        lines.append('end ' + ' '.join(f'{k}={v}' for k, v in res['final'].items()))
    return lines


# --------------------------------------------------------------------------------------------------
# Timed calls: one blocked `put`/`get` with an explicit `timeout` (shorter than, equal to, longer than
# the wait interval, or none), on `IterableQueue.put` and on `ResponsiveQueue.put/get` directly, with
# a stop request and/or a rescue (the operation becomes possible) at generated moments.
# Times are in units of Q = 0.25 s; the wait interval is WQ = 4 units.  Timeouts and the start of the
# call are even, rescue times odd, so a rescue never coincides with a poll; a stop request may
# coincide with a poll (then the model allows both orders).
# --------------------------------------------------------------------------------------------------
Q = 0.25
WQ = 4


def gen_timed_case(rng: random.Random, tier: str):
    target = rng.choice(['iq.put', 'iq.put', 'rq.put', 'rq.get', 'rq.get'])
    T = rng.choice([None, None, 0, 2, 4, 6, 10, 12, 16, 80])     # own timeout: none, 0, .5, 1, 1.5, 2.5, 3, 4, 20 s
    nowait = T == 0 and target != 'iq.put' and rng.random() < 0.5  # block=False
    a = rng.choice([0, 0, 2, 4])                                   # the call starts at `a`
    s = rng.choice([None, 0, 1, 2, 3, 4, 5, 6, 8, 9, 12, 13, 14, 20])   # stop request at `s` (absolute)
    r = rng.choice([None, None, None, a + 1, a + 3, a + 5, a + 7, a + 11, a + 17])   # rescue at `r` (odd offset)
    if T is None and s is None and r is None:
        s = rng.choice([0, 2, 3, 4, 6, 9])
    ch = rng.choice([('random', 0.0), ('random', 0.0), ('sticky', 0.2, 0.0), ('pct', 2, 60, 0.0)])
    return dict(kind='timed', target=target, T=T, nowait=nowait, a=a, s=s, r=r, chooser=list(ch),
                seed=rng.randrange(1 << 30))


def timed_rel(case):
    """(T, s, r) relative to the start of the call, as the model takes them"""
    a = case['a']
    s = None if case['s'] is None else max(case['s'] - a, 0)
    r = None if case['r'] is None else case['r'] - a
    return case['T'], s, r


def run_timed_case(case):
    target, T, a, s, r = case['target'], case['T'], case['a'], case['s'], case['r']
    is_put = target.endswith('put')
    out = {}
    mon = []

    def main():
        to_stop = threading.Event()
        raw = queue.Queue(1 if is_put else 0)
        rq = ResponsiveQueue(raw, to_stop)
        iq = None
        if target == 'iq.put':
            iq = IterableQueue(raw, num_suppliers=1)    # thread mode (see run_case), then as __init__ does:
            iq._q = rq
            iq._to_stop = to_stop
        if is_put:
            raw.put('x0')

        def caller():
            if a:
                time.sleep(a * Q)
            out['t_op'] = detsched.now()
            try:
                if target == 'iq.put':
                    iq.put('x1') if T is None else iq.put('x1', timeout=T * Q)
                elif target == 'rq.put':
                    if case['nowait']:
                        rq.put('x1', block=False)
                    else:
                        rq.put('x1') if T is None else rq.put('x1', timeout=T * Q)
                else:
                    if case['nowait']:
                        out['value'] = rq.get(block=False)
                    else:
                        out['value'] = rq.get() if T is None else rq.get(timeout=T * Q)
                out['how'] = 'ok'
            except StopRequested:
                out['how'] = 'stop'
            except (queue.Full, queue.Empty) as e:
                out['how'] = 'expire'
                out['exc'] = type(e).__name__
            out['t_end'] = detsched.now()

        def stopper():
            if s:
                time.sleep(s * Q)
            out['t_stop'] = detsched.now()
            to_stop.set()

        def rescuer():
            time.sleep(r * Q)
            if is_put:
                raw.get()
            else:
                raw.put('y')

        ts = [threading.Thread(target=caller, name='K')]
        if s is not None:
            ts.append(threading.Thread(target=stopper, name='X'))
        if r is not None:
            ts.append(threading.Thread(target=rescuer, name='R'))
        random.Random(case['seed']).shuffle(ts)
        for t in ts:
            t.start()
        for t in ts:
            t.join()
        return list(raw.queue)

    chooser = detsched.make_chooser(tuple(case['chooser']), case['seed'])
    v, e, sch = detsched.run(main, chooser, max_steps=case.get('max_steps', 4000))
    res = dict(events=[], steps=sch.steps, switches=sch.switches, monitors=mon, timed=None)
    if e is not None:
        info = e.args[0] if isinstance(e, detsched.Deadlock) and e.args else repr(e)
        mon.append(dict(prop='C17', rule='timed-hang' if isinstance(e, detsched.Deadlock) else 'unexpected-exception',
                        detail=f'{target}(timeout={T}): {info}; so far {out}'))
        return res
    how = out.get('how')
    t_end = int(round((out['t_end'] - out['t_op']) / Q))
    res['timed'] = [how, t_end]
    res['events'] = [[target, how, t_end]]
    Tm, sm, rm = timed_rel(case)
    what = f'{target}({"block=False" if case["nowait"] else "timeout=" + str(None if T is None else T * Q)})'
    # ---- C17 stop clause on this call (times in units of 0.25 s relative to the start of the call):
    # the call ends no later than its own timeout, the rescue, or one wait interval after the stop request;
    # StopRequested only after a stop request and within one interval of it; Full/Empty exactly at the timeout
    ends = [x for x in (Tm, rm, None if sm is None else sm + WQ) if x is not None]
    if t_end > min(ends):
        if sm is not None and min(ends) == sm + WQ:
            mon.append(dict(prop='C17', rule='timed-stop-late',
                            detail=f'{what} blocked since 0, stop requested at {sm * Q}s: ended with {how} at {t_end * Q}s, '
                                   f'later than one wait interval after the stop request'))
        else:
            mon.append(dict(prop='C17', rule='timed-late', detail=f'{what}: ended with {how} at {t_end * Q}s, expected by {min(ends) * Q}s'))
    if how == 'stop' and (sm is None or not (sm <= t_end <= sm + WQ)):
        mon.append(dict(prop='C17', rule='timed-stop-spurious', detail=f'{what}: StopRequested at {t_end * Q}s, stop requested at {sm}'))
    if how == 'expire' and t_end != Tm:
        mon.append(dict(prop='C17', rule='timed-expiry', detail=f'{what}: {out.get("exc")} at {t_end * Q}s, own timeout {Tm}'))
    if how == 'ok' and t_end != rm:
        mon.append(dict(prop='C17', rule='timed-ok', detail=f'{what}: returned at {t_end * Q}s, operation possible at {rm}'))
    # nothing is enqueued / dequeued by a call that raised
    exp_q = ([] if r is not None else ['x0']) + (['x1'] if how == 'ok' else []) if is_put else \
        ([] if (r is None or how == 'ok') else ['y'])
    if v != exp_q:
        mon.append(dict(prop='C17', rule='timed-queue-content', detail=f'{what} ended with {how}: queue holds {v}, expected {exp_q}'))
    return res


_run_iq_case = run_case


def run_case(case):     # noqa: F811  (dispatch on the case kind)
    if case.get('kind') == 'timed':
        return run_timed_case(case)
    return _run_iq_case(case)
