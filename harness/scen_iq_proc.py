"""
Scenario (sampled, OS schedule): `IterableQueue` over `mpservice.multiprocessing.Queue` with supplier
and consumer *processes*.  Serves C17's "processes sampled" part: the OS schedule is not
controlled, so no trace is validated; the run's outcome at every quiescent point is compared with
what the theorems predict for the model (`C17_exactly_once`, `C17_one_marker_left`,
`C17_renew_clean`): received multiset = put multiset per round, exactly one marker left after a
round, nothing left and all tokens back in `spare` after `renew`.

Each case runs in a fresh interpreter in its own session; the whole process group is killed
afterwards.  Hang bounds are explicit: the child reports a `hang` when a worker process has not
finished `JOIN_BOUND` seconds after start (typical: < 2 s); if the child itself does not answer
within `OUTER_BOUND` the case is a harness problem (exit 2), never a violation.

Not imported under the deterministic scheduler (`sched=False`).
"""
import json
import os
import random
import signal
import subprocess
import sys
from pathlib import Path

JOIN_BOUND = 40.0
OUTER_BOUND = 150.0
REPO = os.environ.get('VERIF_REPO', '/repo')


def gen_case(rng: random.Random, tier: str):
    m = rng.choice([1, 2, 3])
    n = rng.choice([2, 2, 3])
    rounds = rng.choice([1, 2])
    cap = rng.choice([0, 1, 2, 5])
    items = [[[1000 * r + 100 * i + j for j in range(rng.choice([0, 1, 3, 6]))] for i in range(m)]
             for r in range(rounds)]
    return dict(m=m, n=n, cap=cap, rounds=rounds, items=items, final_renew=rng.random() < 0.5,
                seed=rng.randrange(1 << 30), chooser=['os'])


def gen_rt_case(rng: random.Random, tier: str):
    """real threads over a plain `queue.Queue` WITH a stop event (never set): `IterableQueue` then uses
    multiprocessing helper queues (pipes + feeder threads).  Suppliers start staggered (0.3 s apart),
    the consumers iterate at once, so a consumer is right behind a supplier that has just ended."""
    m = rng.choice([2, 2, 3])
    n = rng.choice([1, 1, 2])
    return dict(kind='rt', m=m, n=n, cap=rng.choice([0, 0, 2]), rounds=1,
                items=[[[100 * i + j for j in range(rng.choice([1, 1, 2]))] for i in range(m)]],
                final_renew=rng.random() < 0.7, seed=rng.randrange(1 << 30), chooser=['os'])


def nontrivial(case, res):
    return case['m'] + case['n'] >= 3 and any(any(row) for row in case['items'])


def run_case(case):
    env = dict(os.environ, PYTHONPATH=str(Path(REPO) / 'src'))
    p = subprocess.Popen([sys.executable, __file__, json.dumps(case)], stdout=subprocess.PIPE,
                         stderr=subprocess.PIPE, stdin=subprocess.DEVNULL, text=True, env=env,
                         start_new_session=True)
    try:
        out, err = p.communicate(timeout=OUTER_BOUND)
    except subprocess.TimeoutExpired:
        _killpg(p)
        raise RuntimeError(f'process scenario did not answer within {OUTER_BOUND}s (harness problem)')
    finally:
        _killpg(p)
    line = [l for l in out.splitlines() if l.startswith('RESULT ')]
    if not line:
        raise RuntimeError(f'process scenario produced no result: rc={p.returncode} stderr={err[-800:]}')
    r = json.loads(line[-1][7:])
    mon = []
    m = case['m']
    for k, rec in enumerate(r['rounds']):
        if rec.get('hang'):
            mon.append(dict(prop='C17', rule='hang', detail=(f'round {k}: threads still blocked 15 s after start (released by a stop request): {rec["hang"]}; received {rec["got"]}'
                                                            if case.get('kind') == 'rt' else
                                                            f'round {k}: processes still alive after {JOIN_BOUND}s: {rec["hang"]}')))
            continue
        if rec.get('errors'):
            mon.append(dict(prop='C17', rule='unexpected-exception', detail=f'round {k}: {rec["errors"]}'))
        if rec.get('ended_early'):
            mon.append(dict(prop='C17', rule='ended-early', detail=f'round {k}: consumer iteration(s) ended before every supplier had ended: '
                                                                   f'{rec["ended_early"]}; received {rec["got"]}'))
        got = sorted(x for g in rec['got'] for x in g)
        if got != sorted(rec['put']):
            mon.append(dict(prop='C17', rule='multiset', detail=f'round {k}: received {got}, put {sorted(rec["put"])}'))
        lo = rec.get('leftover')
        if lo is not None and (lo['marks'] != 1 or lo['items'] != 0):
            mon.append(dict(prop='C17', rule='leftover-markers', detail=f'round {k} over: {lo} (expected exactly one marker)'))
        tk = rec.get('tokens')
        if tk is not None and tk != [0, 0, m]:
            mon.append(dict(prop='C17', rule='leftover-markers', detail=f'round {k} over: token queues (spare, applied, used) = {tk}'))
        ar = rec.get('after_renew')
        if ar is not None and (ar['qsize'] != 0 or ar['tokens'] not in (None, [m, 0, 0])):
            mon.append(dict(prop='C17', rule='renew-not-clean', detail=f'after renew of round {k}: {ar}'))
        if rec.get('renew_error'):
            mon.append(dict(prop='C17', rule='unexpected-exception', detail=f'renew after round {k}: {rec["renew_error"]}'))
    return dict(events=[['round', k, sorted(map(len, rec.get('got', [])))] for k, rec in enumerate(r['rounds'])],
                monitors=mon, rounds=r['rounds'], switches=1)


def _killpg(p):
    try:
        os.killpg(p.pid, signal.SIGKILL)
    except (ProcessLookupError, PermissionError):
        pass


# ------------------------------------------------------------------------------------------------
# child: runs the real code
# ------------------------------------------------------------------------------------------------

def _sup(iq, xs, errq, i):
    try:
        for x in xs:
            iq.put(x)
        iq.put_end()
    except BaseException as e:  # noqa
        errq.put(('S%d' % i, repr(e)))


def _con(iq, outq, errq, j):
    try:
        got = []
        for z in iq:
            got.append(z)
        outq.put((j, got))
    except BaseException as e:  # noqa
        errq.put(('C%d' % j, repr(e)))
        outq.put((j, None))


def _child(case):
    import queue as _q
    import time

    import mpservice.multiprocessing as mp
    from mpservice.queue import IterableQueue

    m, n = case['m'], case['n']
    data = mp.Queue(maxsize=case['cap'])
    iq = IterableQueue(data, num_suppliers=m)
    outq, errq = mp.Queue(), mp.Queue()
    rounds = []
    for r in range(case['rounds']):
        rec = dict(put=[x for row in case['items'][r] for x in row], got=[[] for _ in range(n)])
        rounds.append(rec)
        ps = [mp.Process(target=_sup, args=(iq, case['items'][r][i], errq, i), name=f'S{i}') for i in range(m)]
        ps += [mp.Process(target=_con, args=(iq, outq, errq, j), name=f'C{j}') for j in range(n)]
        random.Random(case['seed'] + r).shuffle(ps)
        for p in ps:
            p.start()
        t_end = time.monotonic() + JOIN_BOUND
        for p in ps:
            p.join(max(0.0, t_end - time.monotonic()))
        alive = [p.name for p in ps if p.is_alive()]
        if alive:
            rec['hang'] = alive
            for p in ps:
                if p.is_alive():
                    p.kill()
            break
        for _ in range(n):
            try:
                j, got = outq.get(timeout=5)
            except _q.Empty:
                break
            rec['got'][j] = got if got is not None else []
        errs = []
        while True:
            try:
                errs.append(list(errq.get(timeout=0.2)))
            except _q.Empty:
                break
        if errs:
            rec['errors'] = errs
            break
        rec['tokens'] = _tokens(iq)
        last = r == case['rounds'] - 1
        if not last or case['final_renew']:
            rec['qsize_before_renew'] = data.qsize()
            if data.qsize() != 1:
                # count what is there (destructive; the run ends here)
                rec['leftover'] = _drain(data)
                break
            try:
                iq.renew()
            except BaseException as e:  # noqa
                rec['renew_error'] = repr(e)
                break
            time.sleep(0.05)
            rec['after_renew'] = dict(qsize=data.qsize(), tokens=_tokens(iq))
        else:
            rec['leftover'] = _drain(data)
    print('RESULT ' + json.dumps(dict(rounds=rounds)), flush=True)


def _child_rt(case):
    import queue as _q
    import threading
    import time

    from mpservice._common import StopRequested
    from mpservice.queue import IterableQueue

    m, n = case['m'], case['n']
    marks = [0]

    class CountQueue(_q.Queue):
        def _put(self, x):
            if x is None and threading.current_thread().name.startswith('S'):
                marks[0] += 1
            super()._put(x)

    raw = CountQueue(case['cap'])
    to_stop = threading.Event()
    iq = IterableQueue(raw, num_suppliers=m, to_stop=to_stop)
    time.sleep(0.2)      # let the helper queues' feeder threads flush the initial tokens
    rec = dict(put=[x for row in case['items'][0] for x in row], got=[[] for _ in range(n)])
    errs, early = [], []

    def sup(i):
        try:
            time.sleep(0.3 * i)
            for x in case['items'][0][i]:
                iq.put(x)
            iq.put_end()
        except BaseException as e:  # noqa
            errs.append(['S%d' % i, repr(e)])

    def con(j):
        try:
            for z in iq:
                rec['got'][j].append(z)
            if marks[0] < m:
                early.append([j, marks[0]])
        except StopRequested:
            errs.append(['C%d' % j, 'blocked until the watchdog requested a stop'])
        except BaseException as e:  # noqa
            errs.append(['C%d' % j, repr(e)])

    ts = [threading.Thread(target=sup, args=(i,), name=f'S{i}') for i in range(m)]
    ts += [threading.Thread(target=con, args=(j,), name=f'C{j}') for j in range(n)]
    for t in ts:
        t.start()
    t_end = time.monotonic() + 15.0
    for t in ts:
        t.join(max(0.0, t_end - time.monotonic()))
    if any(t.is_alive() for t in ts):
        to_stop.set()
        for t in ts:
            t.join(5)
        rec['hang'] = [t.name for t in ts if t.is_alive()] or ['released by the watchdog']
    if errs:
        rec['errors'] = errs
    if early:
        rec['ended_early'] = early
    if not rec.get('hang') and not errs:
        rec['tokens'] = _tokens(iq)
        if case['final_renew']:
            try:
                iq.renew()
                time.sleep(0.05)
                rec['after_renew'] = dict(qsize=raw.qsize(), tokens=_tokens(iq))
            except BaseException as e:  # noqa
                rec['renew_error'] = repr(e)
        else:
            rec['leftover'] = dict(marks=sum(1 for z in raw.queue if z is None), items=sum(1 for z in raw.queue if z is not None))
    print('RESULT ' + json.dumps(dict(rounds=[rec])), flush=True)


def _tokens(iq):
    """sizes of the three private token queues, or None if they cannot be found"""
    try:
        return [iq._spare_lids.qsize(), iq._applied_lids.qsize(), iq._used_lids.qsize()]
    except AttributeError:
        return None


def _drain(data):
    import queue as _q
    marks = items = 0
    while True:
        try:
            z = data.get(timeout=0.3)
        except _q.Empty:
            break
        if z is None:
            marks += 1
        else:
            items += 1
    return dict(marks=marks, items=items)


if __name__ == '__main__':
    _case = json.loads(sys.argv[1])
    (_child_rt if _case.get('kind') == 'rt' else _child)(_case)
    sys.stdout.flush()
    os._exit(0)
