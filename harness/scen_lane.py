"""
Scenario: the real `mpservice._queues.SingleLane` under the deterministic scheduler.

One writer thread and one reader thread (the documented usage; `nw`/`nr` > 1 only in the record-only
multi-writer suite) drive one lane with generated call sequences: every call is blocking, non-blocking or
timed; timed waits may expire early at scheduler-chosen moments.  Serves C01 (FIFO, nothing lost / duplicated /
invented, no `IndexError`, no spurious `Empty`) and C08 (the deque never exceeds `maxsize`, no spurious `Full`,
a blocked call is released, nobody hangs with a live peer).

What runs: `SingleLane` from /repo unchanged; its `deque` is a logging subclass (so the linearisation points
`append` / `popleft` are observed), its `threading.Lock` is the scheduler's lock, and its
`threading.Condition` is — for `cond='cpython'` — the **source text of the running interpreter's own
`threading.Condition` class** executed over the scheduler's locks (so `wait`/`notify`, the waiter list and the
order "re-acquire the mutex, then remove a timed-out waiter" are CPython's, not a re-implementation), or — for
`cond='detsched'` — the scheduler's simplified condition that all the other scenarios use.

Events (`drv lane`): ('call', t, mode, x, qlen) ('act', t, x, qlen) ('actu', t, qlen) ('ret', t, res, v, qlen);
mode 0/1/2 = blocking / non-blocking / timed; res 0/1/2/3 = returned / Full / Empty / IndexError.

Must be imported in workers only after `detsched.install()`; the parent imports it for the pure helpers.
"""
import _thread
import ast
import collections
import random

import detsched

MODEL = 'lane'
CRASH_PROPS = ('C01', 'C08')

MODES = {'block': 0, 'nowait': 1, 'timed': 2}
_CPY = {}


def cpython_condition():
    """`class Condition` of the running interpreter's Lib/threading.py, compiled from its source text into a
    namespace in which the lock allocator is the scheduler's lock and the clock is virtual."""
    if 'cls' not in _CPY:
        import threading
        path = threading.__file__
        src = open(path).read()
        tree = ast.parse(src)
        node = next(n for n in tree.body if isinstance(n, ast.ClassDef) and n.name == 'Condition')
        code = ast.get_source_segment(src, node)
        ns = dict(vars(threading))
        ns.update(_allocate_lock=detsched.Lock, Lock=detsched.Lock, RLock=detsched.RLock, _time=detsched.v_now,
                  _deque=collections.deque, __name__='cpython_threading_condition')
        exec(compile(code, path + ':Condition', 'exec'), ns)
        cls = ns['Condition']
        for meth in ('wait', 'notify', '_is_owned', '_release_save', '_acquire_restore'):
            assert meth in vars(cls), meth
        _CPY['cls'] = cls
    return _CPY['cls']


def _calls(rng, n, modes, gaps=(0, 0, 0, 1, 3)):
    out = []
    for _ in range(n):
        m = rng.choice(modes)
        to = None
        if m == 'timed':
            to = rng.choice([0, 1, 1, 2, 5])
        out.append([m, to, rng.choice(gaps)])
    return out


def gen_case(rng: random.Random, tier: str, bias: str = ''):
    """bias in {'', 'order', 'bound'}"""
    big = tier == 'thorough'
    maxsize = rng.choice([0, 1, 1, 2, 2, 3])
    nmax = 14 if big else 8
    nw = rng.randrange(0, nmax + 1)
    nr = rng.randrange(0, nmax + 1)
    wm = rng.choice([['block'], ['block', 'block', 'nowait', 'timed'], ['nowait', 'timed'], ['block', 'timed'],
                     ['block', 'nowait', 'timed']])
    rm = rng.choice([['block'], ['block', 'block', 'nowait', 'timed'], ['nowait', 'timed'], ['block', 'timed'],
                     ['block', 'nowait', 'timed']])
    if bias == 'order':
        nw = max(nw, 4)
        nr = max(nr, nw - (maxsize or 2))
    if bias == 'bound':
        maxsize = rng.choice([1, 1, 2, 3])
        nw = max(nw, maxsize + 2)
    ep = rng.choice([0.0, 0.05, 0.2, 0.5])
    ch = rng.choice([('random', ep), ('random', ep), ('sticky', 0.2, ep), ('sticky', 0.05, ep),
                     ('pct', 2, 150, ep), ('pct', 3, 150, ep)])
    return dict(kind='lane', maxsize=maxsize, writers=[_calls(rng, nw, wm)], readers=[_calls(rng, nr, rm)],
                cond=rng.choice(['cpython', 'cpython', 'cpython', 'detsched']), chooser=list(ch),
                seed=rng.randrange(1 << 30))


def gen_case_multi(rng: random.Random, tier: str):
    """two writers on one lane (how `SocketClient` uses it): outside the property, recorded only"""
    maxsize = rng.choice([1, 1, 2])
    ep = rng.choice([0.0, 0.05, 0.2])
    ch = rng.choice([('random', ep), ('random', ep), ('sticky', 0.2, ep), ('pct', 3, 150, ep)])
    wm = rng.choice([['block'], ['block', 'block', 'nowait'], ['block', 'timed']])
    return dict(kind='multi', maxsize=maxsize,
                writers=[_calls(rng, rng.randrange(2, 6), wm), _calls(rng, rng.randrange(2, 6), wm)],
                readers=[_calls(rng, rng.randrange(3, 9), ['block', 'block', 'timed'])],
                cond='cpython', chooser=list(ch), seed=rng.randrange(1 << 30))


def nontrivial(case, res):
    n = sum(len(x) for x in case['writers']) + sum(len(x) for x in case['readers'])
    return n >= 2 and res.get('switches', 0) >= 1


def item(w, k):
    """the k-th item of writer w (all distinct, never 0)"""
    return 1000 * (w + 1) + k


def run_case(case):
    import threading
    import mpservice._queues as _Q
    from queue import Empty, Full

    ev = []
    log = ev.append
    tids = {}
    nw, nr = len(case['writers']), len(case['readers'])
    maxsize = case['maxsize']
    done = [False] * (nw + nr)
    cur = [None] * (nw + nr)          # the call a thread is in: (k, mode, timeout, virtual start time)
    box = {}

    def me():
        return tids.get(_thread.get_ident(), -1)

    class LogDeque(collections.deque):
        """the lane's deque; every insertion / removal is an observable event of the calling thread"""

        def append(self, x):
            collections.deque.append(self, x)
            log(('act', me(), x, len(self)))

        def appendleft(self, x):
            collections.deque.appendleft(self, x)
            log(('act', me(), x, len(self)))

        def popleft(self):
            try:
                x = collections.deque.popleft(self)
            except IndexError:
                log(('actu', me(), len(self)))
                raise
            log(('act', me(), x, len(self)))
            return x

        def pop(self):
            try:
                x = collections.deque.pop(self)
            except IndexError:
                log(('actu', me(), len(self)))
                raise
            log(('act', me(), x, len(self)))
            return x

    def thread_body(t, calls):
        tids[_thread.get_ident()] = t
        try:
            calls_loop(t, calls)
        except BaseException:
            # unwinding a parked thread at the end of a run (`Abort` inside `wait`) makes the `with` block
            # release a mutex it does not hold: not an event of the run
            if not detsched.SCHED.aborting:
                raise

    def calls_loop(t, calls):
        lane = box['lane']
        writer = t < nw
        for k, (mode, timeout, gap) in enumerate(calls):
            for _ in range(gap):
                detsched.yield_here('gap')
            x = item(t, k) if writer else 0
            cur[t] = (k, mode, timeout, detsched.now())
            log(('call', t, MODES[mode], x, len(lane._queue), detsched.now()))
            res, v = 0, x
            try:
                if writer:
                    if mode == 'block':
                        lane.put(x)
                    elif mode == 'nowait':
                        lane.put(x, False) if k % 2 else lane.put_nowait(x)
                    else:
                        lane.put(x, timeout=timeout)
                else:
                    if mode == 'block':
                        v = lane.get()
                    elif mode == 'nowait':
                        v = lane.get(False) if k % 2 else lane.get_nowait()
                    else:
                        v = lane.get(timeout=timeout)
            except Full:
                res = 1
            except Empty:
                res, v = 2, 0
            except IndexError:
                res, v = 3, 0
            log(('ret', t, res, v, len(lane._queue), k, detsched.now()))
            cur[t] = None
        done[t] = True

    def main():
        saved = (threading.Condition, _Q.deque)
        try:
            if case.get('cond', 'cpython') == 'cpython':
                threading.Condition = cpython_condition()
            _Q.deque = LogDeque
            box['lane'] = _Q.SingleLane(maxsize)
        finally:
            threading.Condition, _Q.deque = saved
        assert type(box['lane']._queue) is LogDeque
        ths = [threading.Thread(target=thread_body, args=(t, calls), name=f'lane-{t}')
               for t, calls in enumerate(case['writers'] + case['readers'])]
        for th in ths:
            th.start()
        for th in ths:
            th.join()
        return True

    chooser = detsched.make_chooser(tuple(case['chooser']), case['seed'])
    v, e, s = detsched.run(main, chooser, max_steps=case.get('max_steps', 20000))
    lane = box.get('lane')
    left = list(lane._queue) if lane is not None else []
    res = dict(events=[list(x[:5]) if x[0] in ('ret', 'call') else list(x) for x in ev], steps=s.steps, switches=s.switches,
               early=s.early_fires, left=left, done=list(done), monitors=[], out=None, end=None)
    mon = res['monitors']
    multi = case['kind'] == 'multi'

    def alarm(prop, rule, detail):
        if not multi:
            mon.append(dict(prop=prop, rule=rule, detail=detail))

    deadlock = False
    if e is not None:
        if isinstance(e, detsched.Deadlock) and e.args and e.args[0] != 'max_steps':
            deadlock = True
            res['deadlock'] = e.args[0]
        else:
            res['error'] = repr(e)
            alarm('C08', 'hang' if isinstance(e, detsched.Deadlock) else 'unexpected-exception', repr(e))
            alarm('C01', 'hang' if isinstance(e, detsched.Deadlock) else 'unexpected-exception', repr(e))
            return res
    res['end'] = 'parked' if deadlock else 'done'

    # ---- the property statements, evaluated on this run -------------------------------------------------
    appended, taken = [], []
    qmax = 0
    call_at = {}
    for x in ev:
        if x[0] == 'act':
            (appended if x[1] < nw else taken).append(x[2])
        if x[0] == 'call':
            call_at[x[1]] = x
        qlen = x[4] if x[0] in ('ret', 'call') else x[-1]
        qmax = max(qmax, qlen)
        if x[0] == 'actu':
            alarm('C01', 'underflow', f'popleft on an empty deque in thread {x[1]}')
        if x[0] == 'ret':
            _, t, r, val, qlen, k, now = x
            c = call_at[t]
            calls = (case['writers'] + case['readers'])[t]
            mode, timeout, _gap = calls[k]
            if r == 3:
                alarm('C01', 'underflow', f'get raised IndexError in thread {t}')
            if t < nw:
                if r == 2:
                    alarm('C08', 'wrong-exception', f'put raised Empty in thread {t}')
                if r == 1 and mode == 'block':
                    alarm('C08', 'spurious-full', f'blocking put raised Full (call {k})')
                if r == 1 and mode == 'nowait' and not (0 < maxsize <= c[4]):
                    # single writer: nobody else appends, so the deque was never longer than at the call
                    alarm('C08', 'spurious-full', f'put_nowait raised Full; deque had {c[4]} of {maxsize} at the call')
                if r == 1 and mode == 'timed' and now - c[5] < timeout - 1e-9:
                    alarm('C08', 'spurious-full', f'put(timeout={timeout}) raised Full after {now - c[5]}')
                if r == 0 and appended.count(val) != 1:
                    alarm('C01', 'exactly-once', f'put({val}) returned; appended {appended.count(val)} times')
                if r == 1 and val in appended:
                    alarm('C01', 'exactly-once', f'put({val}) raised Full but the item was appended')
            else:
                if r == 1:
                    alarm('C01', 'wrong-exception', f'get raised Full in thread {t}')
                if r == 2 and mode == 'block':
                    alarm('C01', 'spurious-empty', f'blocking get raised Empty (call {k})')
                if r == 2 and mode == 'nowait' and c[4] != 0:
                    alarm('C01', 'spurious-empty', f'get_nowait raised Empty; deque had {c[4]} at the call')
                if r == 2 and mode == 'timed' and now - c[5] < timeout - 1e-9:
                    alarm('C01', 'spurious-empty', f'get(timeout={timeout}) raised Empty after {now - c[5]}')
                if r == 0 and (not taken or taken[-1] != val):
                    alarm('C01', 'fifo', f'get returned {val}; the last element taken was {taken[-1:]}')
    res['qmax'] = qmax
    res['overshoot'] = max(0, qmax - maxsize) if maxsize > 0 else 0
    if maxsize > 0 and qmax > maxsize:
        alarm('C08', 'bound', f'deque length {qmax} > maxsize {maxsize}')
    if taken != appended[:len(taken)]:
        alarm('C01', 'fifo', f'taken {taken} is not a prefix of appended {appended}')
    elif taken + left != appended:
        alarm('C01', 'exactly-once', f'taken {taken} + left {left} != appended {appended}')
    if deadlock:
        # legitimately parked for ever: a blocking put on a full deque / a blocking get on an empty one whose
        # every peer has finished.  Anything else is a hang (lost wake-up).
        for t in range(nw + nr):
            if done[t]:
                continue
            writer = t < nw
            peers_done = all(done[nw:]) if writer else all(done[:nw])
            cond_false = (0 < maxsize <= len(left)) if writer else len(left) == 0
            c = cur[t]
            if not (c and c[1] == 'block' and peers_done and cond_false):
                for prop in ('C08', 'C01'):
                    alarm(prop, 'hang', f'thread {t} stuck in call {c} with deque {left} (maxsize {maxsize}), '
                                        f'done={done}: {res["deadlock"]}')
    res['out'] = [appended, taken]
    return res


def model_lines(cid, case, res):
    nw, nr = len(case['writers']), len(case['readers'])
    lines = [f'case {cid} maxsize={case["maxsize"]} nw={nw} nr={nr}']
    for e in res['events']:
        lines.append('e ' + ' '.join(str(x) for x in e))
    if res.get('end') is None:
        lines.append('end partial=1')
        return lines
    thr = ''.join('i' if d else 'p' for d in res['done'])
    nput = sum(1 for e in res['events'] if e[0] == 'act' and e[1] < nw)
    ngot = sum(1 for e in res['events'] if e[0] == 'act' and e[1] >= nw)
    lines.append(f'end thr={thr} q={len(res["left"])} put={nput} got={ngot}')
    return lines
