"""
Scenario: life cycle of `Server` over thread-servlet trees under the deterministic scheduler (C11).

One case = servlet tree + optional failing worker (servlet index, worker index) + two workloads:
    [enter with the failing worker armed -> must raise that worker's error and leave no thread]
    enter -> workload 1 (calls incl. failing and timed-out ones, streams abandoned early) -> exit
    -> re-enter the same Server object -> workload 2 + a follow-up call that must be answered -> exit.
Thread accounting is exact (the scheduler knows every thread).  Every put/get on the servlet queues and
every join of the main thread is recorded at the instant it takes effect and replayed through the Lean model
(`drv lifecycle`, kind=stop); the start-up order / error / surviving threads are compared with `startServer`
(kind=start).

Import only after `detsched.install()` in workers.
"""
import asyncio
import random
import threading

import detsched

import mpservice.threading as mp_threading
from mpservice.mpserver import (AsyncServer, EnsembleServlet, SequentialServlet, Server, ServerBacklogFull, SwitchServlet,
                                ThreadServlet, TimeoutError, Worker)
from mpservice.mpserver._worker import _SimpleThreadQueue
from mpservice.multiprocessing.remote_exception import EnsembleError
from mpservice.threading import Thread

MODEL = 'lifecycle'
FOREVER = 1e6

# ------------------------------------------------------------------------------------------------
# trees:  ['T', k] | ['S', a, b] | ['E', a, b] | ['W', a, b]
# ------------------------------------------------------------------------------------------------


def tsize(t):
    return 1 if t[0] in 'TP' else 1 + tsize(t[1]) + tsize(t[2])


def tokens(t):
    if t[0] in 'TP':
        return [f'{t[0]}{t[1]}']
    return [t[0]] + tokens(t[1]) + tokens(t[2])


def workers_of(t, sv=0):
    """[(sv, w)] in launch order (mirror of Lifecycle.workers)"""
    if t[0] in 'TP':
        return [(sv, j) for j in range(t[1])]
    return workers_of(t[1], sv + 1) + workers_of(t[2], sv + 1 + tsize(t[1]))


def gen_tree(rng, depth, big=False):
    r = rng.random()
    if depth <= 0 or r < 0.35:
        return ['T', rng.choice([1, 1, 2, 2, 3] if not big else [1, 2, 3, 4])]
    kind = rng.choice(['S', 'S', 'E', 'W'])
    return [kind, gen_tree(rng, depth - 1, big), gen_tree(rng, depth - 1, big)]


def gen_workload(rng, r0, nsv, big, heavy=False):
    """heavy: long service times, long streams abandoned after the first result, short deadlines — so that
    `__exit__` begins while many requests are still in the pipeline"""
    callers = []
    r = r0
    durs = [0, 1, 2, 4] if not heavy else [4, 8, 16]
    for _ in range(rng.choice([1, 2, 2, 3] if not big else [2, 3, 4])):
        if rng.random() < (0.4 if not heavy else 0.7):
            n = rng.choice(([1, 2, 3, 5] if not big else [2, 4, 7]) if not heavy else [3, 5, 8])
            items = []
            for _ in range(n):
                items.append(dict(r=r, dur=rng.choice(durs), failsv=rng.randrange(nsv) if rng.random() < 0.15 else -1))
                r += 1
            stop = rng.randrange(1, n + 1) if rng.random() < 0.6 else None
            callers.append(dict(kind='stream', items=items, rexc=rng.random() < 0.6, stop_after=1 if heavy else stop))
        else:
            reqs = []
            for _ in range(rng.choice([1, 1, 2])):
                reqs.append(dict(r=r, dur=rng.choice(durs + [8]),
                                 failsv=rng.randrange(nsv) if rng.random() < 0.2 else -1,
                                 timeout=rng.choice([0.5, 1.0, 2.0]) if rng.random() < (0.4 if not heavy else 0.8) else FOREVER))
                r += 1
            callers.append(dict(kind='call', reqs=reqs))
    return callers, r


def gen_case(rng: random.Random, tier: str, bias: str = ''):
    big = tier == 'thorough'
    tree = gen_tree(rng, rng.choice([0, 1, 1, 2, 2] if not big else [1, 2, 2, 3]), big)
    ws = workers_of(tree)
    fail = None
    if bias == 'start' or rng.random() < 0.35:
        fail = list(rng.choice(ws))
    nsv = tsize(tree)
    heavy = bias == 'residual' or rng.random() < 0.3
    w1, r = gen_workload(rng, 0, nsv, big, heavy)
    w2, r = gen_workload(rng, r, nsv, big, heavy and rng.random() < 0.5)
    early = rng.choice([0.0, 0.03, 0.08, 0.15]) if not heavy else rng.choice([0.08, 0.15, 0.3])
    ch = rng.choice([('random', early), ('random', early), ('sticky', 0.2, early), ('sticky', 0.05, early),
                     ('pct', 2, 800, early), ('pct', 3, 800, early)])
    return dict(tree=tree, fail=fail, cap=rng.choice([1, 2, 4, 8] if not heavy else [4, 8]), sessions=[w1, w2], nreq=r,
                flatten=rng.random() < 0.5, chooser=list(ch), seed=rng.randrange(1 << 30),
                **({'async': True} if rng.random() < 0.25 else {}))


def boundary_cases():
    """every worker index of a few fixed shapes fails; single worker; deep nesting"""
    out = []
    shapes = [['T', 1], ['T', 3], ['S', ['T', 2], ['T', 2]], ['E', ['T', 2], ['T', 1]], ['W', ['T', 1], ['T', 2]],
              ['S', ['T', 1], ['S', ['E', ['T', 1], ['T', 2]], ['T', 1]]],
              ['S', ['W', ['T', 2], ['S', ['T', 1], ['T', 1]]], ['T', 2]],
              ['E', ['S', ['T', 2], ['T', 1]], ['W', ['T', 1], ['T', 1]]]]
    k = 0
    for t in shapes:
        for f in [None] + workers_of(t):
            wl = [dict(kind='stream', items=[dict(r=i, dur=2, failsv=-1) for i in range(4)], rexc=True, stop_after=1),
                  dict(kind='call', reqs=[dict(r=4, dur=3, failsv=-1, timeout=0.5)])]
            wl2 = [dict(kind='call', reqs=[dict(r=5, dur=1, failsv=-1, timeout=FOREVER)])]
            out.append(dict(tree=t, fail=list(f) if f else None, cap=4, sessions=[wl, wl2], nreq=6, flatten=bool(k % 2),
                            chooser=['random', 0.08], seed=1000 + k, **({'async': True} if k % 3 == 2 else {})))
            k += 1
    return out


def nontrivial(case, res):
    return res.get('switches', 0) >= 1 and res.get('n_events', 0) >= 6


# ------------------------------------------------------------------------------------------------
# the real thing
# ------------------------------------------------------------------------------------------------

class InitError(Exception):
    pass


class WorkErr(Exception):
    def __init__(self, r):
        super().__init__(r)
        self.r = r


def norm(x):
    if isinstance(x, list):       # output of an ensemble
        ys = [norm(y) for y in x]
        return (ys[0][0], ys[0][1], ys[0][2], ('E',) + tuple(m for y in ys for m in y[3]))
    return x


class W(Worker):
    def __init__(self, *, sv, ctx, **kw):
        super().__init__(**kw)
        self.sv = sv
        ctx['log'](('init', sv, self.worker_index))
        if ctx['armed'] and ctx['fail'] == [sv, self.worker_index]:
            raise InitError(sv, self.worker_index)

    def call(self, x):
        r, dur, failsv, marks = norm(x)
        for _ in range(dur):
            detsched.yield_here('work')
        if failsv == self.sv:
            raise WorkErr(r)
        return (r, dur, failsv, marks + (self.sv,))


class Sw(SwitchServlet):
    def switch(self, x):
        return norm(x)[0] % 2


def build(t, sv, ctx, flatten):
    """-> real servlet for the model tree `t` whose pre-order index is `sv`"""
    if t[0] == 'T':
        return ThreadServlet(W, num_threads=t[1], worker_name=f'sv{sv}', sv=sv, ctx=ctx)
    a = build(t[1], sv + 1, ctx, flatten)
    b = build(t[2], sv + 1 + tsize(t[1]), ctx, flatten)
    if t[0] == 'S':
        if flatten and isinstance(b, SequentialServlet):
            return SequentialServlet(a, *b._servlets)      # n-ary sequence == right-nested binary ones
        return SequentialServlet(a, b)
    if t[0] == 'E':
        return EnsembleServlet(a, b)
    return Sw(a, b)


class Numbering:
    """mirror of Lifecycle.compileServer (chansT / nodesT): channel / node indices of the real queues / threads.
    Channels: 0 `_q_in`, 1 `_q_out`, then per subtree: sequence = the queue between the members; ensemble = in/out
    queue of member a, in/out queue of member b; switch = the members' input queues; then the members' own queues
    (a before b); last = onboarding buffer.  Nodes: members (a before b), then `_dequeue`, `_enqueue`; then gather,
    onboarding thread."""

    def __init__(self):
        self.q2c = {}
        self.t2n = {}
        self.t2tid = {}
        self.keep = []

    def chan(self, q):
        self.q2c[id(q)] = len(self.q2c)
        self.keep.append(q)
        return q

    def node(self, th, tid):
        self.t2n[id(th)] = len(self.t2n)
        self.t2tid[id(th)] = tid
        self.keep.append(th)


def label(t, sv, members, qs, N):
    """`members`: the real servlet for `t`, or (for a flattened sequence) the remaining members of the
    SequentialServlet together with its remaining intermediate queues `qs`"""
    if t[0] == 'T':
        (s,) = members
        for i, w in enumerate(s._workers):
            N.node(w, (sv, i))
    elif t[0] == 'S':
        if len(members) == 1:
            s = members[0]
            members, qs = list(s._servlets), list(s._qs)
        N.chan(qs[0])
        label(t[1], sv + 1, members[:1], [], N)
        label(t[2], sv + 1 + tsize(t[1]), members[1:], qs[1:], N)
    elif t[0] == 'E':
        (s,) = members
        N.chan(s._qins[0])
        N.chan(s._qouts[0])
        N.chan(s._qins[1])
        N.chan(s._qouts[1])
        label(t[1], sv + 1, [s._servlets[0]], [], N)
        label(t[2], sv + 1 + tsize(t[1]), [s._servlets[1]], [], N)
        N.node(s._threads[0], (sv, 100))
        N.node(s._threads[1], (sv, 101))
    else:
        (s,) = members
        N.chan(s._qins[0])
        N.chan(s._qins[1])
        label(t[1], sv + 1, [s._servlets[0]], [], N)
        label(t[2], sv + 1 + tsize(t[1]), [s._servlets[1]], [], N)
        N.node(s._thread_enqueue, (sv, 101))


def number_server(tree, srv):
    N = Numbering()
    N.chan(srv._q_in)
    N.chan(srv._q_out)
    label(tree, 0, [srv.servlet], [], N)
    N.node(srv._gather_thread, (1000, 1))
    N.keep_gather = srv._gather_thread
    if srv._onboard_thread is not None:
        N.chan(srv._input_buffer)
        N.node(srv._onboard_thread, (1000, 0))
    return N


_patched = {}


def _patch(raw):
    """record queue operations and joins at the instant they take effect (put: before the append, which
    is immediate; get: right after the pop; no scheduling point in between)"""
    if _patched:
        _patched['raw'] = raw
        return
    _patched['raw'] = raw
    base_put = _SimpleThreadQueue.put
    base_get = _SimpleThreadQueue.get
    base_join = mp_threading.Thread.join

    def put(self, x, *a, **k):
        _patched['raw'](('put', id(threading.current_thread()), id(self), x is None))
        return base_put(self, x, *a, **k)

    def get(self, *a, **k):
        x = base_get(self, *a, **k)
        _patched['raw'](('get', id(threading.current_thread()), id(self), x is None))
        return x

    def join(self, timeout=None):
        try:
            return base_join(self, timeout)
        finally:
            if not self.is_alive():
                _patched['raw'](('join', id(threading.current_thread()), id(self), False))

    _SimpleThreadQueue.put = put
    _SimpleThreadQueue.get = get
    mp_threading.Thread.join = join


def translate(raw, N, main_id):
    """raw queue/join records of one session -> model events"""
    out = []
    for kind, th, obj, isnone in raw:
        n = N.t2n.get(th)
        if kind == 'join':
            if th == main_id and obj in N.t2n:
                out.append(f'mjoin {N.t2n[obj]}')
            continue
        c = N.q2c.get(obj)
        if c is None:
            continue            # a queue of another session / not a servlet queue
        if n is not None:
            out.append(f'{kind} {n} {c} {int(isnone)}')
        elif kind == 'put' and isnone and th == main_id:
            out.append(f'mput {c}')
        elif kind == 'put' and not isnone:
            out.append('inject' if c == N.entry else f'bad-inject {c}')
        else:
            out.append(f'bad {kind} {c} {int(isnone)}')
    return out


def run_case(case):
    raw = []
    ev = []
    ctx = dict(log=ev.append, fail=case['fail'], armed=False)
    _patch(raw.append)
    tree = case['tree']
    st = dict(phase='init', sessions=[], start=None)
    outcomes = {}

    def live(base):
        return [ts for ts in detsched.SCHED.order if not ts.done and ts.tid not in base]

    def main():
        base = {ts.tid for ts in detsched.SCHED.order if not ts.done}
        main_id = id(threading.current_thread())
        srv = Server(build(tree, 0, ctx, case['flatten']), capacity=case['cap'])
        mon = []

        # ---- failing start ---------------------------------------------------------------------
        if case['fail'] is not None:
            st['phase'] = 'enter-fail'
            ctx['armed'] = True
            del ev[:]
            err = 'none'
            try:
                srv.__enter__()
                err = 'none'
                srv.__exit__(None, None, None)
            except InitError as e:
                err = f'{e.args[0]}:{e.args[1]}'
            except BaseException as e:  # noqa
                if isinstance(e, detsched.Abort):
                    raise
                err = 'other:' + repr(e)
            ctx['armed'] = False
            left = live(base)
            st['start'] = dict(err=err, launched=[(e[1], e[2]) for e in ev if e[0] == 'init'],
                               alive=sorted(ts.name for ts in left))
            want = f'{case["fail"][0]}:{case["fail"][1]}'
            if err != want:
                mon.append(dict(prop='C11', rule='start-error', detail=f'__enter__ raised {err}, the failing worker is {want}'))
            if left:
                mon.append(dict(prop='C11', rule='start-leak',
                                detail=f'threads still running after the failed __enter__: {sorted(ts.name for ts in left)}'))
                return mon      # the leaked workers hold the queues; nothing more to learn from this case

        # ---- two sessions on the same Server object ---------------------------------------------
        for k, workload in enumerate(case['sessions']):
            st['phase'] = f'enter{k}'
            del raw[:]
            del ev[:]
            srv.__enter__()
            N = number_server(tree, srv)
            N.entry = N.q2c[id(srv._input_buffer)]
            sess = dict(N=N, main_id=main_id, final=0, ledger=None, raw=None)
            st['sessions'].append(sess)
            if k == 0:
                al = live(base)
                tids = []
                unknown = []
                for ts in al:
                    tid = N.t2tid.get(id(ts.thread))
                    if tid is not None:
                        tids.append(tid)
                    elif '(notify)' not in ts.name:
                        unknown.append(ts.name)
                st['start_ok'] = dict(err='none', launched=[(e[1], e[2]) for e in ev if e[0] == 'init'],
                                      alive=sorted(tids), unknown=unknown)
            del raw[:]
            st['phase'] = f'work{k}'

            def do_call(q):
                try:
                    y = srv.call((q['r'], q['dur'], q['failsv'], ()), timeout=q['timeout'], backpressure=False)
                    out = ('ok', norm(y)[0])
                except ServerBacklogFull:
                    out = ('full',)
                except TimeoutError:
                    out = ('timeout',)
                except WorkErr as e:
                    out = ('err', e.r)
                except EnsembleError:
                    out = ('err', q['r'])
                except BaseException as e:  # noqa
                    if isinstance(e, detsched.Abort):
                        raise
                    out = ('other', repr(e))
                outcomes[q['r']] = (out, q['timeout'])

            def caller(spec):
                if spec['kind'] == 'call':
                    for q in spec['reqs']:
                        do_call(q)
                else:
                    data = [(it['r'], it['dur'], it['failsv'], ()) for it in spec['items']]
                    n = 0
                    try:
                        gen = srv.stream(iter(data), return_x=True, return_exceptions=spec['rexc'], timeout=FOREVER)
                        for x, y in gen:
                            n += 1
                            if spec['stop_after'] is not None and n == spec['stop_after']:
                                gen.close()      # abandon the rest: their inputs stay in the pipeline
                                break
                    except (WorkErr, EnsembleError):
                        pass

            ts_ = [Thread(target=caller, args=(spec,), name=f'caller{k}.{j}') for j, spec in enumerate(workload)]
            for t in ts_:
                t.start()
            for t in ts_:
                t.join()
            if k == 1:
                # the re-entered server must still answer
                q = dict(r=case['nreq'], dur=1, failsv=-1, timeout=FOREVER)
                do_call(q)
                if outcomes.get(q['r'], (None,))[0] != ('ok', q['r']):
                    mon.append(dict(prop='C11', rule='reenter-serve',
                                    detail=f'follow-up request on the re-entered server got {outcomes.get(q["r"])}'))
            st['phase'] = f'exit{k}'
            srv.__exit__(None, None, None)
            sess['final'] = 1
            sess['ledger'] = srv.backlog
            sess['raw'] = list(raw)
            st['phase'] = f'after{k}'
            left = live(base)
            if left:
                mon.append(dict(prop='C11', rule='exit-leak',
                                detail=f'session {k}: threads alive after __exit__: {sorted(ts.name for ts in left)}'))
                return mon
            if srv.backlog != 0:
                mon.append(dict(prop='C11', rule='ledger-leak',
                                detail=f'session {k}: backlog {srv.backlog} after __exit__ (entries of overtaken results survive into the next __enter__)'))
        return mon

    async def amain(base, main_id):
        """the same life cycle on AsyncServer (`__aenter__` / `__aexit__`, async call / stream)"""
        srv = AsyncServer(build(tree, 0, ctx, case['flatten']), capacity=case['cap'])
        mon = []
        if case['fail'] is not None:
            st['phase'] = 'enter-fail'
            ctx['armed'] = True
            del ev[:]
            err = 'none'
            try:
                await srv.__aenter__()
                await srv.__aexit__(None, None, None)
            except InitError as e:
                err = f'{e.args[0]}:{e.args[1]}'
            except BaseException as e:  # noqa
                if isinstance(e, detsched.Abort):
                    raise
                err = 'other:' + repr(e)
            ctx['armed'] = False
            left = live(base)
            st['start'] = dict(err=err, launched=[(e[1], e[2]) for e in ev if e[0] == 'init'],
                               alive=sorted(ts.name for ts in left))
            want = f'{case["fail"][0]}:{case["fail"][1]}'
            if err != want:
                mon.append(dict(prop='C11', rule='start-error', detail=f'__aenter__ raised {err}, the failing worker is {want}'))
            if left:
                mon.append(dict(prop='C11', rule='start-leak',
                                detail=f'threads still running after the failed __aenter__: {sorted(ts.name for ts in left)}'))
                return mon
        for k, workload in enumerate(case['sessions']):
            st['phase'] = f'enter{k}'
            del raw[:]
            del ev[:]
            await srv.__aenter__()
            N = number_server(tree, srv)
            N.entry = N.q2c[id(srv._input_buffer)]
            sess = dict(N=N, main_id=main_id, final=0, ledger=None, raw=None)
            st['sessions'].append(sess)
            if k == 0:
                tids, unknown = [], []
                for ts in live(base):
                    tid = N.t2tid.get(id(ts.thread))
                    if tid is not None:
                        tids.append(tid)
                    else:
                        unknown.append(ts.name)
                st['start_ok'] = dict(err='none', launched=[(e[1], e[2]) for e in ev if e[0] == 'init'],
                                      alive=sorted(tids), unknown=unknown)
            del raw[:]
            st['phase'] = f'work{k}'

            async def do_call(q):
                try:
                    y = await srv.call((q['r'], q['dur'], q['failsv'], ()), timeout=q['timeout'], backpressure=False)
                    out = ('ok', norm(y)[0])
                except ServerBacklogFull:
                    out = ('full',)
                except TimeoutError:
                    out = ('timeout',)
                except WorkErr as e:
                    out = ('err', e.r)
                except EnsembleError:
                    out = ('err', q['r'])
                outcomes[q['r']] = (out, q['timeout'])

            async def caller(spec):
                if spec['kind'] == 'call':
                    for q in spec['reqs']:
                        await do_call(q)
                else:
                    async def agen():
                        for it in spec['items']:
                            yield (it['r'], it['dur'], it['failsv'], ())
                    n = 0
                    try:
                        ag = srv.stream(agen(), return_x=True, return_exceptions=spec['rexc'], timeout=FOREVER)
                        async for x, y in ag:
                            n += 1
                            if spec['stop_after'] is not None and n == spec['stop_after']:
                                await ag.aclose()
                                break
                    except (WorkErr, EnsembleError):
                        pass

            await asyncio.gather(*[caller(spec) for spec in workload])
            if k == 1:
                q = dict(r=case['nreq'], dur=1, failsv=-1, timeout=FOREVER)
                await do_call(q)
                if outcomes.get(q['r'], (None,))[0] != ('ok', q['r']):
                    mon.append(dict(prop='C11', rule='reenter-serve',
                                    detail=f'follow-up request on the re-entered server got {outcomes.get(q["r"])}'))
            st['phase'] = f'exit{k}'
            await srv.__aexit__(None, None, None)
            sess['final'] = 1
            sess['ledger'] = srv.backlog
            sess['raw'] = list(raw)
            st['phase'] = f'after{k}'
            left = live(base)
            if left:
                mon.append(dict(prop='C11', rule='exit-leak',
                                detail=f'session {k}: threads alive after __aexit__: {sorted(ts.name for ts in left)}'))
                return mon
            if srv.backlog != 0:
                mon.append(dict(prop='C11', rule='ledger-leak',
                                detail=f'session {k}: backlog {srv.backlog} after __aexit__'))
        return mon

    def main_async():
        import cooploop
        cooploop.install()
        base = {ts.tid for ts in detsched.SCHED.order if not ts.done}
        return asyncio.run(amain(base, id(threading.current_thread())))

    if case.get('async'):
        main = main_async
    chooser = detsched.make_chooser(tuple(case['chooser']), case['seed'])
    v, e, s = detsched.run(main, chooser, max_steps=case.get('max_steps', 120000))
    res = dict(steps=s.steps, switches=s.switches, monitors=[], phase=st['phase'])
    mon = res['monitors']
    if e is not None:
        if isinstance(e, detsched.Deadlock):
            info = e.args[0] if e.args else None
            res['deadlock'] = info
            ph = st['phase']
            if ph.startswith('exit') or ph.startswith('enter'):
                rule = 'exit-hang' if ph.startswith('exit') else 'enter-hang'
                mon.append(dict(prop='C11', rule=rule, detail=f'phase {ph}: {"livelock (step budget exhausted)" if info == "max_steps" else "deadlock"}: {info}'))
            else:
                mon.append(dict(prop='C07', rule='workload-hang', detail=f'phase {ph}: {info}'))
        else:
            res['error'] = repr(e)
            mon.append(dict(prop='C11', rule='unexpected-exception', detail=f'phase {st["phase"]}: {e!r}'))
    else:
        mon += v
    # every answered request got its own result
    for r, (out, timeout) in outcomes.items():
        if out[0] == 'ok' and out[1] != r:
            mon.append(dict(prop='C02', rule='crosstalk', detail=f'request {r} got the result of {out[1]}'))
        if out[0] == 'other':
            mon.append(dict(prop='C11', rule='unexpected-exception', detail=f'request {r}: {out[1]}'))
    # ---- what the model side needs -------------------------------------------------------------
    res['start'] = st.get('start')
    res['start_ok'] = st.get('start_ok')
    sessions = []
    for k, sess in enumerate(st['sessions']):
        rawk = sess['raw'] if sess['raw'] is not None else list(raw)
        sessions.append(dict(events=translate(rawk, sess['N'], sess['main_id']), final=sess['final'],
                             ledger=sess['ledger'] if sess['ledger'] is not None else 0,
                             stuck=sess['final'] == 0 and isinstance(e, detsched.Deadlock) and e.args and e.args[0] != 'max_steps'))
    for k, (sess, out) in enumerate(zip(st['sessions'], sessions)):
        g = sess['N'].t2n[id(sess['N'].keep_gather)]
        inj = got = 0
        for e_ in out['events']:
            if e_.startswith('m'):
                break
            if e_ == 'inject':
                inj += 1
            elif e_ == f'get {g} 1 0':
                got += 1
        out['residual'] = inj - got
    res['sessions'] = sessions
    res['residual'] = [s_['residual'] for s_ in sessions]
    res['events'] = [s_['events'] for s_ in sessions]
    res['n_events'] = sum(len(s_['events']) for s_ in sessions)
    return res


def fmt_tids(l):
    return ';'.join(f'{a}:{b}' for a, b in l)


def model_lines(cid, case, res):
    """several sub-cases per run: `<cid>.f` failed start, `<cid>.o` successful start, `<cid>.s<k>` sessions"""
    lines = []
    toks = ','.join(tokens(case['tree']))
    if res.get('start') is not None:
        s = res['start']
        lines.append(f'case {cid}.f kind=start tree={toks} bad={case["fail"][0]}:{case["fail"][1]}')
        lines.append(f'obs err={s["err"]} launched={fmt_tids(s["launched"])} alive={";".join(s["alive"])}')
    if res.get('start_ok') is not None:
        s = res['start_ok']
        lines.append(f'case {cid}.o kind=start tree={toks} bad=none')
        lines.append(f'obs err={s["err"]} launched={fmt_tids(s["launched"])} alive={fmt_tids(s["alive"])}{";unknown" if s["unknown"] else ""}')
    for k, sess in enumerate(res.get('sessions', [])):
        lines.append(f'case {cid}.s{k} kind=stop tree={toks} K=1 pinned=0')
        for e in sess['events']:
            lines.append('e ' + e)
        if sess['final']:
            lines.append(f'end final=1 ledger={sess["ledger"]}')
        elif sess['stuck']:
            lines.append('end final=0')
        else:
            lines.append('end partial=1')
    return lines
