"""
Scenario: life cycle of `Server` over trees with ProcessServlets, real processes (E4; OS schedule, sampled).
Each case runs `lifecycle_proc_child.py` in a fresh interpreter in its own session; the whole group is killed
afterwards.  The child reports: error of a failing `__enter__` and what is left running; duration of each
`__exit__`; a hang of `__enter__`/`__exit__` (bound `hang_s`) together with who is still alive.
Run in pool workers WITHOUT the deterministic scheduler (`sched=False`).
"""
import json
import os
import random
import shutil
import signal
import subprocess
import sys
import tempfile
import time
from pathlib import Path

HERE = Path(__file__).resolve().parent
REPO = Path(os.environ.get('VERIF_REPO', '/repo'))
PY = '/venv/bin/python'


def tsize(t):
    return 1 if t[0] in 'TP' else 1 + tsize(t[1]) + tsize(t[2])


def workers_of(t, sv=0):
    if t[0] in 'TP':
        return [(sv, j) for j in range(t[1])]
    return workers_of(t[1], sv + 1) + workers_of(t[2], sv + 1 + tsize(t[1]))


def node_at(t, sv, cur=0):
    if cur == sv:
        return t
    if t[0] in 'TP':
        return None
    if sv <= cur + tsize(t[1]):
        return node_at(t[1], sv, cur + 1)
    return node_at(t[2], sv, cur + 1 + tsize(t[1]))


def switch_sibling_gone(t, sv, alive_by_sv, cur=0):
    """`sv` lies under a switch node whose OTHER member subtree has no live worker"""
    if t[0] in 'TP':
        return False
    la, lb = cur + 1, cur + 1 + tsize(t[1])
    in_a = la <= sv < lb
    in_b = lb <= sv < lb + tsize(t[2])
    if t[0] == 'W' and (in_a or in_b):
        lo, hi = (lb, lb + tsize(t[2])) if in_a else (la, lb)
        if not any(lo <= x < hi for x in alive_by_sv):
            return True
    if in_a:
        return switch_sibling_gone(t[1], sv, alive_by_sv, la)
    if in_b:
        return switch_sibling_gone(t[2], sv, alive_by_sv, lb)
    return False


def mk(tree, fail=None, klass='', n=20, in_kb=1, out_kb=0, delay_ms=0, cap=64, stop_after=1, hang_s=20.0):
    return dict(tree=tree, fail=list(fail) if fail else None,
                proc=dict(klass=klass, n=n, in_kb=in_kb, out_kb=out_kb, delay_ms=delay_ms, cap=cap, stop_after=stop_after,
                          hang_s=hang_s))


def gen_cases(rng: random.Random, tier: str):
    big = tier == 'thorough'
    cases = []
    # (a) failing worker index x tree shape
    shapes = [['P', 2], ['S', ['P', 1], ['P', 2]], ['E', ['P', 1], ['T', 2]], ['W', ['P', 2], ['P', 1]],
              ['S', ['T', 1], ['S', ['P', 2], ['T', 1]]]]
    for t in shapes:
        ws = workers_of(t)
        picks = ws if big else [rng.choice(ws)]
        for f in dict.fromkeys(picks):
            cases.append(mk(t, f, 'start-fail', n=4, cap=8))
    # (a') the failing initialisation is the library's own CPU pinning (an invalid CPU id), not the subclass's __init__
    cases.append(mk(['P', 2], ['cpu', 0, rng.choice([0, 1])], 'start-fail', n=4, cap=8))
    if big:
        cases.append(mk(['S', ['P', 1], ['P', 2]], ['cpu', 2, 1], 'start-fail', n=4, cap=8))
    # (b) abandoned stream whose pending inputs exceed the pipe buffer (F12 class), one worker per servlet
    for t in ([['P', 1], ['S', ['P', 1], ['T', 1]]] + ([['S', ['P', 1], ['P', 1]], ['S', ['T', 1], ['P', 1]]] if big else [])):
        cases.append(mk(t, None, 'abandon-gt-pipe', n=rng.choice([300, 500] if not big else [200, 500, 1000]),
                        in_kb=rng.choice([1, 2, 4]), delay_ms=1, cap=1024))
    # (c) single-worker servlets, big intermediate results (residual data > pipe, but one writer per pipe)
    cases.append(mk(['S', ['P', 1], ['P', 1]], None, 'single-worker-big-results', n=40, out_kb=50, delay_ms=2, cap=64))
    # (d) F19 class: multi-worker first stage, big results, residual > pipe
    cases.append(mk(['S', ['P', 3], ['P', 1]], None, 'multiworker-big-results', n=60, out_kb=50, delay_ms=5, cap=64))
    # (d') F24 class: ensemble / switch over process members, abandoned inputs > pipe buffer
    cases.append(mk(['E', ['P', 1], ['P', 1]], None, 'ensemble-abandon-gt-pipe', n=rng.choice([400, 600]), in_kb=2, delay_ms=2, cap=1024))
    cases.append(mk(['W', ['P', 1], ['P', 1]], None, 'switch-abandon-gt-pipe', n=rng.choice([400, 600]), in_kb=2, delay_ms=2, cap=1024))
    cases.append(mk(['E', ['P', 1], ['P', 1]], None, 'ensemble-big-results', n=60, out_kb=50, delay_ms=5, cap=64))
    # a fast multi-worker member (one stop sentinel per worker) next to a slow process member with a backlog:
    # `_dequeue` must wait for a sentinel from EVERY member, not for that many sentinels
    cases.append(mk(['E', ['T', 2], ['P', 1]], None, 'ensemble-big-results', n=60, out_kb=50, delay_ms=5, cap=64))
    # (d'') F19-like remainder: switch members share the output queue
    cases.append(mk(['W', ['P', 1], ['P', 1]], None, 'switch-big-results', n=60, out_kb=50, delay_ms=5, cap=64))
    # (e) small workloads on assorted shapes (exit, re-enter, serve again)
    small = [['E', ['P', 1], ['P', 2]], ['W', ['P', 1], ['T', 1]], ['S', ['P', 2], ['E', ['T', 1], ['P', 1]]]]
    for t in (small if big else rng.sample(small, 2)):
        cases.append(mk(t, None, 'small', n=rng.choice([3, 6, 10]), cap=8, stop_after=rng.choice([1, 2, 100])))
    if big:
        for _ in range(12):
            t = rng.choice(shapes)
            cases.append(mk(t, None, 'small', n=rng.choice([3, 10, 30]), in_kb=rng.choice([1, 4]), cap=rng.choice([4, 16]),
                            stop_after=rng.choice([1, 3, 100]), delay_ms=rng.choice([0, 1])))
    # the classes that may run into the hang bound go first (they decide the wall time)
    slow = ('multiworker-big-results', 'switch-big-results')
    cases.sort(key=lambda c: 0 if c['proc']['klass'] in slow else 1)
    return cases


def nontrivial(case, res):
    return res.get('done', False) or bool(res.get('monitors'))


def classify_hang(case, diag):
    """who is still alive when `__exit__` does not return -> scenario class of the finding"""
    if not diag:
        return 'no-diagnosis'
    alive = [w for w in diag.get('workers_alive', []) if w.startswith('sv')]
    stacks = diag.get('child_stacks') or {}
    by_sv = {}
    for w in alive:
        sv = int(w[2:].split('-')[0])
        by_sv.setdefault(sv, []).append(w)

    def role(w):
        fs = [f.split(':')[0] for f in stacks.get(w, [])]
        if 'get_input' in fs and 'put' in fs:
            return 'rebroadcast'          # took the sentinel, blocked putting it back on its input pipe
        if '_start_single' in fs and 'put' in fs:
            return 'writer'               # blocked writing a result
        return 'other' if fs else 'unknown'

    if alive and not diag.get('onboard_alive'):
        kinds = set()
        for sv, ws in by_sv.items():
            nd = node_at(case['tree'], sv)
            for w in ws:
                r = role(w)
                if r == 'rebroadcast':
                    continue              # the reader of that pipe, blocked behind the blocked writer's write lock
                if r in ('writer', 'unknown') and nd is not None and nd[0] == 'P' and nd[1] >= 2 and len(ws) < nd[1]:
                    # a ProcessServlet with >= 2 workers of which at least one has left (it forwarded the sentinel)
                    # and this one is still there, blocked writing a result nobody reads any more
                    kinds.add('sibling-writer-blocked-multiworker')
                elif r in ('writer', 'unknown') and switch_sibling_gone(case['tree'], sv, by_sv):
                    # member of a SwitchServlet (members share the output queue): another member has left (its
                    # sentinel stopped the reader of the shared queue), this one is blocked writing a result
                    kinds.add('switch-member-writer-blocked')
                else:
                    kinds.add('other')
        if len(kinds) == 1 and 'other' not in kinds:
            return kinds.pop()
    if diag.get('onboard_alive'):
        return 'onboard-thread-blocked'
    return 'other:' + ','.join(alive)[:60]


def run_case(case):
    pc = case['proc']
    env = dict(os.environ)
    env['PYTHONPATH'] = os.pathsep.join([str(REPO / 'src'), str(HERE)])
    env['PYTHONUNBUFFERED'] = '1'
    t0 = time.time()
    cap = 4 * pc['hang_s'] + 60
    # never read the child's output through a pipe: leaked worker processes would keep it open
    tmp = tempfile.mkdtemp(prefix='c11proc-')
    env['C11_STACKDIR'] = tmp
    fo = open(os.path.join(tmp, 'out'), 'w')
    fe = open(os.path.join(tmp, 'err'), 'w')
    p = subprocess.Popen([PY, str(HERE / 'lifecycle_proc_child.py'), json.dumps(case)], stdout=fo, stderr=fe,
                         stdin=subprocess.DEVNULL, env=env, start_new_session=True)
    infra = None
    try:
        p.wait(timeout=cap)
    except subprocess.TimeoutExpired:
        infra = f'child did not finish within {cap}s'
    finally:
        try:
            os.killpg(p.pid, signal.SIGKILL)
        except Exception:
            pass
        try:
            p.wait(5)
        except Exception:
            pass
    fo.close()
    fe.close()
    so = open(os.path.join(tmp, 'out')).read()
    se = open(os.path.join(tmp, 'err')).read()
    shutil.rmtree(tmp, ignore_errors=True)
    res = dict(monitors=[], events=[], wall=round(time.time() - t0, 2))
    out = None
    for line in so.splitlines():
        if line.startswith('RESULT '):
            out = json.loads(line[7:])
    if infra or out is None:
        res['infra_error'] = infra or f'no RESULT from the child (rc={p.returncode}): {se[-1500:]}'
        return res
    mon = res['monitors']
    res['phase'] = out['phase']
    res['t_exit'] = out['t_exit']
    res['done'] = out['phase'] == 'done'
    if case['fail'] is not None:
        want = f'{case["fail"][0]}:{case["fail"][1]}'
        if out.get('hang') == 'enter-fail':
            mon.append(dict(prop='C11', rule='enter-hang', klass='start-fail', detail=f'failing __enter__ did not return in {pc["hang_s"]}s: {out["diag"]}'))
        else:
            if case['fail'][0] == 'cpu':
                if not (str(out.get('start_err')).startswith('other:') and 'OSError' in str(out.get('start_err'))):
                    mon.append(dict(prop='C11', rule='start-error', klass='start-fail',
                                    detail=f'__enter__ raised {out.get("start_err")}; a worker is pinned to a CPU that does not exist (OSError expected)'))
            elif out.get('start_err') != want:
                mon.append(dict(prop='C11', rule='start-error', klass='start-fail', detail=f'__enter__ raised {out.get("start_err")}, the failing worker is {want}'))
            left = out.get('start_left') or {}
            if left.get('threads') or left.get('children'):
                mon.append(dict(prop='C11', rule='start-leak', klass='start-fail', detail=f'left running after the failed __enter__: {left}'))
    if out.get('hang') and out['hang'] != 'enter-fail':
        ph = out['hang']
        klass = classify_hang(case, out.get('diag'))
        rule = 'exit-hang' if ph.startswith('exit') else ('enter-hang' if ph.startswith('enter') else 'workload-hang')
        mon.append(dict(prop='C11' if rule != 'workload-hang' else 'C07', rule=rule, klass=klass,
                        detail=f'{ph} did not return within {pc["hang_s"]}s; still alive: {out.get("diag")}'))
    for m in out.get('mon', []):
        mon.append(dict(prop='C11', rule=m['rule'], klass=pc['klass'], detail=m['detail']))
    res['events'] = [out['phase'], out.get('start_err'), out.get('hang')]
    return res


if __name__ == '__main__':
    # manual: python scen_lifecycle_proc.py '<case json>'
    print(json.dumps(run_case(json.loads(sys.argv[1])), indent=1))
