"""
Scenario (engine E4, real processes): log records emitted in a child started through mpservice's
`Process` must all be handled by the parent's logging configuration, once and in order, and the
child must be able to exit however much it logs.  Serves C20.

One case = one fresh interpreter in its own session (outer runner shared with `scen_proc`).
Inside, the parent configures logging (root level, three named loggers with levels DEBUG / ERROR /
inherited, one recording handler on the root logger), starts the REAL `mpservice.multiprocessing.
Process` (directly, or as the worker of a `ProcessServlet` inside a `Server`) whose target emits
`n` records of the case's sizes / names / levels (record `i` carries its id in the message), the last
one immediately before the target ends by return / raise / `sys.exit` (optionally one more from a
custom `handle_exception`, i.e. after the target has ended but before the result is sent).
The parent calls `join()` or `result()` under a watchdog with the hang bound, snapshots what has
been handled at that moment, lets the logger settle (count stable for 0.3 s, at most 10 s), and
reports the ids in the order they were handled.

The monitor evaluates the C20 statement directly: handled ids == the emitted ids that pass the
parent's level settings, in emission order, none twice; `join`/`result` returned within the bound
and the child has an exit status.  `model_lines` replays (n, pass set, a pipe capacity, a schedule
seed) through `drv logpipe`, which runs the proved model's `step` function under a random scheduler
and must end `Final` with the same handled list and the same number handled when the future was
resolved.  The OS schedule is not controlled (sampled).
"""
import json
import os
import random
import sys
import time

import scen_proc

MODEL = 'logpipe'
HANG_BOUND = scen_proc.HANG_BOUND
NAMES = ['cfg.a', 'cfg.b', 'cfg.c']            # parent levels: DEBUG, ERROR, inherited from root
SYNC = 'cfg.sync'                              # level DEBUG in the parent, never changed: carries the hand-shake records
LEVELS = [10, 20, 30, 40]
LEVELS_LOW = [5, 10, 30, 40]                   # with a custom level below DEBUG (cases with low=True: parent root level 1)


# ----------------------------------------------------------------------------------------------
# cases
# ----------------------------------------------------------------------------------------------

def _mk(rng, n, size, **kw):
    c = dict(via='direct', n=n, size=size, sizes=None, ending=rng.choice(['ret', 'raise', 'exit0', 'exit3', 'exitstr']),
             first=rng.choice(['join', 'result']), root_level=rng.choice([10, 30]), lvl_seed=rng.randrange(1000),
             gap=rng.choice([0, 0, 0.05]), late=False, K=rng.choice([1, 2, 7, 64]), seed=rng.randrange(1 << 30))
    c.update(kw)
    if c['late'] and c['ending'] in ('ret', 'exit0'):
        c['ending'] = 'raise'
    if c.get('low'):
        c['root_level'] = 1
    return c


def boundary_cases(rng, tier):
    """volumes from none to far beyond the pipe buffer (64 KiB), x ending kind"""
    out = []
    vols = [(0, 10), (1, 10), (2, 100), (50, 2000), (2000, 100), (20, 65536), (3, 200000), (400, 1000)]
    if tier == 'thorough':
        vols += [(20000, 100), (100, 65536), (5000, 1000), (1, 1000000)]
    for n, size in vols:
        for ending in (['ret', 'raise', 'exit3'] if tier == 'quick' else ['ret', 'raise', 'exit0', 'exit3', 'exitstr']):
            out.append(_mk(rng, n, size, ending=ending))
    out.append(_mk(rng, 300, 500, ending='raise', late=True))
    out.append(_mk(rng, 0, 10, ending='raise', late=True))
    out.append(_mk(rng, 1500, 100, ending='exitstr', late=True))
    out.append(_mk(rng, 40, 100, low=True))
    out.append(_mk(rng, 3, 10, low=True, ending='raise'))
    return out


def gen_case(rng: random.Random, tier: str):
    big = tier == 'thorough'
    n = rng.choice([0, 1, 2, 3, 10, 60, 300, 1000, 2500] + ([8000] if big else []))
    size = rng.choice([0, 10, 100, 100, 1000, 5000, 70000])
    if n * size > (40_000_000 if big else 8_000_000):
        size = 100
    c = _mk(rng, n, size, late=rng.random() < 0.2, low=rng.random() < 0.15)
    if n <= 300 and rng.random() < 0.2:
        c['slow'] = rng.choice([0.0005, 0.002])      # a slow handler in the parent: the pipe fills, the result overtakes the logs
    if rng.random() < 0.3 and n:
        c['sizes'] = [rng.choice([0, 10, 100, 3000, 70000 if n <= 60 else 100]) for _ in range(8)]
    return c


def stall_case(rng, ending, secs, n=600, size=1000, at=None):
    """a stalled parent: the parent's handler blocks for `secs` seconds at its `at`-th record (a slow disk, a
    network log sink, a paused terminal) while the child, which has emitted far more than the pipe holds
    shortly before its target ended and has delivered its result, can only flush as fast as the parent reads"""
    c = _mk(rng, n, size, ending=ending, gap=0, root_level=10)
    c['stall'] = dict(at=rng.choice([0, 3, 40]) if at is None else at, secs=secs)
    c['hang_bound'] = HANG_BOUND + 2 * secs
    return c


def burst_case(rng, ending, n, secs=2.0):
    """a burst: `n` small records in a tight loop while the parent's handler is stalled at its first record, so
    that the child gets `n` records ahead of the parent (nothing may be dropped however far ahead it gets)"""
    c = _mk(rng, n, 10, ending=ending, gap=0, root_level=10)
    c['stall'] = dict(at=0, secs=secs)
    c['hang_bound'] = HANG_BOUND + 2 * secs + n / 2500.0
    return c


def levels_case(rng, n=None, ncuts=None):
    """the parent changes its level settings while the child runs: on the record's own logger, on the ancestor
    `cfg`, on the root.  To keep the oracle exact the child pauses at each cut (after a hand-shake record on
    `cfg.sync`, always handled); the parent changes a level only when it has handled that record, i.e. when
    everything emitted so far has been handled; the child then goes on.  So record i is judged by the levels
    in force in its own segment."""
    n = n or rng.choice([12, 30, 80, 300])
    ncuts = ncuts or rng.choice([1, 2, 3, 4])
    cuts = sorted(rng.sample(range(2, n - 1), min(ncuts, n - 3)))
    changes = []
    for _ in cuts:
        tgt = rng.choice(['cfg.a', 'cfg.b', 'cfg.c', 'cfg.c', 'cfg', 'cfg', 'root', 'root'])
        changes.append([tgt, rng.choice([10, 20, 30, 40] if tgt == 'root' else [0, 10, 20, 30, 40])])
    c = _mk(rng, n, rng.choice([10, 100, 1000]), gap=0, late=False)
    c['levels'] = dict(cuts=cuts, changes=changes)
    return c


def slowtail_case(rng, ending, n=200, slow=0.02, daemon=False, prog_exit=False):
    """a slow parent handler (`slow` seconds per record) and `n` records emitted right before the target ends:
    when the child has exited the parent still needs seconds for what is in the pipe.  `daemon` + `prog_exit`:
    a daemonic child, and the parent PROGRAM ends right after join()/result() returned - whatever has not been
    handled by then is lost for good (the reader thread of a daemonic child is a daemon thread)."""
    c = _mk(rng, n, 100, ending=ending, gap=0, root_level=10)
    c['slow'] = slow
    c['daemon'] = daemon
    c['prog_exit'] = prog_exit
    c['hang_bound'] = HANG_BOUND + 2 * n * slow
    return c


def unconf_case(rng, variant, via='direct', ending=None, n=None):
    """a parent program that does not observe records through a handler on the root logger: `bare` - logging is
    not configured at all (Python's handler of last resort writes the message of WARNING+ records to stderr);
    `noprop` - the root has a stream handler, but the logger `cfg.b` has propagate=False and no handler of its
    own (its records go to the handler of last resort).  The program first emits the records ITSELF, then lets
    the child emit the same records; its own stderr is captured on the side: what the child's records produce
    there must be, line for line, what the same records produced when emitted in the parent."""
    if via == 'pool':
        c = pool_case(rng, n or rng.choice([5, 40]), 20)
    else:
        c = _mk(rng, n or rng.choice([3, 30, 200]), rng.choice([10, 60]), ending=ending or rng.choice(['ret', 'raise', 'exit3']),
                gap=0, late=False)
    c['unconf'] = variant
    c['root_level'] = 30        # the level of an unconfigured root logger
    return c


def level_state(case, i):
    """levels in force when record i is emitted and handled: the initial configuration plus every change whose cut
    lies before i"""
    st = {'root': case['root_level'], 'cfg': 0, 'cfg.a': 10, 'cfg.b': 40, 'cfg.c': 0, SYNC: 10}
    lv = case.get('levels')
    if lv:
        for cut, (tgt, level) in zip(lv['cuts'], lv['changes']):
            if cut < i:
                st[tgt] = level
    return st


def servlet_case(rng, n, size):
    return dict(via='servlet', n=n, size=size, sizes=None, ending='ret', first='join', root_level=rng.choice([10, 30]),
                lvl_seed=rng.randrange(1000), gap=0, late=False, K=rng.choice([1, 7]), seed=rng.randrange(1 << 30),
                calls=rng.choice([1, 3, 8]))


def pool_case(rng, n, size):
    c = servlet_case(rng, n, size)
    c['via'] = 'pool'
    return c


def n_total(case):
    if case['via'] in ('servlet', 'pool'):
        return case['n'] * case['calls']
    return case['n'] + (1 if case['late'] else 0)


def rec_name_level(case, i):
    if case.get('levels') and i in case['levels']['cuts']:
        return SYNC, 50
    k = (i * 7 + case['lvl_seed']) % 12
    name = NAMES[k % 3]
    if name == 'cfg.c' and mid_names(case):
        # the records of this third go to 'cfg': an INTERMEDIATE node of the parent's logger hierarchy (the parent only
        # ever asked for 'cfg.a', 'cfg.b', ...; in its logging module 'cfg' is a place holder, not a Logger, unless a
        # level change of the case creates it)
        name = 'cfg'
    return name, (LEVELS_LOW if case.get('low') else LEVELS)[(k // 3 + i) % 4]


def mid_names(case):
    return case['lvl_seed'] % 3 == 0


def passes(case, i):
    name, lvl = rec_name_level(case, i)
    st = level_state(case, i)
    eff = st[name] or st['cfg'] or st['root']       # Logger.getEffectiveLevel: own level, else the ancestors', else the root's
    return lvl >= eff


def expected(case):
    return [i for i in range(n_total(case)) if passes(case, i)]


def vol_class(case):
    """class for the hang-bound median: variant x order of magnitude of the bytes logged"""
    vol = n_total(case) * (case['size'] if not case.get('sizes') else max(case['sizes'])) + 200 * n_total(case)
    return f"{case['via']}:{len(str(vol))}{':slow' if case.get('slow') else ''}{':stall' if case.get('stall') else ''}"


def case_class(case):
    vol = n_total(case) * (case['size'] if not case.get('sizes') else sum(case['sizes']) // len(case['sizes']))
    st = case.get('stall')
    tag = '' if not st else ('-burst' if n_total(case) >= 10000 else '-stalled-parent')
    if case.get('unconf'):
        tag += '-unconfigured-' + case['unconf']
    if case.get('levels'):
        tag += '-levelchange'
    if case.get('prog_exit'):
        tag += '-daemon-progexit'
    elif case.get('slow') and case['slow'] >= 0.01:
        tag += '-slowtail'
    return (f"{case['via']}:{'small' if vol < 30000 else 'beyond-pipe'}{'-lowlevel' if case.get('low') else ''}{tag}:"
            f"{case['ending']}{':late' if case['late'] else ''}")


def nontrivial(case, res):
    """at least two records were emitted and the run produced an observation"""
    return n_total(case) >= 2 and res.get('handled') is not None


def monitor(case, res):
    mon = []
    if res.get('infra'):
        return mon
    cls = case_class(case)
    exp = res['exp_self'] if case.get('unconf') and res.get('exp_self') is not None else expected(case)
    got = res.get('handled') or []
    if not res.get('joined'):
        mon.append(dict(prop='C20', rule='hang',
                        detail=f'{case["first"]}() did not return within {scen_proc.hang_bound(case)}s (child exitcode {res.get("exitcode")}); '
                               f'{len(got)}/{len(exp)} records handled; case class {cls}'))
    seen = set()
    dups = [i for i in got if i in seen or seen.add(i)]
    if dups:
        mon.append(dict(prop='C20', rule='duplicate', detail=f'handled more than once: {dups[:10]}; class {cls}'))
    sexp = set(exp)
    extra = [i for i in got if i not in sexp]
    if extra:
        mon.append(dict(prop='C20', rule='extra', detail=f'handled although below the parent\'s level (or never emitted): {extra[:10]}; class {cls}'))
    uniq = [i for i in dict.fromkeys(got) if i in sexp]
    if uniq != sorted(uniq):
        mon.append(dict(prop='C20', rule='order', detail=f'not in emission order: {[a for a, b in zip(uniq, sorted(uniq)) if a != b][:10]}; class {cls}'))
    missing = [i for i in exp if i not in seen]
    if missing:
        mon.append(dict(prop='C20', rule='lost',
                        detail=f'{len(missing)} of {len(exp)} records never handled (first missing {missing[:5]}, '
                               f'last handled {got[-1] if got else None}); class {cls}'))
    later = len(sexp & set(got)) - (res.get('at_join') or 0)      # records that came in only after join()/result() had returned
    if res.get('joined') and res.get('at_join') is not None and not dups and not extra and (
            later > 0 or (case.get('prog_exit') and res['at_join'] < len(exp))):
        mon.append(dict(prop='C20', rule='unhandled-at-join',
                        detail=f'{case["first"]}() returned when only {res["at_join"]} of {len(exp)} records had been handled '
                               f'({"the parent program then ended: they are lost for good" if case.get("prog_exit") else "the rest trickled in later"}); '
                               f'join is the only point at which a caller can know the child\'s records are in; class {cls}'))
    if res.get('sync_missed'):
        mon.append(dict(prop='C20', rule='lost', detail=f'hand-shake record(s) {res["sync_missed"]} never handled; class {cls}'))
    if res.get('joined') and res.get('exitcode') is None:
        mon.append(dict(prop='C20', rule='child-alive', detail=f'join returned but the child has no exit status; class {cls}'))
    if res.get('joined') and res.get('ending_ok') is False:
        mon.append(dict(prop='C20', rule='result', detail=f'{case["first"]}() answered {res.get("ending")}, expected per {case["ending"]}; class {cls}'))
    return mon


def run_case(case):
    res = scen_proc.run_inner(os.path.abspath(__file__), case, outer_bound=scen_proc.hang_bound(case) * 1.5 + 90)
    if res.get('infra'):
        res['infra_error'] = res['infra']
        res.setdefault('monitors', [])
        res.setdefault('events', [])
        return res
    want = os.path.realpath(scen_proc._repo_src())
    if not os.path.realpath(res.get('mpservice_file', '')).startswith(want):
        res['infra_error'] = f"inner run imported mpservice from {res.get('mpservice_file')}, expected under {want}"
        res.setdefault('monitors', [])
        res.setdefault('events', [])
        return res
    if case.get('prog_exit') and res.get('handled') is None:
        res['handled'] = [int(x) for x in (res.get('side') or '').split()]
    if case.get('unconf'):
        res['exp_self'], res['handled'] = parse_stderr(res.get('side') or '')
        if n_total(case) >= 12 and not res['exp_self']:
            res['infra_error'] = 'the parent program\'s own emission left nothing on its captured stderr: ' + (res.get('side') or '')[:300]
            res.setdefault('monitors', [])
            res.setdefault('events', [])
            return res
    res.pop('side', None)
    res['monitors'] = monitor(case, res)
    h = res.get('handled') or []
    # compact, hashable summary for the distinct-case bookkeeping
    res['events'] = [len(h), res.get('at_join'), res.get('joined'), res.get('ending'), h[:5], h[-5:]]
    return res


def parse_stderr(text):
    """the parent program's stderr -> (ids the parent's own emission produced, ids the child's records produced);
    a child line counts under its id only if it is rendered exactly like the parent's own line for that record"""
    import re
    own, child = {}, []
    order = []
    for line in text.splitlines():
        m = re.match(r'^(.*?)(self|child)\|(\d+)\|(x*)$', line)
        if not m:
            continue
        pre, tag, i, pad = m.group(1), m.group(2), int(m.group(3)), m.group(4)
        if tag == 'self':
            own[i] = (pre, pad)
            order.append(i)
        else:
            child.append(i if own.get(i) == (pre, pad) else -1 - i)
    return order, child


def model_lines(cid, case, res):
    n = n_total(case)
    fail = [i for i in range(n) if not passes(case, i)]
    if case.get('unconf') and res.get('exp_self') is not None:
        fail = sorted(set(range(n)) - set(res['exp_self']))
    lines = [f'case {cid} n={n} K={case["K"]} fail={",".join(map(str, fail))} seed={case["seed"] % 100000}']
    lines.append('handled ' + ','.join(map(str, res.get('handled') or [])))
    if res.get('joined'):
        lines.append(f'atjoin {res.get("at_join")}')
    lines.append(f'end joined={int(bool(res.get("joined")))}')
    return lines


# ----------------------------------------------------------------------------------------------
# inner part (fresh interpreter): the real code
# ----------------------------------------------------------------------------------------------

def _size(case, i):
    if case.get('sizes'):
        return case['sizes'][i % len(case['sizes'])]
    return case['size']


_TAG = ['child']


def _emit(case, lo, hi):
    import logging
    loggers = {nm: logging.getLogger(nm) for nm in NAMES + [SYNC, 'cfg']}
    for i in range(lo, hi):
        name, lvl = rec_name_level(case, i)
        if case.get('unconf'):
            loggers[name].log(lvl, '%s|%d|%s', _TAG[0], i, 'x' * _size(case, i))
        else:
            loggers[name].log(lvl, '%d|%s', i, 'x' * _size(case, i))


class EndError(Exception):
    pass


def log_target(case, evs=None):
    lv = case.get('levels')
    if lv:
        lo = 0
        for j, cut in enumerate(lv['cuts']):
            _emit(case, lo, cut + 1)            # ... up to and including the hand-shake record
            evs[0][j].set()                     # paused
            evs[1][j].wait(120)                 # the parent has changed a level and says go
            lo = cut + 1
        _emit(case, lo, case['n'])
    else:
        _emit(case, 0, case['n'])
    if case['gap']:
        time.sleep(case['gap'])
    e = case['ending']
    if e == 'ret':
        return ('done', case['n'])
    if e == 'raise':
        raise EndError(case['n'])
    if e == 'exit0':
        sys.exit(0)
    if e == 'exit3':
        sys.exit(3)
    sys.exit('bye')


_LATE_CASE = [None]


def _late_target(case):
    _LATE_CASE[0] = case
    return log_target(case)


def _make_late_process():
    from mpservice.multiprocessing import Process

    class LateLoggingProcess(Process):
        """`handle_exception` writes a log record: emitted after the target has ended, before the
        result is sent (the docstring in `run` says this must work)"""

        @staticmethod
        def handle_exception(exc):
            case = _LATE_CASE[0]
            if case is not None:
                _emit(case, case['n'], case['n'] + 1)

    return LateLoggingProcess


def __getattr__(name):      # picklable by reference: scen_log.LateLoggingProcess
    if name == 'LateLoggingProcess':
        cls = _make_late_process()
        cls.__module__ = __name__
        cls.__qualname__ = 'LateLoggingProcess'
        globals()['LateLoggingProcess'] = cls
        return cls
    raise AttributeError(name)


def _ending(case, kind, val):
    """canonical answer of join()/result() and whether it is what the ending demands"""
    e = case['ending']
    if kind == 'ret':
        ok = (e in ('ret', 'exit0')) and (case['first'] == 'join' and val is None or
                                          case['first'] == 'result' and (val == ['done', case['n']] or val == ('done', case['n'])
                                                                         if e == 'ret' else val is None))
        return f'ret:{val!r}'[:60], bool(ok)
    cls = type(val).__name__
    if e == 'raise':
        return f'raise:{cls}', cls == 'EndError' and val.args == (case['n'],)
    if e == 'exit3':
        return f'raise:{cls}', isinstance(val, SystemExit) and val.code == 3
    if e == 'exitstr':
        return f'raise:{cls}', isinstance(val, SystemExit) and val.code == 'bye'
    return f'raise:{cls}:{val.args!r}'[:80], False


def _inner(case):
    import logging
    import threading
    t0 = time.time()
    import mpservice
    out = dict(mpservice_file=mpservice.__file__)
    handled = []

    class Rec(logging.Handler):
        def emit(self, record):
            if record.name not in NAMES and record.name not in (SYNC, 'cfg'):
                return      # mpservice's own records (servlet start-up etc.)
            if case.get('slow'):
                time.sleep(case['slow'])
            st = case.get('stall')
            if st and len(handled) == st['at']:
                time.sleep(st['secs'])      # the parent's handler is stuck for a while
            try:
                handled.append(int(str(record.args[0]) if record.args else record.getMessage().split('|')[0]))
            except Exception:
                handled.append(-1)
            if side is not None:
                side.write(f'{handled[-1]}\n')
                side.flush()
            ev = sync_seen.get(handled[-1])
            if ev is not None and record.name == SYNC:
                ev.set()

    if case.get('unconf'):
        return _inner_unconf(case, out, t0)
    side = open(_SIDE_PATH[0], 'w') if case.get('prog_exit') and _SIDE_PATH[0] else None
    lv = case.get('levels')
    sync_seen = {cut: threading.Event() for cut in lv['cuts']} if lv else {}
    root = logging.getLogger()
    root.setLevel(case['root_level'])
    root.addHandler(Rec())
    logging.getLogger('cfg.a').setLevel(10)
    logging.getLogger('cfg.b').setLevel(40)
    logging.getLogger(SYNC).setLevel(10)

    if case['via'] == 'servlet':
        return _inner_servlet(case, out, handled, t0)
    if case['via'] == 'pool':
        return _inner_pool(case, out, handled, t0)

    from mpservice.multiprocessing import Process
    if case['late']:
        import scen_log
        p = scen_log.LateLoggingProcess(target=_late_target, args=(case,))
    elif lv:
        from mpservice.multiprocessing import Event
        evs = ([Event() for _ in lv['cuts']], [Event() for _ in lv['cuts']])
        p = Process(target=log_target, args=(case, evs))

        def leveler():
            for j, cut in enumerate(lv['cuts']):
                # change a level only when everything emitted so far has been handled (the hand-shake record is the
                # last of its segment and the reader handles in order); if it never arrives go on after the child paused
                if not sync_seen[cut].wait(HANG_BOUND):
                    out.setdefault('sync_missed', []).append(cut)
                tgt, level = lv['changes'][j]
                (logging.getLogger() if tgt == 'root' else logging.getLogger(tgt)).setLevel(level)
                evs[1][j].set()

        threading.Thread(target=leveler, daemon=True).start()
    else:
        p = Process(target=log_target, args=(case,), daemon=bool(case.get('daemon')) or None)
    p.start()
    scen_proc._KEEP.append(p)
    box = []

    def call():
        try:
            r = p.join() if case['first'] == 'join' else p.result()
            box.append(('ret', r))
        except BaseException as e:  # noqa
            box.append(('raise', e))
        box.append(len(handled))

    th = threading.Thread(target=call, daemon=True)
    th.start()
    th.join(HANG_BOUND)
    out['joined'] = not th.is_alive()
    if out['joined']:
        out['at_join'] = box[1]
        out['ending'], out['ending_ok'] = _ending(case, *box[0])
    out['t_join'] = round(time.time() - t0, 3)
    if case.get('prog_exit'):
        # the parent program ends now (normal interpreter exit in _inner_main); what it handled is on the side file
        out['exitcode'] = p.exitcode
        out['handled'] = None
        out['t_total'] = round(time.time() - t0, 3)
        return out
    _settle(handled)
    out['exitcode'] = p.exitcode
    out['handled'] = list(handled)
    out['t_total'] = round(time.time() - t0, 3)
    return out


def _inner_unconf(case, out, t0):
    """the parent program does not install any recording handler; its own stderr goes to the side file"""
    import logging
    import threading
    sys.stderr = open(_SIDE_PATH[0], 'w', buffering=1)      # the parent's stderr only; the children keep fd 2
    if case['unconf'] == 'noprop':
        h = logging.StreamHandler()
        h.setFormatter(logging.Formatter('ROOT:%(message)s'))
        logging.getLogger().addHandler(h)
        logging.getLogger('cfg.b').propagate = False          # and no handler of its own
    # 1. the records emitted in the parent itself
    _TAG[0] = 'self'
    _emit(case, 0, n_total(case))
    _TAG[0] = 'child'
    sys.stderr.flush()

    def child_lines():
        with open(_SIDE_PATH[0]) as f:
            return sum(1 for line in f if 'child|' in line)

    # 2. the same records emitted in a child
    box = []
    if case['via'] == 'pool':
        from mpservice.multiprocessing import Pool

        def call():
            try:
                pool = Pool(1)
                scen_proc._KEEP.append(pool)
                got = [pool.apply(pool_task, (case, x)) for x in range(case['calls'])]
                assert got == list(range(case['calls']))
                pool.close()
                pool.join()
                box.append(('ret', None))
            except BaseException as e:  # noqa
                box.append(('raise', e))
            box.append(child_lines())
    else:
        from mpservice.multiprocessing import Process
        p = Process(target=log_target, args=(case,))
        p.start()
        scen_proc._KEEP.append(p)

        def call():
            try:
                r = p.join() if case['first'] == 'join' else p.result()
                box.append(('ret', r))
            except BaseException as e:  # noqa
                box.append(('raise', e))
            box.append(child_lines())

    th = threading.Thread(target=call, daemon=True)
    th.start()
    th.join(HANG_BOUND + (20 if case['via'] == 'pool' else 0))
    out['joined'] = not th.is_alive()
    if out['joined']:
        out['at_join'] = box[1]
        if case['via'] == 'pool':
            out['ending'], out['ending_ok'] = f'{box[0][0]}:{box[0][1]!r}'[:80], box[0][0] == 'ret'
        else:
            out['ending'], out['ending_ok'] = _ending(case, *box[0])
    time.sleep(0.3)
    sys.stderr.flush()
    out['exitcode'] = (0 if out['joined'] else None) if case['via'] == 'pool' else p.exitcode
    out['handled'] = None           # read from the side file by the outer runner
    out['t_total'] = round(time.time() - t0, 3)
    return out


def _settle(handled):
    last, t_same, t1 = len(handled), time.time(), time.time()
    while time.time() - t1 < 10:
        time.sleep(0.05)
        if len(handled) != last:
            last, t_same = len(handled), time.time()
        elif time.time() - t_same >= 0.3:
            break


def _make_worker():
    from mpservice.mpserver import Worker

    class LogWorker(Worker):
        def __init__(self, case=None, **kw):
            super().__init__(**kw)
            self.case = case
            self.k = 0

        def call(self, x):
            n = self.case['n']
            _emit(self.case, x * n, (x + 1) * n)
            return x

    return LogWorker


def _inner_servlet(case, out, handled, t0):
    import threading
    import scen_log
    from mpservice.mpserver import ProcessServlet, Server
    box = []

    def body():
        try:
            with Server(ProcessServlet(scen_log.LogWorker, case=case)) as server:
                for x in range(case['calls']):
                    assert server.call(x) == x
            box.append(('ret', None))
        except BaseException as e:  # noqa
            box.append(('raise', e))
        box.append(len(handled))

    th = threading.Thread(target=body, daemon=True)
    th.start()
    th.join(HANG_BOUND + 20)
    out['joined'] = not th.is_alive()
    if out['joined']:
        out['at_join'] = box[1]
        out['ending'] = f'{box[0][0]}:{box[0][1]!r}'[:80]
        out['ending_ok'] = box[0][0] == 'ret'
    _settle(handled)
    out['exitcode'] = 0 if out['joined'] else None
    out['handled'] = list(handled)
    out['t_total'] = round(time.time() - t0, 3)
    return out


def pool_task(case, x):
    n = case['n']
    _emit(case, x * n, (x + 1) * n)
    return x


def _inner_pool(case, out, handled, t0):
    """one-worker pool built on mpservice's spawn context: the worker is an mpservice Process;
    tasks log; close() + join() let the worker end by itself"""
    import threading
    from mpservice.multiprocessing import Pool
    box = []

    def body():
        try:
            pool = Pool(1)
            scen_proc._KEEP.append(pool)
            got = [pool.apply(pool_task, (case, x)) for x in range(case['calls'])]
            assert got == list(range(case['calls']))
            pool.close()
            pool.join()
            box.append(('ret', None))
        except BaseException as e:  # noqa
            box.append(('raise', e))
        box.append(len(handled))

    th = threading.Thread(target=body, daemon=True)
    th.start()
    th.join(HANG_BOUND + 20)
    out['joined'] = not th.is_alive()
    if out['joined']:
        out['at_join'] = box[1]
        out['ending'] = f'{box[0][0]}:{box[0][1]!r}'[:80]
        out['ending_ok'] = box[0][0] == 'ret'
    _settle(handled)
    out['exitcode'] = 0 if out['joined'] else None
    out['handled'] = list(handled)
    out['t_total'] = round(time.time() - t0, 3)
    return out


_orig_getattr = __getattr__


def __getattr__(name):      # noqa: F811
    if name == 'LogWorker':
        cls = _make_worker()
        cls.__module__ = __name__
        cls.__qualname__ = 'LogWorker'
        globals()['LogWorker'] = cls
        return cls
    return _orig_getattr(name)


_SIDE_PATH = [None]


def _inner_main(argv):
    cf, of = argv
    _SIDE_PATH[0] = of + '.side'
    with open(cf) as f:
        case = json.load(f)
    try:
        res = _inner(case)
    except BaseException as e:  # noqa
        import traceback
        res = dict(infra='inner crashed: ' + ''.join(traceback.format_exception(type(e), e, e.__traceback__))[-1500:])
    tmp = of + '.tmp'
    with open(tmp, 'w') as f:
        json.dump(res, f)
    os.replace(tmp, of)
    sys.stdout.flush()
    if case.get('prog_exit') and not res.get('infra') and res.get('joined'):
        sys.exit(0)         # a normal end of the parent program: daemon threads (a daemonic child's log reader) die with it
    os._exit(0)


if __name__ == '__main__':
    if len(sys.argv) >= 4 and sys.argv[1] == '--inner':
        import scen_log
        scen_log._inner_main(sys.argv[2:4])
