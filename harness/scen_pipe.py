"""
Scenario (in-process, real FIFOs, threads; `sched=False`): the REAL `mpservice.pipe.Server` and
`Client` created on the same path in one process, two sender threads and two receiver threads, every
`send*` (before the call) and every `recv_bytes` (after it returned) logged in one total order with
the exact message bytes; the trace is replayed through the proved model `Pipe` (`drv pipe`) and a
monitor evaluates C18 directly (each endpoint receives exactly what its peer sent, in order).

Additionally the framing of the model (`Pipe.frame` / `Pipe.readFrame`) is compared byte-exactly with
what a real `multiprocessing.connection.Connection` writes to an OS pipe (`frame` lines).

The two-process variant (with `recv()` unpickling on the far side) is in scen_sock.py, kind 'pipe'.
"""
import os
import pickle
import random
import shutil
import tempfile
import threading
from multiprocessing.connection import Connection
from multiprocessing.reduction import ForkingPickler

import mpservice.pipe as P
from scen_frame import make_payload

MODEL = 'pipe'
HANG = 12.0


def gen_case(rng, tier):
    def side(n):
        out = []
        bigs = 1 if tier == 'quick' else 2
        for _ in range(n):
            cls = rng.choice(['empty', 'hdr', 'nl', 'rand', 'nested', 'nested', 'wrapped', 'str', 'lenlike'])
            size = rng.choice([0, 1, 3, 4, 5, 100, 4096, 16383, 16384, 16385])
            if bigs and rng.random() < 0.12:
                size = rng.choice([65535, 65536, 65537, 150000])
                cls = rng.choice(['hdr', 'rand'])
                bigs -= 1
            if cls == 'str':
                size = min(size, 5000)
            raw = cls in ('empty', 'hdr', 'nl', 'rand', 'lenlike')
            out.append(dict(pl=[cls, size, rng.randrange(1 << 30)], raw=raw and rng.random() < 0.7))
        return out
    ns = rng.choice([0, 1, 2, 4, 8] if tier == 'quick' else [0, 1, 3, 8, 20])
    nc = rng.choice([0, 1, 2, 4, 8] if tier == 'quick' else [0, 1, 3, 8, 20])
    if ns + nc == 0:
        ns = 2
    return dict(kind='pipeip', s=side(ns), c=side(nc), first=rng.choice(['server', 'client']),
                nframes=rng.choice([1, 2, 3]), seed=rng.randrange(1 << 30))


def _message(spec):
    """-> (object handed to send / bytes handed to send_bytes, raw?, the message bytes on the pipe)"""
    cls, size, seed = spec['pl']
    if cls == 'lenlike':      # payload that itself looks like length headers (incl. the -1 escape)
        rng = random.Random(seed)
        obj = (b'\xff\xff\xff\xff' + b'\x00\x00\x00\x00\x00\x00\x00\x02' + b'\x00\x00\x00\x01' +
               rng.randbytes(size))[:max(size, 4)]
    else:
        obj = make_payload(spec['pl'])
    if spec['raw'] and isinstance(obj, (bytes, bytearray)):
        return bytes(obj), True, bytes(obj)
    return obj, False, bytes(ForkingPickler.dumps(obj))


def run_case(case):
    import time
    t0 = time.time()
    res = _run_case(case)
    res['wall'] = round(time.time() - t0, 3)
    return res


def _run_case(case):
    res = _once(case, HANG)
    if res['monitors'] and all(m['rule'] in ('pipe-missing', 'pipe-error') for m in res['monitors']):
        first = [m['rule'] for m in res['monitors']]      # only a wait that ran into its bound: confirm once
        res = _once(case, 2 * HANG)
        res['retried_after'] = first
    return res


def _once(case, hang):
    ev = []
    mon = []
    tmpd = tempfile.mkdtemp(prefix='verif-c18-')
    path = os.path.join(tmpd, 'a', 'p')
    sent = {'s': [], 'c': []}
    got = {'s': [], 'c': []}
    objs_ok = [True]
    errs = []
    try:
        if case['first'] == 'server':
            srv = P.Server(path)
            cli = P.Client(path)
        else:
            cli = P.Client(path)
            srv = P.Server(path)
        ends = {'s': srv, 'c': cli}
        plan = {'s': [_message(x) for x in case['s']], 'c': [_message(x) for x in case['c']]}

        def sender(r):
            try:
                for obj, raw, b in plan[r]:
                    sent[r].append(b)
                    ev.append(('send', r, b))
                    if raw:
                        ends[r].send_bytes(obj)
                    else:
                        ends[r].send(obj)
            except BaseException as e:  # noqa
                errs.append(f'send {r}: {e!r}')

        def receiver(r):
            peer = 'c' if r == 's' else 's'
            try:
                for obj, raw, _b in plan[peer]:
                    b = ends[r].recv_bytes()
                    ev.append(('recv', r, bytes(b)))
                    got[r].append(bytes(b))
                    if not raw and pickle.loads(b) != obj:
                        objs_ok[0] = False
            except BaseException as e:  # noqa
                errs.append(f'recv {r}: {e!r}')

        ths = [threading.Thread(target=f, args=(r,), daemon=True) for r in ('s', 'c') for f in (sender, receiver)]
        for t in ths:
            t.start()
        import time
        deadline = time.time() + hang
        for t in ths:
            t.join(max(0.05, deadline - time.time()))
        if any(t.is_alive() for t in ths):
            errs.append('a sender/receiver thread is still blocked after the hang bound')
        # framing of a real Connection on an OS pipe vs the model
        frames = []
        rng = random.Random(case['seed'])
        pool = [b for (_o, _r, b) in plan['s'] + plan['c'] if len(b) <= 60000] or [b'']
        for _ in range(case['nframes']):
            m = rng.choice(pool)
            rfd, wfd = os.pipe()
            try:
                w = Connection(wfd, readable=False)
                w.send_bytes(m)
                want = 4 + len(m)
                raw = b''
                while len(raw) < want:
                    raw += os.read(rfd, want - len(raw))
                frames.append((m, raw))
                w.close()
            finally:
                os.close(rfd)
    finally:
        shutil.rmtree(tmpd, ignore_errors=True)
    for r, peer, name in (('c', 's', 'server->client'), ('s', 'c', 'client->server')):
        if got[r] != sent[peer]:
            if sorted(got[r]) == sorted(sent[peer]):
                rule = 'pipe-order'
            elif got[r] == sent[peer][:len(got[r])]:
                rule = 'pipe-missing'
            else:
                rule = 'pipe-corrupt'
            mon.append(dict(prop='C18', rule=rule, detail=f'{name}: sent {len(sent[peer])} messages, received {len(got[r])}; errors {errs}'))
    if not objs_ok[0]:
        mon.append(dict(prop='C18', rule='pipe-corrupt', detail='an unpickled object differs from the object sent'))
    if errs and not mon:
        mon.append(dict(prop='C18', rule='pipe-error', detail='; '.join(errs)[:500]))
    return dict(monitors=mon, events=[(k, r, len(b)) for k, r, b in ev],
                trace=[(k, r, b.hex() or '-') for k, r, b in ev], frames=[(m.hex() or '-', w.hex()) for m, w in frames],
                nmsg=len(sent['s']) + len(sent['c']), errors=errs)


def nontrivial(case, res):
    return res.get('nmsg', 0) >= 2


def model_lines(cid, case, res):
    lines = [f'case {cid}']
    for k, r, h in res['trace']:
        if k == 'send':
            lines.append(f'a send {r} {h}')
            lines.append(f'a flushall {r}')
        else:
            lines.append(f'a recv {r} {h}')
    for m, w in res['frames']:
        lines.append(f'frame {m} {w}')
    lines.append(f'end quiet={int(not res["errors"] and not res["monitors"])}')
    return lines
