"""
Scenario: `Stream` operator pipelines (C03), engine E3 (plain differential runs, real threads for
buffer/parmap, no scheduler: run with `sched=False`).

One case = (source values, optional terminal source error, program = list of operators,
consumption mode, partial-consumption sizes).  `run_case` builds the REAL `Stream` over an
instrumented source (pull counter), consumes it completely (iteration / `collect()` / `drain()`)
and partially (first k items), and records outputs, ending and pull counts.  Monitors evaluate the
property statement directly (outputs = the Python reference meaning `ref`, nothing pulled while
building, bounded look-ahead of one-to-one chains, shuffle = permutation).  `model_lines` hands the
same case and the observations to `drv pipeline`, which compares them with the Lean model
(`semAll` and the pull machine).

Values (JSON form in the case -> Python object -> model syntax):
    int -> int -> `5`;  None -> None -> `N`;  {"e":[tag,arg]} -> TAGS[tag](arg) -> `E<tag>:<arg>`;
    {"p":[a,b]} -> (a, b) -> `(a,b)`;  [..] -> list -> `[..]`
The named function library below is interpreted identically by lean/MpsVerif/Model/Pipeline.lean
(`Fn.eval`, `Fn2.eval`).
"""
import gc
import itertools
import random
import threading

import mpservice.streamer._streamer as _S
from mpservice.streamer import Stream

MODEL = 'pipeline'
CRASH_PROPS = ['C03']   # an exception escaping from mpservice code while a case is driven is reported for these
HANG_S = 20.0


# ----------------------------------------------------------------------------------------------
# value universe
# ----------------------------------------------------------------------------------------------

class TBase(Exception):
    tag = -1

    def __eq__(self, other):
        return type(self) is type(other) and self.args == other.args

    def __hash__(self):
        return hash((self.tag, self.args))


class T0(TBase):
    tag = 0


class T1(TBase):
    tag = 1


class T2(TBase):
    tag = 2


class T3(TBase):
    tag = 3


class LibErr(TBase):
    """a library function was applied to the wrong kind of value (model: `libErr`)"""
    tag = 998


TAGS = {0: T0, 1: T1, 2: T2, 3: T3, 998: LibErr, 999: TypeError}


def liberr():
    return LibErr(0)


class _Ambiguous:
    def __bool__(self):
        raise ValueError('the truth value of an element-wise comparison is ambiguous')


class Vec(list):
    """array-like element: a list whose `==` / `!=` is element-wise and has no truth value (what numpy arrays and
    data frames do).  The sequential meaning of the operators never compares elements (only groupby compares
    KEYS), so such elements must pass through like any other list."""
    def __eq__(self, other):
        return _Ambiguous()

    def __ne__(self, other):
        return _Ambiguous()

    __hash__ = None


def to_py(j):
    if j is None or type(j) is int:
        return j
    if isinstance(j, list):
        return [to_py(x) for x in j]
    if 'e' in j:
        return TAGS[j['e'][0]](j['e'][1])
    if 'p' in j:
        return (to_py(j['p'][0]), to_py(j['p'][1]))
    raise ValueError(j)


def canon_exc(e):
    """exception object -> (tag, arg); anything unexpected -> ('other', repr)"""
    if isinstance(e, TBase):
        return (e.tag, e.args[0] if e.args else 0)
    if type(e) is TypeError:
        return (999, 0)
    return ('other', repr(e))


def show(v):
    if v is None:
        return 'N'
    if type(v) is bool:
        return '?bool'
    if type(v) is int:
        return str(v)
    if isinstance(v, list):
        return '[' + ','.join(show(x) for x in v) + ']'
    if isinstance(v, tuple) and len(v) == 2:
        return f'({show(v[0])},{show(v[1])})'
    if isinstance(v, BaseException):
        t, a = canon_exc(v)
        return f'E{t}:{a}' if t != 'other' else '?exc:' + a.replace(' ', '_')
    return '?' + type(v).__name__


def show_err(e):
    return '-' if e is None else f'E{e[0]}:{e[1]}'


def show_j(j):
    return show(to_py(j))


# ----------------------------------------------------------------------------------------------
# the named function library (== Pipeline.Fn.eval / Fn2.eval)
# ----------------------------------------------------------------------------------------------

def _is_int(x):
    return type(x) is int


def _elems(x):
    """== Val.elems: what is iterable in the model (lists and 2-tuples)"""
    if isinstance(x, list):
        return list(x)
    if isinstance(x, tuple) and len(x) == 2:
        return list(x)
    return None


def make_fn(spec):
    w = spec.split(':')
    name, a = w[0], [int(z) for z in w[1:]]
    if name == 'ident':
        return lambda x: x
    if name == 'add':
        def f(x):
            if not _is_int(x):
                raise liberr()
            return x + a[0]
        return f
    if name == 'mul':
        def f(x):
            if not _is_int(x):
                raise liberr()
            return x * a[0]
        return f
    if name == 'isEven':
        def f(x):
            if not _is_int(x):
                raise liberr()
            return 1 if x % 2 == 0 else 0
        return f
    if name == 'mod':
        def f(x):
            if not _is_int(x) or a[0] == 0:
                raise liberr()
            return x % a[0]
        return f
    if name == 'lenOf':
        def f(x):
            l = _elems(x)
            if l is None:
                raise liberr()
            return len(l)
        return f
    if name == 'raiseIfMul':
        def f(x):
            if _is_int(x) and a[0] != 0 and x % a[0] == 0:
                raise TAGS[a[1]](x)
            return x
        return f
    if name == 'excIfMul':
        def f(x):
            if _is_int(x) and a[0] != 0 and x % a[0] == 0:
                return TAGS[a[1]](x)
            return x
        return f
    if name == 'explode':
        def f(x):
            if _is_int(x) and 0 < x <= 4:
                return [x] * x
            return []
        return f
    if name == 'dup':
        return lambda x: (x, x)
    if name == 'wrap':
        return lambda x: [x]
    if name == 'first':
        def f(x):
            l = _elems(x)
            if not l:
                raise liberr()
            return l[0]
        return f
    if name == 'sumOf':
        def f(x):
            l = _elems(x)
            if l is None or not all(_is_int(z) for z in l):
                raise liberr()
            return sum(l)
        return f
    raise ValueError(spec)


def make_fn2(spec):
    w = spec.split(':')
    name, a = w[0], [int(z) for z in w[1:]]
    if name == 'add':
        def g(z, x):
            if not (_is_int(z) and _is_int(x)):
                raise liberr()
            return z + x
        return g
    if name == 'max':
        def g(z, x):
            if not (_is_int(z) and _is_int(x)):
                raise liberr()
            return x if z < x else z
        return g
    if name == 'second':
        return lambda z, x: x
    if name == 'pairUp':
        return lambda z, x: (z, x)
    if name == 'failOn':
        def g(z, x):
            if not (_is_int(z) and _is_int(x)):
                raise liberr()
            if a[0] != 0 and x % a[0] == 0:
                raise TAGS[a[1]](x)
            return z + x
        return g
    raise ValueError(spec)


def truthy(v):
    """== Val.truthy (and Python's own truth value on this universe)"""
    return bool(v)


def sel_has(sel, tag):
    if sel == 'none':
        return False
    if sel == 'all':
        return True
    return tag in sel


def sel_py(sel, aslist=False):
    """the Python argument for a selector; a set of classes is passed as a tuple or — the
    documentation of filter_exceptions / peek allows it — as a list"""
    if sel == 'none':
        return None
    if sel == 'all':
        return Exception
    return [TAGS[t] for t in sel] if aslist else tuple(TAGS[t] for t in sel)


def sel_show(sel):
    if sel in ('none', 'all'):
        return sel
    return 't:' + ','.join(map(str, sel))


def apply_shuffle(cs, xs):
    """== Pipeline.applyShuffle: the scripted `random.shuffle`"""
    if not xs:
        return []
    r = apply_shuffle(cs[1:], xs[1:])
    c = cs[0] if cs else 0
    r.insert(c % (len(r) + 1), xs[0])
    return r


class ScriptedRandom:
    """stands in for the module `random` inside mpservice.streamer._streamer"""

    def __init__(self, idx, perm):
        self.idx = list(idx)
        self.perm = list(perm)
        self.lock = threading.Lock()

    def randrange(self, n):
        with self.lock:
            c = self.idx.pop(0) if self.idx else 0
        return c % n

    def shuffle(self, buf):
        buf[:] = apply_shuffle(self.perm, list(buf))

    def random(self):
        return 0.5


# ----------------------------------------------------------------------------------------------
# the reference meaning (the property statement): terminated streams, in Python
# ----------------------------------------------------------------------------------------------

class _Raised(Exception):
    def __init__(self, err):
        self.err = err


def _call(f, *a):
    try:
        return f(*a)
    except Exception as e:   # noqa
        raise _Raised(canon_exc(e))


def ref_op(op, cur, cerr):
    """documented sequential meaning of one operator on (values, terminal error)"""
    k = op[0]
    out = []
    err = cerr
    try:
        if k == 'map':
            f = make_fn(op[1])
            for x in cur:
                out.append(_call(f, x))
        elif k == 'filter':
            f = make_fn(op[1])
            for x in cur:
                if truthy(_call(f, x)):
                    out.append(x)
        elif k == 'filterExc':
            drop, keep = op[1], op[2]
            for x in cur:
                if isinstance(x, BaseException):
                    t, a = canon_exc(x)
                    if sel_has(keep, t):
                        out.append(x)
                    elif sel_has(drop, t):
                        pass
                    else:
                        raise _Raised((t, a))
                else:
                    out.append(x)
        elif k in ('peek', 'buffer'):
            out = list(cur)
        elif k == 'head':
            n = op[1]
            if len(cur) > n:
                out, err = cur[:n], None      # element n+1 was seen: ends cleanly
            else:
                out = list(cur)               # source exhausted: its ending is the ending
        elif k == 'tail':
            n = op[1]
            out = (cur[-n:] if n < len(cur) else list(cur)) if cerr is None else []
        elif k == 'batch':
            n = op[1]
            out = [cur[i:i + n] for i in range(0, len(cur), n)]
            if cerr is not None and out and len(out[-1]) < n:
                out.pop()                     # a partial batch is lost when the source fails
        elif k == 'unbatch':
            for x in cur:
                l = _elems(x)
                if l is None:
                    raise _Raised((999, 0))
                out.extend(l)
        elif k == 'groupby':
            f = make_fn(op[1])
            good = []
            for x in cur:
                try:
                    good.append((f(x), x))
                except Exception as e:   # noqa
                    err = canon_exc(e)    # a failing key ends the stream there
                    break
            out = [(kk, [v for _k, v in g]) for kk, g in itertools.groupby(good, lambda kv: kv[0])]
            if err is not None and out:
                out.pop()                 # the open group is lost when the stream fails
        elif k == 'accumulate':
            g = make_fn2(op[1])
            z = _S.NOTSET if op[2] is None else to_py(op[2][0])
            for x in cur:
                z = x if z is _S.NOTSET else _call(g, z, x)
                out.append(z)
        elif k == 'parmap':
            f = make_fn(op[1])
            rx, re = op[3], op[4]
            for x in cur:
                try:
                    y = f(x)
                except Exception as e:   # noqa
                    if not re:
                        raise _Raised(canon_exc(e))
                    y = e
                out.append((x, y) if rx else y)
        elif k == 'shuffle':
            n, idx, perm = op[1], list(op[2]), list(op[3])
            buf = []
            for x in cur:
                if len(buf) < n:
                    buf.append(x)
                else:
                    c = idx.pop(0) if idx else 0
                    out.append(buf[c % n])
                    buf[c % n] = x
            if cerr is None:
                out.extend(apply_shuffle(perm, buf))
        else:
            raise ValueError(op)
    except _Raised as r:
        err = r.err
    return out, err


def ref(ops, vals, err):
    cur, cerr = list(vals), err
    for op in ops:
        cur, cerr = ref_op(op, cur, cerr)
    return cur, cerr


ONE_TO_ONE = {'map': 0, 'peek': 0, 'accumulate': 0, 'head': 1}


def slack(ops):
    """C03_incremental's constant; None when the chain is not one-to-one"""
    s = 0
    for op in ops:
        if op[0] in ONE_TO_ONE:
            s += ONE_TO_ONE[op[0]]
        elif op[0] == 'buffer':
            s += op[1] + 2
        elif op[0] == 'parmap':
            s += 2 * op[2] + 3
        else:
            return None
    return s


# ----------------------------------------------------------------------------------------------
# building and running the real Stream
# ----------------------------------------------------------------------------------------------

class Source:
    """instrumented re-iterable: counts the elements handed out (over all its iterators);
    every iterator raises `err` after the last element"""

    def __init__(self, vals, err):
        self.vals = vals
        self.err = err
        self.pulled = 0
        self.iters = 0
        self.ends = 0          # iterators that were asked for more than there is

    def __iter__(self):
        self.iters += 1
        return _SourceIter(self)


class _SourceIter:
    def __init__(self, src):
        self.src = src
        self.pos = 0
        self.ended = False

    def __iter__(self):
        return self

    def __next__(self):
        src = self.src
        if self.ended:
            raise StopIteration
        if self.pos < len(src.vals):
            v = src.vals[self.pos]
            self.pos += 1
            src.pulled += 1
            return v
        self.ended = True
        src.ends += 1
        if src.err is not None:
            raise TAGS[src.err[0]](src.err[1])
        raise StopIteration


def _kw1(f):
    """the same function, taking one extra keyword argument (operators forward `**kwargs` to the user function)"""
    def fk(x, *, kw_):
        assert kw_ == 7
        return f(x)
    return fk


def _kw2(g):
    def gk(z, x, *, kw_):
        assert kw_ == 7
        return g(z, x)
    return gk


def build(ops, src, prints, kw=False):
    """src: the source, or (internal) a Stream to extend.  kw: every user function is handed to its operator together with a keyword argument (legal use of the
    operators' `**kwargs`; same meaning)"""
    s = src if isinstance(src, Stream) else Stream(src)
    if kw:
        for op in ops:
            k = op[0]
            if k == 'map':
                s.map(_kw1(make_fn(op[1])), kw_=7)
            elif k == 'filter':
                s.filter(_kw1(make_fn(op[1])), kw_=7)
            elif k == 'groupby':
                s.groupby(_kw1(make_fn(op[1])), kw_=7).map(lambda kv: (kv[0], list(kv[1])))
            elif k == 'accumulate':
                if op[2] is None:
                    s.accumulate(_kw2(make_fn2(op[1])), kw_=7)
                else:
                    s.accumulate(_kw2(make_fn2(op[1])), to_py(op[2][0]), kw_=7)
            elif k == 'parmap':
                s.parmap(_kw1(make_fn(op[1])), executor='thread', concurrency=op[2], return_x=op[3],
                         return_exceptions=op[4], kw_=7)
            else:
                build([op], s, prints)
        return s
    for op in ops:
        k = op[0]
        if k == 'map':
            s.map(make_fn(op[1]))
        elif k == 'filter':
            s.filter(make_fn(op[1]))
        elif k == 'filterExc':
            aslist = len(op) > 3 and op[3]
            s.filter_exceptions(sel_py(op[1], aslist), sel_py(op[2], aslist))
        elif k == 'peek':
            kind = op[2] if len(op) > 2 else 'default'
            if kind == 'default':
                s.peek(print_func=prints.append, interval=op[1])
            else:
                s.peek(print_func=prints.append, interval=op[1],
                       exc_types={'none': None, 'empty': [], 'list': [T0, T2], 'tuple': (T1, T3)}[kind])
        elif k == 'head':
            s.head(op[1])
        elif k == 'tail':
            s.tail(op[1])
        elif k == 'batch':
            s.batch(op[1])
        elif k == 'unbatch':
            s.unbatch()
        elif k == 'groupby':
            s.groupby(make_fn(op[1])).map(lambda kv: (kv[0], list(kv[1])))
        elif k == 'accumulate':
            if op[2] is None:
                s.accumulate(make_fn2(op[1]))
            else:
                s.accumulate(make_fn2(op[1]), to_py(op[2][0]))
        elif k == 'buffer':
            s.buffer(op[1])
        elif k == 'parmap':
            s.parmap(make_fn(op[1]), executor='thread', concurrency=op[2], return_x=op[3],
                     return_exceptions=op[4])
        elif k == 'shuffle':
            s.shuffle(op[1])
        else:
            raise ValueError(op)
    return s


def _scripts(ops):
    for op in ops:
        if op[0] == 'shuffle':
            return op[2], op[3]
    return [], []


def _one_run(case, k, mode):
    """-> dict(vals=model syntax | None (drain), n, end, pulled, built_pulled, prints)"""
    vals = [to_py(j) for j in case['vals']]
    if case.get('arraylike'):
        vals = [Vec(v) if type(v) is list else v for v in vals]
    err = tuple(case['err']) if case['err'] is not None else None
    src = Source(vals, err)
    prints = []
    stream = build(case['ops'], src, prints, kw=bool(case.get('kw')))
    built = (src.pulled, src.iters)
    out = []
    n = 0
    end = 'done'
    if k == 'again':
        # consume the same Stream object a second time: a Stream over a re-iterable source is
        # re-iterable (every `__iter__` starts fresh generators), so the second pass must give
        # the same answer as the first
        try:
            for _ in stream:
                pass
        except Exception:   # noqa
            pass
        k = None
        first = src.pulled
        first_ends = src.ends
        again = True
        _S.random = ScriptedRandom(*_scripts(case['ops']))    # the script starts over, too
    else:
        first = 0
        first_ends = 0
        again = False
    try:
        if k is None:
            if mode == 'collect':
                out = stream.collect()
                n = len(out)
            elif mode == 'drain':
                out = None
                n = stream.drain()
            else:
                for v in stream:
                    out.append(v)
                n = len(out)
        else:
            it = iter(stream)
            end = 'more'
            try:
                for _ in range(k):
                    try:
                        out.append(next(it))
                    except StopIteration:
                        end = 'done'
                        break
                n = len(out)
                pulled_at_k = src.pulled
                ends_at_k = src.ends
            finally:
                # abandon the iterator the way a `break` does
                close = getattr(it, 'close', None)
                if close is not None:
                    close()
                del it
    except Exception as e:   # noqa
        t, a = canon_exc(e)
        end = f'E{t}:{a}' if t != 'other' else '?exc:' + a.replace(' ', '_')
        if k is None and mode in ('collect', 'drain'):
            out = None          # the values delivered before the exception are not observable
        n = len(out) if out is not None else -1
        pulled_at_k = src.pulled
        ends_at_k = src.ends
    pulled = (src.pulled - first) if k is None else pulled_at_k
    ended = (src.ends - first_ends) if k is None else ends_at_k
    if again:
        k = 'again'
    return dict(vals=None if out is None else '[' + ','.join(show(v) for v in out) + ']', n=n, end=end,
                pulled=pulled, ended=ended, built=built, prints=len(prints), k=k, mode=mode)


def _inter_run(case):
    """Two live iterations of ONE Stream object: start an iteration, take up to 2 elements, run a complete
    second iteration of the same Stream, then finish the first.  Every `__iter__` starts fresh operator
    state, so both must deliver what a lone iteration delivers (seeded change C03-9: an accumulator that
    rewinds itself instead of being created afresh is right one-after-another and wrong interleaved)."""
    vals = [to_py(j) for j in case['vals']]
    if case.get('arraylike'):
        vals = [Vec(v) if type(v) is list else v for v in vals]
    err = tuple(case['err']) if case['err'] is not None else None
    src = Source(vals, err)
    stream = build(case['ops'], src, [], kw=bool(case.get('kw')))

    def fmt(out, end):
        return ['[' + ','.join(show(v) for v in out) + ']', end]

    def pull(it, out, limit):
        try:
            while limit is None or len(out) < limit:
                out.append(next(it))
            return 'more'
        except StopIteration:
            return 'done'
        except Exception as e:   # noqa
            t, a = canon_exc(e)
            return f'E{t}:{a}' if t != 'other' else '?exc:' + a.replace(' ', '_')

    it1 = iter(stream)
    out1 = []
    end1 = pull(it1, out1, 2)
    out2 = []
    end2 = pull(iter(stream), out2, None)
    if end1 == 'more':
        end1 = pull(it1, out1, None)
    del it1
    return dict(first=fmt(out1, end1), middle=fmt(out2, end2))


def run_case(case):
    box = {}

    def body():
        idx, perm = _scripts(case['ops'])
        runs = []
        for k in [None] + list(case['ks']) + (['again'] if case.get('again') else []):
            _S.random = ScriptedRandom(idx, perm)
            try:
                runs.append(_one_run(case, k, case['consume']))
            finally:
                _S.random = random
        if case.get('again') and not any(op[0] in ('shuffle', 'buffer', 'parmap') for op in case['ops']):
            # only pipelines of single-threaded operators: `Buffer` / `Parmapper` keep the state of the running
            # iteration on the operator object itself (two simultaneous iterations of one such Stream are outside
            # what C03 quantifies over; see DESIGN 9.5, round 6)
            box['inter'] = _inter_run(case)
        gc.collect()
        box['runs'] = runs

    th = threading.Thread(target=body, daemon=True, name='c03-case')
    th.start()
    th.join(HANG_S)
    res = dict(monitors=[], events=[])
    mon = res['monitors']
    if th.is_alive():
        res['hang'] = True
        res['runs'] = []
        mon.append(dict(prop='C03', rule='hang', detail=f'consuming the stream did not end within {HANG_S}s'))
        return res
    if 'runs' not in box:
        raise RuntimeError('scenario body died')
    runs = box['runs']
    res['runs'] = runs
    res['events'] = [[r['k'], r['vals'], r['n'], r['end'], r['pulled'], r['ended']] for r in runs]
    # ------------------------------------------------------------------ monitors (the property)
    vals = [to_py(j) for j in case['vals']]
    err = tuple(case['err']) if case['err'] is not None else None
    exp, eerr = ref(case['ops'], vals, err)
    sl = slack(case['ops'])
    first_ok = True
    inter = box.get('inter')
    if inter is not None:
        res['inter'] = inter
        r0 = runs[0]
        wend0 = 'done' if eerr is None else show_err(eerr)
        if r0['k'] is None and r0['vals'] is not None and r0['end'] == wend0 and \
                r0['vals'] == '[' + ','.join(show(v) for v in exp) + ']':
            for which in ('first', 'middle'):
                if inter[which] != [r0['vals'], r0['end']]:
                    mon.append(dict(prop='C03', rule='interleaved-iterations',
                                    detail=f'two live iterations of one Stream, the {which} one: got {inter[which][0]} '
                                           f'{inter[which][1]}; a lone iteration of the same Stream gave {r0["vals"]} {r0["end"]}'))
    for r in runs:
        k = r['k']
        what = 'full' if k is None else ('again' if k == 'again' else f'take {k}')
        if k == 'again':
            k = None
        if r['built'] != (0, 0):
            mon.append(dict(prop='C03', rule='lazy-build', detail=f'{what}: building pulled {r["built"]} (pulled, iter calls)'))
        if k is None:
            want = exp
            wend = 'done' if eerr is None else show_err(eerr)
        else:
            want = exp[:k]
            wend = 'more' if k <= len(exp) else ('done' if eerr is None else show_err(eerr))
        wvals = '[' + ','.join(show(v) for v in want) + ']'
        if what == 'full':
            first_ok = r['vals'] in (None, wvals) and r['end'] == wend
        if what == 'again' and first_ok and (r['vals'] not in (None, wvals) or r['end'] != wend):
            # the first consumption of this very case was right and the second one is not
            mon.append(dict(prop='C03', rule='reiterate',
                            detail=f'second consumption of the same Stream: got {r["vals"]} {r["end"]} expected {wvals} {wend}'))
            continue
        if r['vals'] is not None and r['vals'] != wvals:
            mon.append(dict(prop='C03', rule='output', detail=f'{what}: got {r["vals"]} expected {wvals}'))
        elif r['vals'] is None and r['end'] == 'done' and r['n'] != len(want):
            mon.append(dict(prop='C03', rule='output', detail=f'{what}: drain counted {r["n"]} expected {len(want)}'))
        if r['end'] != wend:
            mon.append(dict(prop='C03', rule='ending', detail=f'{what}: got {r["end"]} expected {wend}'))
        if sl is not None and r['n'] >= 0:
            handed = r['n'] + (1 if r['end'].startswith('E') else 0)
            if r['pulled'] > handed + sl:
                mon.append(dict(prop='C03', rule='incremental',
                                detail=f'{what}: pulled {r["pulled"]} > handed {handed} + slack {sl}'))
    return res


def uses_list_exc_types(case):
    """scenario class of F27: exception classes handed to filter_exceptions / peek as a list"""
    for op in case['ops']:
        if op[0] == 'filterExc' and len(op) > 3 and op[3] and (isinstance(op[1], list) or isinstance(op[2], list)):
            return True
        if op[0] == 'peek' and len(op) > 2 and op[2] in ('empty', 'list'):
            return True
    return False


def nontrivial(case, res):
    return len(case['ops']) >= 2 and len(case['vals']) >= 1


# ----------------------------------------------------------------------------------------------
# model side
# ----------------------------------------------------------------------------------------------

def op_line(op):
    k = op[0]
    if k in ('map', 'filter', 'groupby'):
        return f'op {k} {op[1]}'
    if k == 'filterExc':
        return f'op filterExc {sel_show(op[1])} {sel_show(op[2])}'
    if k == 'peek':
        return 'op peek'
    if k in ('head', 'tail', 'batch', 'buffer'):
        return f'op {k} {op[1]}'
    if k == 'unbatch':
        return 'op unbatch'
    if k == 'accumulate':
        return f'op accumulate {op[1]} {"-" if op[2] is None else show_j(op[2][0])}'
    if k == 'parmap':
        return f'op parmap {op[1]} {op[2]} {int(op[3])} {int(op[4])}'
    if k == 'shuffle':
        csv = lambda l: ','.join(map(str, l)) if l else '-'   # noqa
        return f'op shuffle {op[1]} {csv(op[2])} {csv(op[3])}'
    raise ValueError(op)


def model_lines(cid, case, res):
    lines = [f'case {cid}',
             'src [' + ','.join(show_j(j) for j in case['vals']) + '] ' +
             show_err(tuple(case['err']) if case['err'] is not None else None)]
    lines += [op_line(op) for op in case['ops']]
    for r in res.get('runs', []):
        if r['k'] is None or r['k'] == 'again':
            # drain() / a failed collect(): the values are not observable (`-`); the monitor checks the count
            lines.append(f'obs full {r["vals"] or "-"} {r["end"]} {r["pulled"]} {r["ended"]}')
        else:
            lines.append(f'obs take {r["k"]} {r["vals"]} {r["end"]} {r["pulled"]} {r["ended"]}')
    lines.append(f'nobs {sum(1 for l in lines if l.startswith("obs "))}')
    lines.append('end')
    return lines


# ----------------------------------------------------------------------------------------------
# generator
# ----------------------------------------------------------------------------------------------

INT_FNS = ['add:1', 'add:3', 'add:-2', 'mul:2', 'mul:-1', 'mul:0', 'ident', 'isEven', 'mod:3', 'mod:2']
RAISERS = ['raiseIfMul:5:1', 'raiseIfMul:3:0', 'raiseIfMul:7:2', 'raiseIfMul:4:3']
EXCERS = ['excIfMul:3:0', 'excIfMul:2:1', 'excIfMul:5:2', 'excIfMul:4:3']
SELS = ['none', 'none', 'all', [0], [1], [0, 1], [2, 3], [0, 1, 2, 3], []]


def _gen_val(rng, depth=0):
    r = rng.random()
    if r < 0.70 or depth >= 2:
        return rng.randrange(-3, 13)
    if r < 0.78:
        return None
    if r < 0.88:
        return {'e': [rng.randrange(4), rng.randrange(0, 9)]}
    if r < 0.93:
        return {'p': [_gen_val(rng, depth + 1), _gen_val(rng, depth + 1)]}
    return [_gen_val(rng, depth + 1) for _ in range(rng.randrange(0, 4))]


def _small(rng, ln, big):
    """an operator parameter biased to the boundaries 1, len-1, len, len+1"""
    c = [1, 1, 2, 3, max(1, ln - 1), max(1, ln), ln + 1, rng.randrange(1, 6)]
    if big:
        c.append(rng.randrange(1, 12))
    return rng.choice(c)


def gen_ops(rng, ty, nops, ln, big, allow_small_buffer):
    """type-directed random program; `ty` in {'int', 'intx', 'list', 'pair', 'any'}"""
    ops = []
    have_shuffle = False
    for _ in range(nops):
        wild = rng.random() < 0.08
        t = 'any' if wild else ty
        if t in ('int', 'intx', 'any'):
            c = rng.choice(['map', 'map', 'filter', 'head', 'tail', 'batch', 'accumulate', 'groupby', 'buffer',
                            'parmap', 'raiser', 'excer', 'filterExc', 'peek', 'shuffle', 'explode', 'dup', 'wrap']
                           + (['unbatch', 'lenOf'] if t == 'any' else []))
        elif t == 'list':
            c = rng.choice(['unbatch', 'unbatch', 'lenOf', 'sumOf', 'first', 'head', 'tail', 'batch', 'buffer',
                            'peek', 'shuffle', 'filterLen', 'parmapLen'])
        else:   # pair
            c = rng.choice(['first', 'lenOf', 'unbatch', 'head', 'tail', 'buffer', 'peek', 'batch', 'shuffle'])
        if c == 'shuffle' and have_shuffle:
            c = 'peek'
        if c == 'map':
            ops.append(['map', rng.choice(INT_FNS)])
        elif c == 'raiser':
            if rng.random() < 0.5:
                ops.append(['map', rng.choice(RAISERS)])
            else:
                ops.append(['parmap', rng.choice(RAISERS), rng.randrange(1, 4), rng.random() < 0.3, rng.random() < 0.5])
                if ops[-1][3]:
                    ty = 'pair'
                elif ops[-1][4]:
                    ty = 'intx'
        elif c == 'excer':
            ops.append(['map', rng.choice(EXCERS)])
            ty = 'intx'
        elif c == 'filter':
            ops.append(['filter', rng.choice(['isEven', 'mod:3', 'mod:2', 'ident', 'add:-2', 'raiseIfMul:5:1'])])
        elif c == 'filterExc':
            ops.append(['filterExc', rng.choice(SELS), rng.choice(SELS), rng.random() < 0.3])
        elif c == 'peek':
            ops.append(['peek', rng.choice([1, 2, 3]), rng.choice(['default', 'default', 'none', 'empty', 'list', 'tuple'])])
        elif c in ('head', 'tail'):
            ops.append([c, _small(rng, ln, big)])
        elif c == 'batch':
            ops.append(['batch', _small(rng, ln, big)])
            ty = 'list'
        elif c == 'accumulate':
            g = rng.choice(['add', 'add', 'max', 'second', 'pairUp', 'failOn:4:2'])
            init = None if rng.random() < 0.5 else [rng.choice([0, 5, -1, None])]
            ops.append(['accumulate', g, init])
            if g == 'pairUp':
                ty = 'any'
        elif c == 'groupby':
            ops.append(['groupby', rng.choice(['mod:3', 'mod:2', 'isEven', 'ident', 'raiseIfMul:5:1'])])
            ty = 'pair'
        elif c == 'buffer':
            ops.append(['buffer', rng.choice([1, 1, 2, 3, 5] if allow_small_buffer else [3, 3, 4, 6])])
        elif c == 'parmap':
            ops.append(['parmap', rng.choice(INT_FNS), rng.randrange(1, 4), rng.random() < 0.25, rng.random() < 0.3])
            if ops[-1][3]:
                ty = 'pair'
        elif c == 'parmapLen':
            ops.append(['parmap', 'lenOf', rng.randrange(1, 3), False, rng.random() < 0.3])
            ty = 'int'
        elif c == 'shuffle':
            have_shuffle = True
            ops.append(['shuffle', _small(rng, ln, big), [rng.randrange(0, 50) for _ in range(rng.randrange(0, ln + 2))],
                        [rng.randrange(0, 50) for _ in range(rng.randrange(0, 8))]])
        elif c == 'explode':
            ops.append(['map', 'explode'])
            ty = 'list'
        elif c == 'dup':
            ops.append(['map', 'dup'])
            ty = 'pair'
        elif c == 'wrap':
            ops.append(['map', 'wrap'])
            ty = 'list'
        elif c == 'unbatch':
            ops.append(['unbatch'])
            ty = 'int' if ty == 'list' else 'any'
        elif c in ('lenOf', 'sumOf', 'first'):
            ops.append(['map', c])
            ty = 'int' if c != 'first' else 'any'
        elif c == 'filterLen':
            ops.append(['filter', 'lenOf'])
    return ops


def _stops_early(ops):
    """can anything downstream of a buffer stop before the buffer's source is exhausted?
    (conservative: anything but operators that always drain their input)"""
    for op in ops:
        if op[0] in ('peek', 'tail', 'batch', 'buffer', 'shuffle'):
            continue
        if op[0] == 'map' and op[1] in ('ident', 'dup', 'wrap', 'explode'):
            continue
        return True
    return False


def fix_buffers(ops, partial):
    """F6 (Buffer._finalize can deadlock when the consumer stops early and maxsize < 3) is C05's
    finding, not this property's: keep small buffers out of early-stop contexts."""
    # F6 has been repaired in /repo (commit f93d591): small buffers are generated everywhere now, so
    # that the look-ahead of buffer(1)/buffer(2) under partial consumption is exercised as well.
    return list(ops)


def gen_case(rng, tier, boundary=False):
    big = tier == 'thorough'
    kind = rng.choice(['int', 'int', 'int', 'intx', 'list', 'mixed'])
    ln = rng.choice([0, 1, 2, 3, 4, 5, 6, 8, 10, 12] if not big else [0, 1, 2, 4, 6, 9, 16, 25, 40])
    if boundary:
        ln = rng.choice([0, 1, 2, 3])
    if kind == 'int':
        vals = [rng.randrange(-3, 13) for _ in range(ln)]
        if rng.random() < 0.4:
            vals = list(range(ln))
        ty = 'int'
    elif kind == 'intx':
        vals = [rng.randrange(-3, 13) if rng.random() < 0.7 else {'e': [rng.randrange(4), rng.randrange(9)]}
                for _ in range(ln)]
        ty = 'intx'
    elif kind == 'list':
        vals = [[rng.randrange(0, 9) for _ in range(rng.randrange(0, 4))] for _ in range(ln)]
        ty = 'list'
    else:
        vals = [_gen_val(rng) for _ in range(ln)]
        ty = 'any'
    err = [rng.randrange(4), rng.randrange(9)] if rng.random() < 0.2 else None
    nops = rng.randrange(0, 7) if not boundary else rng.randrange(1, 4)
    partial = rng.random() < 0.6
    ops = gen_ops(rng, ty, nops, ln, big, allow_small_buffer=True)
    ops = fix_buffers(ops, partial)
    ks = []
    if partial:
        ks = sorted({rng.choice([0, 1, 1, 2, 3, ln, ln + 1, rng.randrange(0, 2 * ln + 2)]) for _ in range(2)})
    # array-like elements (lists whose == has no truth value); not where groupby would compare them as keys
    arraylike = kind == 'list' and not any(op[0] == 'groupby' for op in ops) and rng.random() < 0.5
    return dict(vals=vals, err=err, ops=ops, ks=ks, consume=rng.choice(['iter', 'collect', 'drain', 'iter']),
                again=rng.random() < 0.3, kw=rng.random() < 0.25, arraylike=arraylike, seed=rng.randrange(1 << 30))


# fixed regression / boundary programs that are always run first
def corpus():
    r = list(range(7))
    cs = [
        dict(vals=r, err=None, ops=[['batch', 3], ['unbatch']], ks=[1, 4]),
        dict(vals=r, err=[1, 5], ops=[['batch', 3]], ks=[2, 3]),
        dict(vals=r, err=None, ops=[['head', 7]], ks=[7, 8]),
        dict(vals=r, err=[2, 0], ops=[['head', 7]], ks=[7]),
        dict(vals=r, err=[2, 0], ops=[['head', 6]], ks=[6, 7]),
        dict(vals=r, err=None, ops=[['tail', 8]], ks=[1]),
        dict(vals=r, err=None, ops=[['tail', 2], ['batch', 1], ['head', 1]], ks=[1, 2]),
        dict(vals=r, err=None, ops=[['head', 4], ['batch', 3], ['tail', 1]], ks=[1]),
        dict(vals=[[], [1], [], [], [2, 3], []], err=None, ops=[['unbatch']], ks=[1, 2, 3]),
        dict(vals=r, err=None, ops=[['map', 'raiseIfMul:5:1'], ['head', 1]], ks=[]),
        dict(vals=r[1:], err=None, ops=[['map', 'raiseIfMul:5:1'], ['head', 4]], ks=[4, 5]),
        dict(vals=r, err=None, ops=[['groupby', 'mod:3']], ks=[1, 2]),
        dict(vals=[0, 0, 1, 1, 1, 0], err=[3, 3], ops=[['groupby', 'ident'], ['map', 'first']], ks=[1, 2, 3]),
        dict(vals=r, err=None, ops=[['shuffle', 3, [2, 0, 5, 1], [4, 1, 0]]], ks=[1, 5]),
        dict(vals=r, err=None, ops=[['map', 'excIfMul:2:1'], ['filterExc', [1], 'none'], ['accumulate', 'add', [0]]], ks=[2]),
        dict(vals=r, err=None, ops=[['map', 'excIfMul:3:0'], ['filterExc', [1], [2]]], ks=[1]),
        dict(vals=r, err=None, ops=[['buffer', 3], ['map', 'add:1'], ['parmap', 'mul:2', 2, True, False], ['head', 3]], ks=[1, 2]),
        dict(vals=r, err=None, ops=[['parmap', 'raiseIfMul:3:0', 1, False, True], ['peek', 2]], ks=[3]),
        dict(vals=r, err=None, ops=[['buffer', 1]], ks=[]),
        dict(vals=[[1, 2], [], [3]], err=None, ops=[['buffer', 2], ['map', 'ident']], ks=[1], arraylike=True),
        dict(vals=[], err=[0, 0], ops=[['tail', 1], ['batch', 2]], ks=[0, 1]),
        dict(vals=[1, {'e': [0, 3]}, 2], err=None, ops=[['filterExc', [], [1], True]], ks=[]),
        dict(vals=[1, {'e': [0, 3]}, 2], err=None, ops=[['filterExc', [0], 'none', True]], ks=[1]),
        dict(vals=[1, {'e': [0, 3]}, 2], err=None, ops=[['peek', 5, 'list']], ks=[]),
        dict(vals=[1, 2, 3], err=None, ops=[['accumulate', 'add', None]], ks=[], again=True),
        dict(vals=[1, 2, 3], err=None, ops=[['accumulate', 'add', [5]], ['map', 'add:1']], ks=[1], again=True, kw=True),
        dict(vals=r, err=None, ops=[['filter', 'isEven'], ['groupby', 'mod:3'], ['parmap', 'ident', 2, True, False]], ks=[1], again=True, kw=True),
        dict(vals=r, err=None, ops=[['accumulate', 'max', [3]], ['batch', 2], ['shuffle', 2, [1], [0, 1]]], ks=[], again=True),
    ]
    for c in cs:
        c.setdefault('consume', 'iter')
        c.setdefault('seed', 0)
    return cs
