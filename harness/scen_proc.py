"""
Scenario (engine E4, real processes): how an mpservice `Process` / `Thread` reports the way its
target ended.  Serves C12.

One case = one fresh interpreter in its own session (`run_case` starts `python scen_proc.py
--inner <case.json> <out.json>` with `start_new_session=True`, waits with an explicit bound and
kills the whole process group afterwards).  Inside, the REAL `mpservice.multiprocessing.Process`
(or `mpservice.threading.Thread`) runs a target whose ending is the case's `outcome`; for a
process the child may be killed by `kill.sig` at `kill.phase`, produced without hooks in /repo:

* `before`  – the parent kills right after `start()` (the spawned interpreter is still booting);
* `during`  – the target sets an `Event` and blocks; the parent waits for the event, then kills;
* `between` – (raise outcomes) the exception object's `__reduce__` kills its own process: it runs
              while the *second* pipe message (the error) is being pickled, i.e. after the first
              message (the result) has been sent;
* `after`   – the target starts a non-daemon helper thread and ends; the helper waits until the
              child's main thread has left `run()` (both messages sent, pipe closed), sets an
              `Event` and keeps the child alive; the parent waits for the event, then kills.

Then the accessors are called in the case's order (every blocking accessor in a watchdog thread
with the hang bound), answers are canonicalised, and the monitor evaluates the C12 statement on
them.  `model_lines` replays (outcome, kill, accessor order) through `drv procoutcome`, which
executes the proved model's `step` function on a schedule for this history and prints the answers
the model gives; they must equal the real ones.

The OS schedule is not controlled (sampled).
"""
import json
import os
import random
import signal
import subprocess
import sys
import tempfile
import time

MODEL = 'procoutcome'
HANG_BOUND = float(os.environ.get('VERIF_HANG_BOUND', '20'))     # seconds per blocking accessor
ACCESSORS = ['join', 'result', 'exception', 'done', 'exitcode', 'wait', 'as_completed']
BLOCKING = ['join', 'result', 'exception', 'wait', 'as_completed']
SIGS = [9, 15, 10, 1]   # KILL, TERM, USR1, HUP (all with default disposition "terminate" in the child)

# value universe of returned results: id -> python value (picklable, compared by ==)
VALUES = {
    0: 0, 1: 1, 2: -7, 3: 'text', 4: '', 5: [1, [2, 3]], 6: {'k': (1, 2)}, 7: 3.5, 8: b'\x00\xff' * 10,
    9: 'x' * 100000, 10: list(range(3000)), 11: False, 12: (None,), 13: 'x' * 1000000, 14: 'x' * 30000000,
}
# exception universe: id -> (class name, args)
EXCS = {
    0: ('ValueError', [38]), 1: ('KeyError', ['k']), 2: ('RuntimeError', []), 3: ('CustomError', [1, 'two']),
    4: ('ZeroDivisionError', ['division by zero']), 5: ('KeyboardInterrupt', []), 6: ('CustomBase', ['b']),
    7: ('OSError', ['plain os error']), 8: ('CustomError', ['x' * 70000]), 9: ('AssertionError', ['a']),
    10: ('StopIteration', [5]), 11: ('GeneratorExit', []),
    12: ('TwoArgError', [1, 'two']),      # a class whose constructor cannot be called with one argument
}
# sys.exit argument universe: id -> python value
EXITS = {0: None, 1: 0, 2: 3, 3: 1, 4: 'bye', 5: 255, 6: 77, 7: '', 8: 256, 9: 2, 10: -1, 11: True, 12: False, 13: 2.5}


class CustomError(Exception):
    pass


class CustomBase(BaseException):
    pass


class TwoArgError(Exception):
    def __init__(self, code, text):
        super().__init__(code, text)
        self.code, self.text = code, text


class KillOnPickle(Exception):
    """kills its own process while being pickled (phase `between`)"""

    def __init__(self, sig):
        super().__init__(sig)
        self.sig = sig

    def __reduce__(self):
        os.kill(os.getpid(), self.sig)
        time.sleep(60)      # the signal is lethal; never reached in practice
        return (KillOnPickle, (self.sig,))


UNPICKLABLE = [['ret', 'unpicklable'], ['raise', 'unpicklable']]
# how the worker's arguments are handed over: positional; a kwargs dict the CALLER keeps; a temporary kwargs dict; both
ARGFORMS = ['args', 'kwargs_kept', 'kwargs_temp', 'mixed_kept']
# how the target fails: plain raise; raise inside an except block (implicit context); `raise X from Y`; an exception
# that came out of an inner mpservice Thread / Process (it already carries a traceback text as its cause)
RAISE_HOWS = ['plain', 'in_except', 'from', 'inner_thread', 'inner_process']


def _exc_class(name):
    if name == 'CustomError':
        return CustomError
    if name == 'CustomBase':
        return CustomBase
    if name == 'TwoArgError':
        return TwoArgError
    import builtins
    return getattr(builtins, name)


# ----------------------------------------------------------------------------------------------
# case generation (parent side, pure)
# ----------------------------------------------------------------------------------------------

def all_outcomes():
    return [['ret', None]] + [['ret', v] for v in VALUES] + [['raise', e] for e in EXCS] + [['exit', x] for x in EXITS]


def gen_case(rng: random.Random, tier: str, kind=None):
    kind = kind or rng.choice(['process'] * 4 + ['thread'])
    big = tier == 'thorough'
    oc = rng.choice(['ret', 'ret', 'raise', 'raise', 'exit'])
    if oc == 'ret':
        pool = [None] + [v for v in VALUES if (big or v != 13) and v != 14]
        outcome = ['ret', rng.choice(pool)]
    elif oc == 'raise':
        outcome = ['raise', rng.choice(list(EXCS))]
    else:
        outcome = ['exit', rng.choice(list(EXITS))]
    if oc != 'exit' and rng.random() < 0.12:
        outcome = [oc, 'unpicklable']       # a lambda returned / an instance of a local exception class raised
    kill = None
    if kind == 'process' and rng.random() < 0.55:
        phase = rng.choice(['before', 'during', 'during', 'after', 'between'])
        if phase == 'between':
            outcome = ['raise', 'killonpickle']
        if phase == 'after' and outcome[1] == 'unpicklable':
            phase = 'during'        # such a child never gets as far as "both messages sent"
        kill = dict(phase=phase, sig=rng.choice(SIGS + [9]))
    if kind == 'thread' and outcome[0] == 'raise' and outcome[1] != 'unpicklable' and EXCS[outcome[1]][0] in ('KeyboardInterrupt',):
        outcome = ['raise', 0]
    order = list(ACCESSORS)
    rng.shuffle(order)
    k = rng.choice([3, 5, 7, 7])
    order = order[:k] + [a for a in ACCESSORS if a not in order[:k]]    # all seven, random first k
    rng.shuffle(order)
    early = (kill is None or kill['phase'] in ('during', 'after')) and rng.random() < 0.3
    call_first = bool(kill) and kill['phase'] in ('before', 'during', 'after') and order[0] in BLOCKING and rng.random() < 0.4
    how = 'plain'
    if outcome[0] == 'raise' and isinstance(outcome[1], int) and (kill is None or kill['phase'] == 'after') and rng.random() < 0.5:
        how = rng.choice(RAISE_HOWS[1:4] * 3 + RAISE_HOWS[4:])
    return dict(kind=kind, outcome=outcome, kill=kill, order=order, early=early, call_first=call_first,
                slow_reap=kind == 'process' and rng.random() < 0.3, argform=rng.choice(ARGFORMS), raise_how=how,
                seed=rng.randrange(1 << 30))


def boundary_cases():
    """every outcome class x phase x first accessor at least once (small product, see c12.py)"""
    cases = []
    reps = [['ret', None], ['ret', 5], ['raise', 0], ['raise', 3], ['raise', 12], ['exit', 0], ['exit', 1], ['exit', 2], ['exit', 4]]
    k = 0
    for oc in reps:
        for first in ACCESSORS:
            order = [first] + [a for a in ACCESSORS if a != first]
            cases.append(dict(kind='process', outcome=oc, kill=None, order=order, early=False, seed=k))
            k += 1
    for phase in ['before', 'during', 'after', 'between']:
        for sig in SIGS:
            for j, first in enumerate(ACCESSORS):
                oc = reps[(k + j) % len(reps)]
                if phase == 'between':
                    oc = ['raise', 'killonpickle']
                order = [first] + [a for a in ACCESSORS if a != first]
                cases.append(dict(kind='process', outcome=oc, kill=dict(phase=phase, sig=sig), order=order,
                                  early=False, slow_reap=(k % 2 == 0), argform=ARGFORMS[k % 4], seed=k))
                k += 1
    for oc in reps:
        for first in ACCESSORS:
            order = [first] + [a for a in ACCESSORS if a != first]
            cases.append(dict(kind='thread', outcome=oc, kill=None, order=order, early=False, seed=k))
            k += 1
    # every way of failing x Process/Thread x the accessor that first meets the exception
    for how in RAISE_HOWS[1:]:
        for kind in ('process', 'thread'):
            for first in ('join', 'result', 'exception', 'wait', 'as_completed'):
                order = [first] + [a for a in ACCESSORS if a != first]
                cases.append(dict(kind=kind, outcome=['raise', [0, 3, 4, 6][k % 4]], kill=None, order=order, early=False,
                                  raise_how=how, argform=ARGFORMS[k % 4], seed=k))
                k += 1
    # no target at all (Process() / Thread() as in the standard library): ends at once, like `return None`
    for kind in ('process', 'thread'):
        for first in ACCESSORS:
            order = [first] + [a for a in ACCESSORS if a != first]
            cases.append(dict(kind=kind, outcome=['ret', None], kill=None, order=order, early=False, notarget=True, seed=k))
            k += 1
    # outcomes that cannot cross the pipe: the child fails in send() and ends by itself with status 1 before
    # both messages are sent (for a Thread they are ordinary outcomes)
    for oc in UNPICKLABLE:
        for kind in ('process', 'thread'):
            for first in ACCESSORS:
                order = [first] + [a for a in ACCESSORS if a != first]
                cases.append(dict(kind=kind, outcome=oc, kill=None, order=order, early=False,
                                  slow_reap=(kind == 'process' and k % 2 == 0), seed=k))
                k += 1
        for phase in ('before', 'during'):
            for sig in (9, 15):
                order = list(ACCESSORS[(k % 7):]) + list(ACCESSORS[:(k % 7)])
                cases.append(dict(kind='process', outcome=oc, kill=dict(phase=phase, sig=sig), order=order, early=False, seed=k))
                k += 1
    return cases


def random_kill_case(rng, tier):
    """a signal at a moment the harness does not choose: `delay` seconds after start() returned, while the
    child boots (~0.1-0.3 s), runs its target for `dur` seconds (optionally logging), sends, flushes and
    exits.  Which phase was hit is not known; the answers must be the table row of *some* phase (or of
    no kill at all, when the child was already gone)."""
    oc = rng.choice([['ret', 5], ['ret', 9], ['raise', 3], ['raise', 8], ['exit', 2], ['exit', 4], ['ret', None]])
    order = list(ACCESSORS)
    rng.shuffle(order)
    dur = rng.choice([0.0, 0.02, 0.05])
    anchor = rng.choice(['start', 'ready', 'ready', 'ready'])
    delay = rng.uniform(0.0, 0.3) if anchor == 'start' else rng.uniform(0.0, dur + 0.12)
    return dict(kind='process', outcome=oc, kill=dict(phase='random', sig=rng.choice([9, 9, 15, 10]),
                                                     delay=round(delay, 4), anchor=anchor),
                dur=dur, logs=rng.choice([0, 0, 50, 3000]), order=order, early=False,
                call_first=order[0] in BLOCKING and rng.random() < 0.5, seed=rng.randrange(1 << 30))


def flush_kill_case(rng, frac=None):
    """SIGKILL aimed at the window in which the child has sent its result and is still flushing a large
    log backlog (its feeder is then blocked in a pipe write, holding the queue's write lock).  `frac` in [0, 1)
    places the kill within the 1.5 s after the target has started (the caller stratifies it: where the window
    lies depends on the machine and its load)"""
    c = random_kill_case(rng, 'quick')
    f = rng.random() if frac is None else frac
    c.update(outcome=['ret', 5], logs=30000, dur=0.0, call_first=False,
             kill=dict(phase='random', sig=9, delay=round(0.1 + 1.5 * f, 3), anchor='ready'))
    if rng.random() < 0.5:
        c['slow_handler'] = 0.0002
    return c


def midmsg_kill_case(rng):
    """a signal aimed at the middle of a pipe message: the result is 30 MB, the child is
    killed a few ms after the target has started (the write takes tens of ms): the parent's `recv` then
    sees the pipe end inside a message"""
    c = random_kill_case(rng, 'quick')
    c.update(outcome=['ret', 14], logs=0, dur=0.0, call_first=False,
             kill=dict(phase='random', sig=rng.choice([9, 15]), delay=round(rng.uniform(0.0, 0.12), 4), anchor='ready'))
    return c


def resolve_phase(case, res):
    """for a random-moment kill: the phase whose table row equals the observed answers (None if none does);
    'none' = the child had already exited when the signal was sent"""
    ans = [(a, r) for a, r in (res.get('answers') or []) if r not in ('SKIPPED',)]
    # 'none' is always a candidate: a signal sent to a child that has already exited but is not yet reaped (a
    # zombie) is delivered to nobody; the exit status (own status vs. -sig) tells the two histories apart
    for ph in (['none'] if res.get('kill_missed') else ['none', 'before', 'during', 'between', 'after']):
        c = dict(case, kill=None if ph == 'none' else dict(case['kill'], phase=ph))
        exp = expected_answers(c)
        if all(answer_ok(exp[a], r) for a, r in ans):
            return ph
    return None


def heavy_log_case(rng, sig):
    """the child is killed while it floods the log queue (its feeder thread is then most likely in
    the middle of a pipe write, holding the queue's write lock)"""
    order = list(ACCESSORS)
    rng.shuffle(order)
    return dict(kind='process', outcome=['ret', 1], kill=dict(phase='during', sig=sig), order=order, early=False,
                flood=rng.choice([100, 5000, 200000]), seed=rng.randrange(1 << 30))


def case_class(case):
    k = case.get('kill')
    if k and k['phase'] == 'random':
        return f"process:{case['outcome'][0]}:random-{'term' if k['sig'] == 15 else 'sig'}"
    return (f"{case['kind']}:{'notarget' if case.get('notarget') else case['outcome'][0]}:"
            f"{(k['phase'] + '-' + ('term' if k['sig'] == 15 else 'sig')) if k else 'nokill'}"
            f"{':flood' if case.get('flood') else ''}")


def nontrivial(case, res):
    """a complete run (every accessor answered or classified) of a started worker"""
    return bool(res.get('answers')) and len(res['answers']) >= len(case['order'])


# ----------------------------------------------------------------------------------------------
# the property statement, from the case alone (monitor side; independent of the Lean model)
# ----------------------------------------------------------------------------------------------

def exit_status(x):
    """process exit status of sys.exit(x) under mpservice's documented mapping"""
    if x is None:
        return 0
    if isinstance(x, int):
        return x % 256
    return 1


def expected_future(case):
    """-> ('ok', value_tag) | ('err', err_tag): how the worker's future must be resolved"""
    oc = case['outcome']
    k = case.get('kill')
    if oc[1] == 'unpicklable' and case['kind'] == 'process':
        # the outcome cannot be sent: the child ends by itself (status 1) without both messages; the property
        # demands an error from join/result/exception and completed wait/as_completed; which error is not
        # prescribed ('*'; the repaired tree reports OSError(-1, ...))
        own = ('err', '*')
    elif oc[0] == 'ret':
        own = ('ok', 'none' if oc[1] is None else f'v{oc[1]}')
    elif oc[0] == 'raise':
        own = ('err', f'child:{oc[1]}')
    else:
        x = EXITS[oc[1]]
        if x is None or (isinstance(x, int) and x == 0):
            own = ('ok', 'none')
        else:
            own = ('err', f'sysexit:{oc[1]}')
    if not k or k['phase'] == 'after':
        return own
    # died by a signal before both messages were sent
    if k['sig'] == 15:
        # `terminate()` is the expected way to stop a process: no error; the result is whatever
        # had been sent (only in phase `between`, where it is the first message = None for a raise)
        return ('ok', 'none')
    return ('err', f'oserror:{k["sig"]}')


def expected_answers(case):
    fut = expected_future(case)
    k = case.get('kill')
    exp = {}
    exp['join'] = 'ret:none' if fut[0] == 'ok' else f'raise:{fut[1]}'
    exp['result'] = f'ret:{fut[1]}' if fut[0] == 'ok' else f'raise:{fut[1]}'
    exp['exception'] = 'ret:none' if fut[0] == 'ok' else f'ret:{fut[1]}'
    exp['done'] = 'ret:true'
    exp['wait'] = 'ret:completed'
    exp['as_completed'] = 'ret:completed'
    if case['kind'] == 'thread':
        exp['exitcode'] = 'ret:n/a'
    elif k:
        exp['exitcode'] = f'ret:{-k["sig"]}'
    else:
        oc = case['outcome']
        if oc[1] == 'unpicklable':
            exp['exitcode'] = 'ret:1'
        elif oc[0] == 'ret':
            exp['exitcode'] = 'ret:0'
        elif oc[0] == 'raise':
            exp['exitcode'] = 'ret:1'
        else:
            exp['exitcode'] = f'ret:{exit_status(EXITS[oc[1]])}'
    return exp


def answer_ok(want, got):
    """`want` may end in `*`: any error object (but not a TimeoutError: no accessor was given a timeout)"""
    if want.endswith(':*'):
        return got.startswith(want[:-1]) and got != want[:-1] + 'none' and 'TimeoutError' not in got
    return want == got


def monitor(case, res):
    mon = []
    if res.get('infra'):
        return mon
    ans = res.get('answers') or []
    if case.get('kill') and case['kill']['phase'] == 'random':
        ph = resolve_phase(case, res)
        res['resolved_phase'] = ph
        hung = [a for a, r in ans if r == 'HANG']
        if hung:
            mon.append(dict(prop='C12', rule='hang', detail=f'{hung[0]}() did not return within {hang_bound(case)}s after a signal at a '
                                                            f'random moment; answers {ans}'))
        elif ph is None:
            mon.append(dict(prop='C12', rule='answer',
                            detail=f'signal {case["kill"]["sig"]} {case["kill"]["delay"]}s after start (kill_missed={res.get("kill_missed")}): '
                                   f'the answers {ans} are not the table row of any kill phase for outcome {case["outcome"]}'))
        return mon
    exp = expected_answers(case)
    for a, r in ans:
        if r == 'HANG':
            mon.append(dict(prop='C12', rule='hang',
                            detail=f'{a}() did not return within {hang_bound(case)}s; case class {case_class(case)}; '
                                   f'answers so far {ans}'))
        elif r == 'SKIPPED':
            continue
        elif not answer_ok(exp[a], r):
            mon.append(dict(prop='C12', rule='answer', detail=f'{a}() gave {r}, the property demands {exp[a]}; '
                                                               f'case class {case_class(case)}; all answers {ans}'))
    for a, r in res.get('early_answers') or []:
        want = {'done': 'ret:false', 'exitcode': 'ret:none' if case['kind'] == 'process' else 'ret:n/a'}[a]
        if r != want:
            mon.append(dict(prop='C12', rule='early-answer', detail=f'{a}() while the target runs gave {r}, expected {want}'))
    # agreement of accessors among themselves (independently of what we expect)
    d = dict((a, r) for a, r in ans if r not in ('HANG', 'SKIPPED'))
    if 'join' in d and 'exception' in d:
        if (d['join'] == 'ret:none') != (d['exception'] == 'ret:none'):
            mon.append(dict(prop='C12', rule='disagree', detail=f'join {d["join"]} vs exception {d["exception"]}'))
    if 'result' in d and 'exception' in d:
        if d['result'].startswith('raise:') != (d['exception'] != 'ret:none'):
            mon.append(dict(prop='C12', rule='disagree', detail=f'result {d["result"]} vs exception {d["exception"]}'))
    # the same error object everywhere
    tags = {a: d[a].split(':', 1)[1] for a in ('join', 'result') if a in d and d[a].startswith('raise:')}
    if 'exception' in d and d['exception'].startswith('ret:') and d['exception'] != 'ret:none':
        tags['exception'] = d['exception'].split(':', 1)[1]
    if len(set(tags.values())) > 1:
        mon.append(dict(prop='C12', rule='disagree', detail=f'different errors from different accessors: {tags}'))
    # NOT a clause of C12 (a rewrite that touches the caller's dict but keeps every accessor right would be a false
    # alarm): recorded in the result for the evidence / as a hint next to a real finding, never a monitor hit
    if res.get('kwargs_foreign'):
        res['note_caller_kwargs_modified'] = res['kwargs_foreign']
    if res.get('tb_problems'):
        mon.append(dict(prop='C12', rule='traceback', detail='; '.join(res['tb_problems'])[:600]))
    return mon


# ----------------------------------------------------------------------------------------------
# outer runner (in the pool worker): fresh interpreter, own session, group kill
# ----------------------------------------------------------------------------------------------

def _repo_src():
    return os.path.join(os.environ.get('VERIF_REPO', '/repo'), 'src')


def run_inner(script, case, outer_bound):
    """run `python <script> --inner case.json out.json` in its own session; -> result dict"""
    tmp = tempfile.mkdtemp(prefix='verif-e4-')
    cf, of, lf = os.path.join(tmp, 'case.json'), os.path.join(tmp, 'out.json'), os.path.join(tmp, 'log.txt')
    with open(cf, 'w') as f:
        json.dump(case, f)
    env = dict(os.environ)
    env['PYTHONPATH'] = _repo_src() + os.pathsep + os.path.dirname(os.path.abspath(script))
    env['VERIF_HANG_BOUND'] = str(hang_bound(case))
    t0 = time.time()
    with open(lf, 'w') as log:
        p = subprocess.Popen([sys.executable, script, '--inner', cf, of], stdin=subprocess.DEVNULL, stdout=log,
                             stderr=subprocess.STDOUT, start_new_session=True, env=env, cwd=tmp)
        timed_out = False
        try:
            p.wait(timeout=outer_bound)
        except subprocess.TimeoutExpired:
            timed_out = True
        try:
            os.killpg(p.pid, signal.SIGKILL)
        except ProcessLookupError:
            pass
        try:
            p.wait(timeout=10)
        except subprocess.TimeoutExpired:
            pass
    wall = time.time() - t0
    res = None
    if os.path.exists(of):
        try:
            with open(of) as f:
                res = json.load(f)
        except Exception:
            res = None
    if res is None:
        try:
            with open(lf) as f:
                tail = f.read()[-1500:]
        except Exception:
            tail = ''
        res = dict(infra=f'inner run produced no result (timed_out={timed_out}, rc={p.returncode}, case={json.dumps(case)[:400]}): {tail}')
    if os.path.exists(of + '.side'):
        try:
            with open(of + '.side') as f:
                res['side'] = f.read()      # what the inner program wrote on the side (it may have ended on its own)
        except Exception:
            pass
    res['wall'] = round(wall, 3)
    res['outer_timeout'] = timed_out
    try:
        import shutil
        shutil.rmtree(tmp, ignore_errors=True)
    except Exception:
        pass
    return res


def hang_bound(case):
    return float(case.get('hang_bound') or HANG_BOUND)


def recheck_hangs(chk, scen_name, results, classof):
    """The hang bound is max(20 s, 20 x median duration of the case class on this run).  The first
    pass uses 20 s; where a case hit it although 20 x the median of its class (taken over the runs
    of the class that did not hang) is larger - a loaded machine, a heavy class - the case is run
    again with that bound and the second verdict replaces the first.  A class in which every run
    hangs, or whose median is small, keeps its verdict."""
    import collections
    walls = collections.defaultdict(list)
    for c, r in results:
        if not any(m['rule'] == 'hang' for m in r.get('monitors', [])):
            walls[classof(c)].append(r.get('wall', 0.0))
    redo = []
    for i, (c, r) in enumerate(results):
        if any(m['rule'] == 'hang' for m in r.get('monitors', [])):
            ws = sorted(walls.get(classof(c), []))
            med = ws[len(ws) // 2] if ws else 0.0
            # every hang is confirmed by one re-run with at least twice the bound (a load spike must not produce a
            # verdict; a genuine hang is still there the second time), more if the class is slow on this run
            if not c.get('hang_bound'):
                redo.append((i, dict(c, hang_bound=round(max(2 * hang_bound(c), 20 * med), 1))))
    if redo:
        res2 = chk.run_cases(scen_name, [c for _, c in redo], sched=False, per_case_timeout=3600.0)
        for (i, _), cr in zip(redo, res2):
            results[i] = cr
        chk.notes.append(f'{len(redo)} cases hit the 20 s hang bound in classes whose median duration on this run justifies a larger '
                         f'bound (20 x median); re-run with that bound: '
                         f'{sum(1 for _, r in res2 if any(m["rule"] == "hang" for m in r.get("monitors", [])))} still hang')
    return results


def validate_parallel(chk, model, scen, results, nproc=8, cost=None, skip=None):
    """`Check.validate` with the driver run as `nproc` processes over cost-balanced chunks (the replay of a
    long history through the model is the slow part; same bookkeeping as core.Check.validate).  Cases for
    which `skip(case)` holds are not replayed (said in the evidence notes): the monitor alone judges them."""
    import core
    from concurrent.futures import ThreadPoolExecutor
    skipped = [k for k in range(len(results)) if skip and skip(results[k][0])]
    if skipped:
        chk.notes.append(f'{len(skipped)} cases were not replayed through the model driver (history too long for the quadratic '
                         f'replay); the monitor evaluated them')
    idx = sorted((k for k in range(len(results)) if k not in set(skipped)),
                 key=(lambda k: -cost(results[k][0])) if cost else None)
    chunks = [idx[i::nproc] for i in range(nproc) if idx[i::nproc]]

    def run(ch):
        lines = []
        for k in ch:
            lines += scen.model_lines(k, results[k][0], results[k][1])
        return core.run_driver(model, lines)

    verdict = {}
    with ThreadPoolExecutor(max(1, len(chunks))) as ex:
        for out in ex.map(run, chunks):
            for l in out:
                w = l.split(' ', 2)
                if len(w) >= 2 and w[0] in ('ok', 'REJECT', 'NOFINAL', 'MISMATCH'):
                    verdict[w[1]] = l
    nval = 0
    for k, (case, res) in enumerate(results):
        if k in skipped:
            continue
        v = verdict.get(str(k))
        if v is None:
            chk.corr_breaks.append(dict(model=model, case=case, verdict='no answer from the driver', events=res.get('events')))
        elif v.startswith('ok'):
            nval += 1
        else:
            chk.corr_breaks.append(dict(model=model, case=case, verdict=v, events=res.get('events'), monitors=res.get('monitors')))
    chk.cov['traces_validated_against_impl'] += nval
    return nval, len(results) - len(skipped)


def run_case(case):
    res = run_inner(os.path.abspath(__file__), case, outer_bound=hang_bound(case) * 1.5 + 60)
    if res.get('infra'):
        res['infra_error'] = res['infra']
        res.setdefault('monitors', [])
        res.setdefault('events', [])
        return res
    want = os.path.realpath(_repo_src())
    if not os.path.realpath(res.get('mpservice_file', '')).startswith(want):
        res['infra_error'] = f"inner run imported mpservice from {res.get('mpservice_file')}, expected under {want}"
        res.setdefault('monitors', [])
        res.setdefault('events', [])
        return res
    res['monitors'] = monitor(case, res)
    res['events'] = [list(x) for x in (res.get('early_answers') or [])] + [list(x) for x in res.get('answers') or []]
    return res


def model_lines(cid, case, res):
    oc = case['outcome']
    if oc[1] == 'unpicklable':
        o = f'{oc[0]}:unpicklable'
    elif oc[0] == 'ret':
        o = 'ret:none' if oc[1] is None else f'ret:{oc[1]}'
    elif oc[0] == 'raise':
        o = f'raise:{99 if oc[1] == "killonpickle" else oc[1]}'
    else:
        x = EXITS[oc[1]]
        o = 'exit:none' if x is None else (f'exit:int:{int(x)}' if isinstance(x, int) else f'exit:str:{oc[1]}')
    k = case.get('kill')
    if k and k['phase'] == 'random':
        ph = res.get('resolved_phase') or 'during'
        k = None if ph == 'none' else dict(k, phase=ph)
    lines = [f'case {cid} kind={case["kind"]} outcome={o} kill={(k["phase"] + ":" + str(k["sig"])) if k else "none"}']
    for a, r in res.get('early_answers') or []:
        if r == 'ret:n/a':
            continue        # `exitcode` is not an accessor of Thread
        lines.append(f'early {a} {_model_form(case, r)}')
    for a, r in res.get('answers') or []:
        if r in ('SKIPPED', 'ret:n/a'):
            continue
        lines.append(f'ask {a} {_model_form(case, r)}')
    lines.append('end')
    return lines


def _model_form(case, r):
    """canonical answer -> the model's vocabulary (exception `child:<id>` -> `child:<nat>`, sysexit:<id> -> code)"""
    oc = case['outcome']
    for pre in ('raise:', 'ret:'):
        if r == pre + 'child:unpicklable':
            return pre + 'child:97'
        if r == pre + 'vunpicklable':
            return pre + '1000'
        if r.startswith(pre + 'child:'):
            return pre + 'child:' + ('99' if r.endswith('killonpickle') else r.split(':')[-1])
        if r.startswith(pre + 'sysexit:'):
            x = EXITS[int(r.split(':')[-1])]
            return pre + ('sysexit:none' if x is None else (f'sysexit:int:{int(x)}' if isinstance(x, int) else f'sysexit:str:{r.split(":")[-1]}'))
        if r.startswith(pre + 'v'):
            return pre + r[len(pre) + 1:]
    return r.replace(' ', '_')


# ----------------------------------------------------------------------------------------------
# inner part: runs the real code (fresh interpreter)
# ----------------------------------------------------------------------------------------------

def _raise_here(cls, args):
    raise cls(*args)


def _cause_here():
    raise KeyError('the cause')


def _raise_in_except(cls, args):
    try:
        1 / 0
    except ZeroDivisionError:
        _raise_here(cls, args)      # implicit context


def _raise_from(cls, args):
    try:
        _cause_here()
    except KeyError as y:
        raise cls(*args) from y     # explicit cause


def _inner_worker(name, args):
    _raise_here(_exc_class(name), args)


def _via_inner(cls_name, args, inner_kind):
    """the exception comes out of an inner mpservice Thread / Process and propagates out of this target"""
    if inner_kind == 'thread':
        from mpservice.threading import Thread as W
    else:
        from mpservice.multiprocessing import Process as W
    t = W(target=_inner_worker, args=(cls_name, args))
    t.start()
    t.join()                        # re-raises the inner worker's exception here


# frames of the target that the traceback text must name, per way of failing
RAISE_FRAMES = {'plain': ['_raise_here'], 'in_except': ['_raise_in_except', '_raise_here'], 'from': ['_raise_from'],
                'inner_thread': ['_via_inner', '_raise_here'], 'inner_process': ['_via_inner', '_raise_here']}


def _raise_local():
    class LocalError(Exception):        # a local class: its instances cannot be pickled
        pass

    raise LocalError('boom')


def target(spec, ready, after, phase, flood=0, dur=0.0, logs=0):
    """the worker's target: ends as `spec` says"""
    import threading
    if phase == 'random':
        ready.set()
        if logs:
            import logging
            lg = logging.getLogger('rnd')
            for i in range(logs):
                lg.warning('%d %s', i, 'z' * 200)
        if dur:
            time.sleep(dur)
    if phase == 'during':
        ready.set()
        if flood:
            import logging
            lg = logging.getLogger('flood')
            msg = 'y' * flood
            while True:
                lg.warning(msg)
        time.sleep(600)
    if phase == 'after':
        def keeper():
            mt = threading.main_thread()
            while mt.is_alive():
                time.sleep(0.001)
            after.set()
            time.sleep(600)
        threading.Thread(target=keeper, daemon=False).start()
    kind, x = spec[:2]
    how = spec[2] if len(spec) > 2 else 'plain'
    if x == 'unpicklable':
        if kind == 'ret':
            return lambda v: v + 1
        _raise_local()
    if kind == 'ret':
        return None if x is None else VALUES[x]
    if kind == 'raise':
        if x == 'killonpickle':
            raise KillOnPickle(spec_sig[0])
        name, args = EXCS[x]
        if how == 'in_except':
            _raise_in_except(_exc_class(name), args)
        elif how == 'from':
            _raise_from(_exc_class(name), args)
        elif how in ('inner_thread', 'inner_process'):
            _via_inner(name, args, how.split('_')[1])
        _raise_here(_exc_class(name), args)
    if kind == 'exit':
        sys.exit(EXITS[x])


spec_sig = [9]
_KEEP = []


def target_proc(spec, ready, after, phase, sig, flood=0, dur=0.0, logs=0):
    spec_sig[0] = sig
    return target(spec, ready, after, phase, flood, dur, logs)


def _canon_value(case, v):
    oc = case['outcome']
    if v is None:
        return 'none'
    if oc == ['ret', 'unpicklable']:
        return 'vunpicklable' if callable(v) and v(1) == 2 else 'other-value:' + repr(v)[:80]
    if oc[0] == 'ret' and oc[1] is not None and v == VALUES[oc[1]] and type(v) is type(VALUES[oc[1]]):
        return f'v{oc[1]}'
    return 'other-value:' + repr(v)[:80]


def _canon_exc(case, e, tbp, where):
    """exception object -> tag; checks class, args and (for the child's own exception) traceback text"""
    from mpservice.multiprocessing.remote_exception import get_remote_traceback, is_remote_exception
    oc = case['outcome']
    cls = type(e).__name__
    if oc[1] == 'unpicklable':
        if isinstance(e, OSError) and case.get('kill') and e.errno == case['kill']['sig']:
            return f'oserror:{e.errno}'
        if case['kind'] == 'thread' and oc[0] == 'raise' and cls == 'LocalError' and e.args == ('boom',):
            c = e.__cause__
            tb = str(c.args[0]) if c is not None and c.args else ''
            if '_raise_local' not in tb or 'Traceback' not in tb:
                tbp.append(f'{where}: thread traceback text lacks the raising frame: {tb[-200:]!r}')
            return 'child:unpicklable'
        if case['kind'] == 'process' and isinstance(e, OSError) and e.errno == -1:
            return 'oserror:-1'         # what the repaired tree reports for a child that ended by itself with status 1
        return f'other:{cls}:{e.args!r}'[:200]
    if oc[0] == 'raise' and oc[1] != 'killonpickle':
        name, args = EXCS[oc[1]]
        if cls == name and list(e.args) == list(args):
            # the worker's traceback text must come along: the full formatted text of the exception as the parent
            # sees it (with its cause chain) must name the frames of the target that raised, however it raised
            import re
            import traceback
            if case['kind'] == 'process' and not is_remote_exception(e):
                tbp.append(f'{where}: exception is not a remote exception (no traceback text)')
            text = ''.join(traceback.format_exception(type(e), e, e.__traceback__))
            how = case.get('raise_how') or 'plain'
            missing = [fn for fn in RAISE_FRAMES[how] + ['target'] if not re.search(r', in ' + fn + r'\b', text)]
            if missing or 'Traceback' not in text or name not in text:
                tbp.append(f'{where}: the traceback text of the {case["kind"]} worker (failing by {how}) does not name the '
                           f'frame(s) {missing} of the target: ...{text[-300:]!r}')
            return f'child:{oc[1]}'
    if oc[0] == 'raise' and oc[1] == 'killonpickle' and cls == 'KillOnPickle':
        return 'child:killonpickle'
    if isinstance(e, SystemExit) and oc[0] == 'exit':
        x = EXITS[oc[1]]
        if e.code == x and type(e.code) is type(x):
            return f'sysexit:{oc[1]}'
    if isinstance(e, OSError) and case.get('kill') and e.errno == case['kill']['sig']:
        # "surfaces as an error": an OSError (any subclass) carrying the signal number; the message text is
        # not part of the property (a check on `os.strerror` here was a false alarm on a harmless rewording)
        return f'oserror:{e.errno}'
    return f'other:{cls}:{e.args!r}'[:200]


def _install_slow_reap():
    """An adversarial but legal OS schedule for the exit status: the collector thread's `waitpid` wins the
    race for the status of the dead child and the thread is then descheduled for 50 ms before it can store
    it; a blocking `waitpid` of any other thread is woken 20 ms late.  (Pure delays, installed in the
    harness process only; nothing in /repo is touched.)  Whoever loses sees ECHILD - the situation of F28."""
    import threading
    orig = os.waitpid

    def waitpid(pid, flags):
        collector = 'ResultCollectorThread' in threading.current_thread().name
        if not collector and flags == 0:
            try:
                os.waitid(os.P_PID, pid, os.WEXITED | os.WNOWAIT)     # wait for the death without reaping
            except OSError:
                pass
            time.sleep(0.02)
        r = orig(pid, flags)
        if collector and r[0] != 0:
            time.sleep(0.05)
        return r

    os.waitpid = waitpid


def _inner(case):
    import threading
    t0 = time.time()
    if case.get('slow_reap'):
        _install_slow_reap()
    import mpservice
    from mpservice import multiprocessing as mpm
    from mpservice import threading as mpt
    out = dict(mpservice_file=mpservice.__file__, answers=[], early_answers=[], tb_problems=[])
    phase = case['kill']['phase'] if case.get('kill') else None
    sig = case['kill']['sig'] if case.get('kill') else 9
    tbp = out['tb_problems']
    if case.get('flood') or case.get('logs'):
        import logging
        if case.get('slow_handler'):
            # a parent that handles records slowly: the child's log pipe is full most of the time, its queue feeder
            # thread sits in a pipe write (holding the queue's cross-process write lock) while it flushes
            class _Slow(logging.Handler):
                def emit(self, record):
                    time.sleep(case['slow_handler'])
            logging.getLogger().addHandler(_Slow())
        else:
            logging.getLogger().addHandler(logging.NullHandler())
    spec = list(case['outcome']) + [case.get('raise_how') or 'plain']
    if case['kind'] == 'process':
        ready, after = mpm.Event(), mpm.Event()
        cls, tgt = mpm.Process, (target_proc if not (case.get('early') and phase is None) else target_proc_go)
        names = ['spec', 'ready', 'after', 'phase', 'sig', 'flood', 'dur', 'logs']
        vals = [spec, ready, after, phase, sig, case.get('flood', 0), case.get('dur', 0.0), case.get('logs', 0)]
        mod_wait, mod_asc = mpm.wait, mpm.as_completed
    else:
        ready, after = threading.Event(), threading.Event()
        cls, tgt = mpt.Thread, (target if not case.get('early') else target_go)
        names = ['spec', 'ready', 'after', 'phase']
        vals = [spec, ready, after, phase]
        mod_wait, mod_asc = mpt.wait, mpt.as_completed
    form = case.get('argform') or 'args'
    kept = None
    if case.get('notarget'):
        # a worker object created without a target: it runs nothing and ends like one whose target returned None
        w = cls()
    elif form == 'args':
        w = cls(target=tgt, args=tuple(vals))
    elif form == 'kwargs_temp':
        w = cls(target=tgt, kwargs=dict(zip(names, vals)))
    elif form == 'kwargs_kept':
        kept = dict(zip(names, vals))           # the caller goes on holding (and could reuse) this dict
        w = cls(target=tgt, kwargs=kept)
    else:
        kept = dict(zip(names[2:], vals[2:]))
        w = cls(target=tgt, args=tuple(vals[:2]), kwargs=kept)
    w.start()
    if kept is not None:
        _KEEP.append(kept)
        out['kwargs_foreign'] = sorted(k for k in kept if k not in names)
    _KEEP.append(w)     # never let the worker object be finalized inside the measured run (its GC
    #                     finalizer joins the logger thread; we leave through os._exit)
    out['t_start'] = round(time.time() - t0, 3)

    def nonblocking(a):
        if a == 'done':
            return 'ret:' + str(bool(w.done())).lower()
        if case['kind'] == 'thread':
            return 'ret:n/a'
        ec = w.exitcode
        return 'ret:' + ('none' if ec is None else str(ec))

    def send_signal():
        try:
            os.kill(w.pid, sig)
        except ProcessLookupError:
            out['kill_missed'] = True

    if case.get('kill') and phase == 'random':
        if case['kill'].get('anchor') == 'ready':
            ready.wait(60)
        if not case.get('call_first'):
            time.sleep(case['kill']['delay'])
            if w.exitcode is not None:
                out['kill_missed'] = True       # already gone (and reaped): nothing to signal
            else:
                send_signal()
    elif case.get('kill'):
        if phase == 'during':
            if not ready.wait(60):
                return dict(out, infra='child never became ready')
            if case.get('flood'):
                time.sleep(0.25)
        elif phase == 'after':
            if not after.wait(60):
                return dict(out, infra='child never signalled that run() was left')
        if case.get('early') and phase in ('during', 'after'):
            for a in ('done', 'exitcode'):
                out['early_answers'].append([a, nonblocking(a)])
        if phase != 'between' and not case.get('call_first'):
            os.kill(w.pid, sig)
    elif case.get('early'):
        # the target waits for `after`; ask the non-blocking accessors while it certainly runs
        if not ready.wait(60):
            return dict(out, infra='worker never became ready')
        for a in ('done', 'exitcode'):
            out['early_answers'].append([a, nonblocking(a)])
        after.set()

    def call(a):
        if a == 'join':
            try:
                r = w.join()
                return 'ret:none' if r is None else 'ret:other-value:' + repr(r)[:50]
            except BaseException as e:  # noqa
                return 'raise:' + _canon_exc(case, e, tbp, a)
        if a == 'result':
            try:
                return 'ret:' + _canon_value(case, w.result())
            except BaseException as e:  # noqa
                return 'raise:' + _canon_exc(case, e, tbp, a)
        if a == 'exception':
            try:
                e = w.exception()
                return 'ret:none' if e is None else 'ret:' + _canon_exc(case, e, tbp, a)
            except BaseException as e:  # noqa
                return 'raise:' + _canon_exc(case, e, tbp, a)
        if a == 'wait':
            try:
                d, nd = mod_wait([w])
                return 'ret:completed' if (w in d and not nd) else f'ret:not-completed:{len(d)}:{len(nd)}'
            except BaseException as e:  # noqa
                return f'raise:other:{type(e).__name__}:{e.args!r}'[:200]
        if a == 'as_completed':
            try:
                got = list(mod_asc([w]))
                return 'ret:completed' if got == [w] else f'ret:not-completed:{len(got)}'
            except BaseException as e:  # noqa
                return f'raise:other:{type(e).__name__}:{e.args!r}'[:200]
        raise ValueError(a)

    hung = False
    os_joined = False
    for a in case['order']:
        if a in ('done', 'exitcode'):
            if not os_joined and not hung:
                # the non-blocking accessors are compared after the worker has ended; wait for the
                # end at OS level only (no mpservice accessor involved, so "first accessor" stays true)
                _os_wait(case, w)
                os_joined = True
            out['answers'].append([a, nonblocking(a)])
            continue
        if hung:
            out['answers'].append([a, 'SKIPPED'])
            continue
        box = []
        th = threading.Thread(target=lambda: box.append(call(a)), daemon=True)
        th.start()
        if case.get('call_first') and not out['answers'] and case.get('kill'):
            # the accessor is (most likely) already blocked in the OS-level join when the signal arrives
            time.sleep(case['kill'].get('delay', 0.05))
            if phase == 'random':
                if th.is_alive():
                    send_signal()
                else:
                    out['kill_missed'] = True
            else:
                os.kill(w.pid, sig)
        th.join(HANG_BOUND)
        if th.is_alive():
            out['answers'].append([a, 'HANG'])
            hung = True
        else:
            out['answers'].append([a, box[0]])
            if a in ('join', 'result', 'exception'):
                os_joined = True
    out['t_total'] = round(time.time() - t0, 3)
    return out


def _os_wait(case, w):
    import multiprocessing.connection
    import threading
    if case['kind'] == 'process':
        multiprocessing.connection.wait([w.sentinel], timeout=HANG_BOUND)
        # `exitcode` polls the pid; make sure the status has been reaped
        t1 = time.time()
        while w.exitcode is None and time.time() - t1 < 5:
            time.sleep(0.001)
    else:
        threading.Thread.join(w, HANG_BOUND)


def target_go(spec, ready, after, phase):
    """`early` variant without kill: signal readiness, wait for the parent's go, then end as `spec`"""
    ready.set()
    after.wait(120)
    return target(spec, None, None, None)


def target_proc_go(spec, ready, after, phase, sig, flood=0, dur=0.0, logs=0):
    return target_go(spec, ready, after, phase)


def _inner_main(argv):
    cf, of = argv
    with open(cf) as f:
        case = json.load(f)
    try:
        res = _inner(case)
    except BaseException as e:  # noqa
        import traceback
        res = dict(infra='inner crashed: ' + ''.join(traceback.format_exception(type(e), e, e.__traceback__))[-1500:])
    tmp = of + '.tmp'
    with open(tmp, 'w') as f:
        json.dump(res, f)
    os.replace(tmp, of)
    sys.stdout.flush()
    os._exit(0)     # do not wait for stuck non-daemon threads of a defective tree


if __name__ == '__main__':
    if len(sys.argv) >= 4 and sys.argv[1] == '--inner':
        # run under the module's importable name, so that targets and exception classes pickle
        # as `scen_proc.<name>` in both directions
        import scen_proc
        scen_proc._inner_main(sys.argv[2:4])
