"""
Scenario for C14: method calls through manager proxies behave like direct calls.

Engine E4 (harness/e4_mgr.py): a REAL `ServerProcess` hosts a few objects (list, dict, Namespace,
Value, a custom `Counter`); the director and 1-2 spawned client processes each hold proxies to all
of them (the spawned ones received theirs as Process arguments); a random history of operations —
arbitrary picklable arguments, proxies as arguments, operations that raise, `managed()` returns,
proxies used inside the server, batches issued concurrently from several threads and processes —
is issued through them.

Each operation's outcome (value / proxy / exception class+args+remote traceback) is compared with
  (b) the same operation applied, in issue order, to local Python objects of the same classes
      (monitor: this *is* the property statement), and
  (a) the Lean proxy machine (`drv proxycall`: `proxyStep pySem`), which also checks the final
      state of every object.
"""
import json
import os
import random

MODEL = 'proxycall'

PLAIN_POOL = [
    'a', 'bb', '', 2 ** 70, {'$tuple': [1, 2]}, {'$tuple': ['x', {'$tuple': [3]}]}, [1, [2, 3]],
    {'$dict': [['k', [1]]]}, {'$bytes': '00ff10'}, {'$float': '1.5'}, {'$set': [1, 2]}, [], 'ü\n',
]
KEY_POOL = [0, 1, 7, 'a', 'b', {'$tuple': [1, 'z']}]
ATTRS = ['x', 'y', 'z']
FAIL = {'value': 'ValueError', 'key': 'KeyError', 'zero': 'ZeroDivisionError', 'other': 'Boom'}


def jkey(v):
    return json.dumps(v, sort_keys=True)


class Enc:
    """values -> tokens of the Lean driver; plain values are interned per case"""

    def __init__(self, table):
        self.table = table          # list of canonical json strings

    def tok(self, v):
        if v is None:
            return 'n'
        if v is True:
            return 'b1'
        if v is False:
            return 'b0'
        if isinstance(v, int) and abs(v) < 10 ** 9:
            return f'i{v}'
        if isinstance(v, dict) and '$h' in v:
            return 'r' + v['$h'][1:]             # handle 'o<addr>'
        if isinstance(v, dict) and '$proxy' in v:
            return f'r{v["$proxy"]}'
        k = jkey(v)
        if k not in self.table:
            self.table.append(k)
        return f'p{self.table.index(k)}'

    def toks(self, vs):
        return ','.join(self.tok(v) for v in vs) if vs else '-'


def gen_value(rng, objs, allow_proxy=True):
    r = rng.random()
    if r < 0.3:
        return rng.randrange(-3, 40)
    if r < 0.4:
        return rng.choice([None, True, False])
    if allow_proxy and r < 0.55 and objs:
        return {'$h': f'o{rng.choice(objs)["addr"]}'}
    return rng.choice(PLAIN_POOL)


def storm_step(hub, who, n_threads, n_calls, k):
    """concurrent calls of a hosted method returning managed(<instance of an ad-hoc class>) from several threads in
    several processes, while each process also keeps creating objects of a registered class with a slow constructor"""
    return dict(storm=[[c, ['storm', f'o{hub["addr"]}', n_threads, n_calls, 4, 100000 * (k + 1) + 10000 * j]]
                       for j, c in enumerate(who)], addr=hub['addr'], m='storm', want=n_threads * n_calls)


def gen_case(rng: random.Random, tier: str, bias: str = ''):
    big = tier == 'thorough'
    objs = []
    addr = 0
    kinds = ['list', 'dict', 'ns', 'value', 'counter', 'hub']
    chosen = [rng.choice(kinds) for _ in range(rng.choice([2, 3, 4]))]
    if rng.random() < 0.6 and 'list' not in chosen:
        chosen.append('list')
    if bias and bias not in chosen:
        chosen.append(bias)
    for k in chosen:
        o = dict(addr=addr, kind=k)
        if k == 'list':
            o['init'] = [rng.randrange(5) for _ in range(rng.choice([0, 1, 3]))]
        elif k == 'value':
            o['init'] = rng.randrange(10)
        elif k == 'counter':
            o['init'] = rng.randrange(3)
            o['log'] = addr + 1
            addr += 1
        elif k == 'hub':
            # a Hub owns a Memory.Store and a Disk.Store: same class name, hence same made-up typeid, different methods
            o['mem'], o['disk'] = addr + 1, addr + 2
            addr += 2
        addr += 1
        objs.append(o)
    # two independent manager servers in 40 % of the cases: every object lives on one of them; proxies of objects of
    # one server travel as arguments / stored values into calls on objects of the other.  Otherwise, in a quarter of
    # the cases, the single manager has an explicit authkey that differs from the processes' own key.
    two = bias in ('two', 'mixed') or (bias != 'authkey' and rng.random() < 0.4)
    # mixed keys: two managers of which exactly ONE (A) has an explicit authkey.  Proxies cross in the supported
    # direction only: objects of the default-key manager B as arguments / stored values of calls on objects of either
    # manager (a process inside B does not know A's key, so a proxy of an A-object cannot be rebuilt in B: stdlib design)
    mixed = bias == 'mixed' or (two and rng.random() < 0.4)
    akey = bias == 'authkey' or mixed or (not two and rng.random() < 0.25)
    for o in objs:
        o['srv'] = rng.choice(['A', 'B']) if two else 'A'
    if mixed and len({o['srv'] for o in objs}) < 2:
        objs[0]['srv'], objs[-1]['srv'] = 'A', 'B'
    pobjs = [o for o in objs if o['srv'] == 'B'] if mixed else objs       # whose proxies may travel as values
    srv_of_addr = {}
    for o in objs:
        for key in ('addr', 'log', 'mem', 'disk'):
            if key in o:
                srv_of_addr[o[key]] = o['srv']
    n_clients = rng.choice([2, 2, 3])
    clients = [str(c) for c in range(n_clients)]
    n_ops = rng.choice([3, 6, 12]) if not big else rng.choice([12, 30, 60])
    steps = []
    # handles: every client has 'o<addr>' for every object; managed() results are kept per client
    extra = {c: [] for c in clients}          # (handle, addr, kind) of managed views held by client c
    n_big_imul = [0]
    lists = [o for o in objs if o['kind'] == 'list']

    def target_handles(c):
        hs = [(f'o{o["addr"]}', o['addr'], o['kind']) for o in objs]
        hs += list(extra[c])
        return hs

    def list_handles(c):
        return [(h, a) for h, a, k in target_handles(c) if k == 'list' and (not mixed or srv_of_addr.get(a) == 'B')]

    def one_op(c):
        h, a, kind = rng.choice(target_handles(c))
        is_view = not h.startswith('o')
        val = lambda: gen_value(rng, pobjs, allow_proxy=not is_view)   # noqa: E731
        idx = lambda: rng.choice([0, 0, 1, -1, 2, -2, 5, -7])         # noqa: E731
        if kind == 'list':
            m = rng.choice(['append', 'append', 'extend', 'insert', 'popLast', 'pop', 'getitem', 'setitem',
                            'delitem', 'len', 'reverse', 'slice', 'imul', 'iadd'])
            if m == 'imul':
                # `x *= k` with x bound to the proxy: the hosted list changes, x stays the proxy
                k = rng.choice([0, 1, 2, 2, -1] if n_big_imul[0] < 3 else [0, 1, -1])
                n_big_imul[0] += k >= 2
                return dict(who=c, h=h, addr=a, m='imul', inplace=['imul', k], mint=[k])
            if m == 'iadd':
                vs = [val() for _ in range(rng.choice([0, 1, 2]))]
                return dict(who=c, h=h, addr=a, m='iadd', inplace=['iadd', vs], mlist=vs)
            if m == 'append':
                v = val()
                return dict(who=c, h=h, addr=a, m='append', py=['append', [v]], margs=[v])
            if m == 'extend':
                vs = [val() for _ in range(rng.choice([0, 1, 2]))]
                return dict(who=c, h=h, addr=a, m='extend', py=['extend', [vs]], mlist=vs)
            if m == 'insert':
                k, v = idx(), val()
                return dict(who=c, h=h, addr=a, m='insert', py=['insert', [k, v]], mint=[k], margs=[v])
            if m == 'popLast':
                return dict(who=c, h=h, addr=a, m='popLast', py=['pop', []], keep=True)
            if m == 'pop':
                k = idx()
                return dict(who=c, h=h, addr=a, m='pop', py=['pop', [k]], mint=[k], keep=True)
            if m == 'getitem':
                k = idx()
                return dict(who=c, h=h, addr=a, m='getitem', py=['__getitem__', [k]], mint=[k], keep=True)
            if m == 'setitem':
                k, v = idx(), val()
                return dict(who=c, h=h, addr=a, m='setitem', py=['__setitem__', [k, v]], mint=[k], margs=[v])
            if m == 'delitem':
                k = idx()
                return dict(who=c, h=h, addr=a, m='delitem', py=['__delitem__', [k]], mint=[k])
            if m == 'len':
                return dict(who=c, h=h, addr=a, m='len', py=['__len__', []])
            if m == 'reverse':
                return dict(who=c, h=h, addr=a, m='reverse', py=['reverse', []])
            return dict(who=c, h=h, addr=a, m='slice', py=['__getitem__', [{'$slice': [None, None, None]}]], keep=True)
        if kind == 'dict':
            m = rng.choice(['dset', 'dset', 'dget', 'ddel', 'dpop', 'dpopd', 'dgetd', 'dcontains', 'len', 'dcopy',
                            'dclear', 'dsetdefault', 'dpopitem'])
            k = rng.choice(KEY_POOL)
            if m == 'dset':
                v = val()
                return dict(who=c, h=h, addr=a, m=m, py=['__setitem__', [k, v]], margs=[k, v])
            if m == 'dget':
                return dict(who=c, h=h, addr=a, m=m, py=['__getitem__', [k]], margs=[k], keep=True)
            if m == 'ddel':
                return dict(who=c, h=h, addr=a, m=m, py=['__delitem__', [k]], margs=[k])
            if m == 'dpop':
                return dict(who=c, h=h, addr=a, m=m, py=['pop', [k]], margs=[k], keep=True)
            if m == 'dpopd':
                d = val()
                return dict(who=c, h=h, addr=a, m=m, py=['pop', [k, d]], margs=[k, d], keep=True)
            if m == 'dgetd':
                d = val()
                return dict(who=c, h=h, addr=a, m=m, py=['get', [k, d]], margs=[k, d], keep=True)
            if m == 'dcontains':
                return dict(who=c, h=h, addr=a, m=m, py=['__contains__', [k]], margs=[k])
            if m == 'len':
                return dict(who=c, h=h, addr=a, m=m, py=['__len__', []])
            if m == 'dcopy':
                return dict(who=c, h=h, addr=a, m=m, py=['copy', []], keep=True)
            if m == 'dclear':
                return dict(who=c, h=h, addr=a, m=m, py=['clear', []])
            if m == 'dsetdefault':
                v = val()
                return dict(who=c, h=h, addr=a, m=m, py=['setdefault', [k, v]], margs=[k, v], keep=True)
            return dict(who=c, h=h, addr=a, m='dpopitem', py=['popitem', []], keep=True)
        if kind == 'ns':
            m = rng.choice(['nset', 'nset', 'nget', 'nget', 'ndel'])
            x = rng.randrange(len(ATTRS))
            if m == 'nset':
                v = val()
                return dict(who=c, h=h, addr=a, m=m, attr=['setattr', ATTRS[x], v], mnat=[x], margs=[v])
            if m == 'nget':
                return dict(who=c, h=h, addr=a, m=m, attr=['getattr', ATTRS[x]], mnat=[x], keep=True)
            return dict(who=c, h=h, addr=a, m=m, attr=['delattr', ATTRS[x]], mnat=[x])
        if kind == 'hub':
            o = next(x for x in objs if x['addr'] == a)
            which = rng.choice([0, 1])
            hname = f'm{len(steps)}'
            sub = o['mem'] if which == 0 else o['disk']
            extra[c].append((hname, sub, 'mstore' if which == 0 else 'dstore'))
            return dict(who=c, h=h, addr=a, m=f'view{which}', py=['mem_store' if which == 0 else 'disk_store', []],
                        keepas=hname, new=[[hname, sub, 'cont']])
        if kind in ('mstore', 'dstore'):
            m = rng.choice(['add', 'add', 'size', 'items', 'own', 'own'])
            if m == 'add':
                v = gen_value(rng, objs, allow_proxy=False)
                return dict(who=c, h=h, addr=a, m='append', py=['add', [v]], margs=[v])
            if m == 'size':
                return dict(who=c, h=h, addr=a, m='len', py=['size', []])
            if m == 'items':
                return dict(who=c, h=h, addr=a, m='slice', py=['items', []])
            if kind == 'mstore':        # the method only this class has
                return dict(who=c, h=h, addr=a, m='popLast', py=['take', []])
            return dict(who=c, h=h, addr=a, m='reverse', py=['flip', []])
        if kind == 'value':
            if rng.random() < 0.5:
                return dict(who=c, h=h, addr=a, m='vget', py=['get', []], keep=True)
            v = val()
            return dict(who=c, h=h, addr=a, m='vset', py=['set', [v]], margs=[v])
        # counter
        m = rng.choice(['add', 'add', 'cget', 'fail', 'fail', 'history', 'history', 'snapshot', 'echo', 'poke', 'pokePop',
                        'relayFail', 'relayFail'])
        if m == 'add':
            k = rng.randrange(-2, 9)
            return dict(who=c, h=h, addr=a, m=m, py=['add', [k]], mint=[k])
        if m == 'cget':
            return dict(who=c, h=h, addr=a, m=m, py=['get', []])
        if m == 'fail':
            tag = rng.choice(sorted(FAIL))
            payload = gen_value(rng, objs, allow_proxy=False)
            return dict(who=c, h=h, addr=a, m=m, py=['fail', [tag, payload]], fail=tag)
        if m == 'relayFail':
            # this Counter calls `fail` of a hosted Counter (another one or itself) through a proxy, inside the server
            tgts = [o for o in pobjs if o['kind'] == 'counter']
            if not tgts:
                return dict(who=c, h=h, addr=a, m='cget', py=['get', []])
            tgt = rng.choice(tgts)
            tag = rng.choice(sorted(FAIL))
            payload = gen_value(rng, objs, allow_proxy=False)
            return dict(who=c, h=h, addr=a, m=m, py=['relay_fail', [{'$h': f'o{tgt["addr"]}'}, tag, payload]],
                        mref=tgt['addr'], fail=tag)
        if m == 'history':
            hname = f'm{len(steps)}'
            log = next(o['log'] for o in objs if o['addr'] == a)
            extra[c].append((hname, log, 'list'))
            return dict(who=c, h=h, addr=a, m=m, py=['history', []], keepas=hname, new=[[hname, log, 'cont']])
        if m == 'snapshot':
            return dict(who=c, h=h, addr=a, m=m, py=['snapshot', []])
        if m == 'echo':
            vs = [gen_value(rng, pobjs) for _ in range(rng.choice([0, 1, 3]))]
            kw = {'$dict': [['kw', gen_value(rng, objs, allow_proxy=False)]]} if rng.random() < 0.5 else None
            return dict(who=c, h=h, addr=a, m=m, py=['echo', vs], kwargs=kw, mlist=vs, keep=True)
        lh = list_handles(c)
        if not lh:
            return dict(who=c, h=h, addr=a, m='cget', py=['get', []])
        th, ta = rng.choice(lh)
        if m == 'poke':
            v = gen_value(rng, objs, allow_proxy=False)
            return dict(who=c, h=h, addr=a, m=m, py=['poke', [{'$h': th}, v]], mref=ta, margs=[v])
        return dict(who=c, h=h, addr=a, m='pokePop', py=['poke_pop', [{'$h': th}]], mref=ta, keep=True)

    k = 0
    ctrs = [o for o in objs if o['kind'] == 'counter']
    if ctrs and rng.random() < 0.5:
        # the same hosted value handed out by managed() more than once: views in different processes
        o = rng.choice(ctrs)
        for c in rng.sample(clients, k=2):
            hname = f'm{len(steps)}'
            extra[c].append((hname, o['log'], 'list'))
            steps.append(dict(who=c, h=f'o{o["addr"]}', addr=o['addr'], m='history', py=['history', []], keepas=hname,
                              new=[[hname, o['log'], 'cont']]))
            k += 1
    hubs = [o for o in objs if o['kind'] == 'hub']
    if hubs and rng.random() < 0.7:
        # one process gets managed() proxies of both stores (same typeid, different method sets), in either order,
        # and calls the method only one of them has
        o = rng.choice(hubs)
        c = rng.choice(clients)
        for which in rng.sample([0, 1], k=2):
            hname = f'm{len(steps)}'
            sub = o['mem'] if which == 0 else o['disk']
            extra[c].append((hname, sub, 'mstore' if which == 0 else 'dstore'))
            steps.append(dict(who=c, h=f'o{o["addr"]}', addr=o['addr'], m=f'view{which}',
                              py=['mem_store' if which == 0 else 'disk_store', []], keepas=hname, new=[[hname, sub, 'cont']]))
            steps.append(dict(who=c, h=hname, addr=sub, m='append', py=['add', [which]], margs=[which]))
            k += 2
        for hname, sub, vk in extra[c][-2:]:
            steps.append(dict(who=c, h=hname, addr=sub, m='popLast' if vk == 'mstore' else 'reverse',
                              py=['take' if vk == 'mstore' else 'flip', []]))
            k += 1
    while k < n_ops:
        if hubs and rng.random() < 0.08:
            steps.append(storm_step(rng.choice(hubs), rng.sample(clients, k=rng.choice([1, 2])), rng.choice([2, 3]),
                                    rng.choice([10, 20]), len(steps)))
            k += 1
            continue
        if lists and rng.random() < 0.12:
            # a batch issued concurrently: distinct values appended to one list from several threads/processes
            tgt = rng.choice(lists)
            batch = []
            base = 1000 + 10 * len(steps)
            for c in rng.sample(clients, k=rng.choice([1, len(clients)])):
                nthreads = rng.choice([1, 2, 3])
                calls = [['call', f'o{tgt["addr"]}', 'append', [base + len(batch) * 3 + t]] for t in range(nthreads)]
                batch.append([c, ['threads', calls]])
            steps.append(dict(par=batch, addr=tgt['addr'], values=[cl[3][0] for _, cmd in batch for cl in cmd[1]]))
            steps.append(dict(who=rng.choice(clients), h=f'o{tgt["addr"]}', addr=tgt['addr'], m='slice',
                              py=['__getitem__', [{'$slice': [None, None, None]}]], keep=True, after_par=True))
            k += 2
            continue
        holders = [c for c in clients if extra[c]]
        if holders and rng.random() < 0.15:
            # a client drops one of its managed() views; every other view of that value — in this and in
            # the other processes — must stay live: each is called right away
            c = rng.choice(holders)
            hname, log, _vk = extra[c].pop(rng.randrange(len(extra[c])))
            steps.append(dict(who=c, h=hname, addr=log, m='dropview', drop=True))
            k += 1
            for c2 in clients:
                for h2, a2, vk2 in extra[c2]:
                    if a2 == log:
                        steps.append(dict(who=c2, h=h2, addr=a2, m='len', py=['__len__' if vk2 == 'list' else 'size', []]))
                        k += 1
            continue
        steps.append(one_op(rng.choice(clients)))
        k += 1
    # final reads of every object (by a random client): the state through a proxy
    for o in objs:
        c = rng.choice(clients)
        h, a = f'o{o["addr"]}', o['addr']
        if o['kind'] == 'list':
            steps.append(dict(who=c, h=h, addr=a, m='slice', py=['__getitem__', [{'$slice': [None, None, None]}]], keep=True, final=True))
        elif o['kind'] == 'dict':
            steps.append(dict(who=c, h=h, addr=a, m='dcopy', py=['copy', []], keep=True, final=True))
        elif o['kind'] == 'ns':
            steps.append(dict(who=c, h=h, addr=a, m='nsdict', py=['_callmethod', ['__getattribute__', {'$tuple': ['__dict__']}]],
                              keep=True, final=True))
        elif o['kind'] == 'value':
            steps.append(dict(who=c, h=h, addr=a, m='vget', py=['get', []], keep=True, final=True))
        elif o['kind'] == 'hub':
            steps.extend(hub_finals(o, c))
        else:
            steps.append(dict(who=c, h=h, addr=a, m='cget', py=['get', []], final=True))
            steps.append(dict(who=c, h=h, addr=a, m='snapshot', py=['snapshot', []], final=True))
    return dict(kind='proxycall', objs=objs, clients=clients, ops=steps, two_servers=two, authkey='abc' if akey else None,
                mixed_keys=mixed,
                proc_cls=rng.choice(['mpservice', 'stdlib']), seed=rng.randrange(1 << 30))


def hub_finals(o, c):
    out = []
    for which, sub in ((0, o['mem']), (1, o['disk'])):
        hname = f'f{sub}'
        out.append(dict(who=c, h=f'o{o["addr"]}', addr=o['addr'], m=f'view{which}',
                        py=['mem_store' if which == 0 else 'disk_store', []], keepas=hname, new=[[hname, sub, 'cont']]))
        out.append(dict(who=c, h=hname, addr=sub, m='slice', py=['items', []], final=True))
    return out


def _finals(objs, who='1'):
    out = []
    for o in objs:
        h, a = f'o{o["addr"]}', o['addr']
        if o['kind'] == 'list':
            out.append(dict(who=who, h=h, addr=a, m='slice', py=['__getitem__', [{'$slice': [None, None, None]}]], keep=True, final=True))
        elif o['kind'] == 'dict':
            out.append(dict(who=who, h=h, addr=a, m='dcopy', py=['copy', []], keep=True, final=True))
        elif o['kind'] == 'ns':
            out.append(dict(who=who, h=h, addr=a, m='nsdict', py=['_callmethod', ['__getattribute__', {'$tuple': ['__dict__']}]],
                            keep=True, final=True))
        elif o['kind'] == 'value':
            out.append(dict(who=who, h=h, addr=a, m='vget', py=['get', []], keep=True, final=True))
        elif o['kind'] == 'hub':
            out.extend(hub_finals(o, who))
        else:
            out.append(dict(who=who, h=h, addr=a, m='cget', py=['get', []], final=True))
            out.append(dict(who=who, h=h, addr=a, m='snapshot', py=['snapshot', []], final=True))
    return out


def boundary_cases():
    """hand-written histories: the shapes of F31 / F32, every raising operation followed by a call on
    the same connection, a managed() view changed from three sides, empty containers and edge indices"""
    sl = ['__getitem__', [{'$slice': [None, None, None]}]]
    objs = [dict(addr=0, kind='counter', init=0, log=1), dict(addr=2, kind='list', init=[]),
            dict(addr=3, kind='dict'), dict(addr=4, kind='ns'), dict(addr=5, kind='value', init=1)]
    a = [  # raise, then go on using the same connection (client 1); nested raise inside the server (F31)
        dict(who='1', h='o0', addr=0, m='pokePop', py=['poke_pop', [{'$h': 'o2'}]], mref=2, keep=True),
        dict(who='1', h='o0', addr=0, m='poke', py=['poke', [{'$h': 'o2'}, 'a']], mref=2, margs=['a']),
        dict(who='1', h='o2', addr=2, m='pop', py=['pop', [5]], mint=[5], keep=True),
        dict(who='1', h='o2', addr=2, m='popLast', py=['pop', []], keep=True),
        dict(who='1', h='o2', addr=2, m='popLast', py=['pop', []], keep=True),
        dict(who='1', h='o2', addr=2, m='getitem', py=['__getitem__', [-1]], mint=[-1], keep=True),
        dict(who='1', h='o2', addr=2, m='setitem', py=['__setitem__', [0, None]], mint=[0], margs=[None]),
        dict(who='1', h='o2', addr=2, m='insert', py=['insert', [-7, {'$h': 'o3'}]], mint=[-7], margs=[{'$h': 'o3'}]),
        dict(who='1', h='o3', addr=3, m='dget', py=['__getitem__', [7]], margs=[7], keep=True),
        dict(who='1', h='o3', addr=3, m='dpopitem', py=['popitem', []], keep=True),
        dict(who='1', h='o3', addr=3, m='ddel', py=['__delitem__', ['a']], margs=['a']),
        dict(who='1', h='o3', addr=3, m='dset', py=['__setitem__', [{'$tuple': [1, 'z']}, {'$h': 'o2'}]],
             margs=[{'$tuple': [1, 'z']}, {'$h': 'o2'}]),
        dict(who='1', h='o4', addr=4, m='nget', attr=['getattr', 'x'], mnat=[0], keep=True),
        dict(who='1', h='o4', addr=4, m='ndel', attr=['delattr', 'y'], mnat=[1]),
        dict(who='1', h='o4', addr=4, m='nset', attr=['setattr', 'x', {'$h': 'o5'}], mnat=[0], margs=[{'$h': 'o5'}]),
        dict(who='1', h='o4', addr=4, m='nget', attr=['getattr', 'x'], mnat=[0], keep=True),
    ] + [dict(who='1', h='o0', addr=0, m='fail', py=['fail', [t, [1, 'p']]], fail=t) for t in sorted(FAIL)] + [
        dict(who='1', h='o0', addr=0, m='cget', py=['get', []]),
        dict(who='1', h='o5', addr=5, m='vset', py=['set', [{'$h': 'o0'}]], margs=[{'$h': 'o0'}]),
    ]
    b = [  # a managed() view of the counter's log, changed through the owner, the view and in-server pokes
        dict(who='0', h='o0', addr=0, m='history', py=['history', []], keepas='m0', new=[['m0', 1, 'cont']]),
        dict(who='1', h='o0', addr=0, m='add', py=['add', [5]], mint=[5]),
        dict(who='0', h='m0', addr=1, m='slice', py=sl, keep=True),
        dict(who='0', h='m0', addr=1, m='append', py=['append', ['via-view']], margs=['via-view']),
        dict(who='2', h='o0', addr=0, m='snapshot', py=['snapshot', []]),
        dict(who='2', h='o0', addr=0, m='history', py=['history', []], keepas='m5', new=[['m5', 1, 'cont']]),
        dict(who='2', h='o0', addr=0, m='poke', py=['poke', [{'$h': 'm5'}, 9]], mref=1, margs=[9]),
        dict(who='0', h='m0', addr=1, m='popLast', py=['pop', []], keep=True),
        dict(who='1', h='o0', addr=0, m='fail', py=['fail', ['key', 'k']], fail='key'),
        dict(who='0', h='m0', addr=1, m='len', py=['__len__', []]),
        dict(who='2', h='m5', addr=1, m='reverse', py=['reverse', []]),
        dict(who='1', h='o0', addr=0, m='snapshot', py=['snapshot', []]),
        # two live views of the same hosted list (m0 in client 0, m5 in client 2): drop one, the other stays live —
        # from its own process and, handed out a third time, from another one; then drop again
        dict(who='0', h='m0', addr=1, m='dropview', drop=True),
        dict(who='2', h='m5', addr=1, m='len', py=['__len__', []]),
        dict(who='2', h='m5', addr=1, m='append', py=['append', ['after-drop']], margs=['after-drop']),
        dict(who='1', h='o0', addr=0, m='history', py=['history', []], keepas='m20', new=[['m20', 1, 'cont']]),
        dict(who='0', h='o0', addr=0, m='history', py=['history', []], keepas='m21', new=[['m21', 1, 'cont']]),
        dict(who='2', h='m5', addr=1, m='dropview', drop=True),
        dict(who='1', h='m20', addr=1, m='len', py=['__len__', []]),
        dict(who='0', h='m21', addr=1, m='append', py=['append', [7]], margs=[7]),
        dict(who='1', h='m20', addr=1, m='dropview', drop=True),
        dict(who='0', h='m21', addr=1, m='slice', py=sl, keep=True),
        dict(who='2', h='o0', addr=0, m='snapshot', py=['snapshot', []]),
    ]
    out = []
    objs2 = objs[:2]
    c = [dict(who=w, h='o0', addr=0, m='pokePop', py=['poke_pop', [{'$h': 'o2'}]], mref=2, keep=True) for w in ('0', '1')] + [
        dict(who='1', h='o0', addr=0, m='poke', py=['poke', [{'$h': 'o2'}, 3]], mref=2, margs=[3]),
        dict(who='0', h='o0', addr=0, m='pokePop', py=['poke_pop', [{'$h': 'o2'}]], mref=2, keep=True)] + [
        # a hosted method calls another hosted method through a proxy inside the server; the inner one raises:
        # class, args and a traceback that leads to the inner method's raising line
        dict(who=w, h='o0', addr=0, m='relayFail', py=['relay_fail', [{'$h': 'o0'}, t, [1, 'p']]], mref=0, fail=t)
        for w, t in (('0', 'value'), ('1', 'other'), ('1', 'zero'))] + [
        dict(who='1', h='o0', addr=0, m='fail', py=['fail', ['key', 'k']], fail='key'),
        dict(who='1', h='o0', addr=0, m='cget', py=['get', []])]
    out.append(dict(kind='proxycall', objs=objs2, clients=['0', '1'], ops=c + _finals(objs2), proc_cls='mpservice', seed=0,
                    boundary='raise-inside-server'))
    # a Hub: managed() without typeid on two classes that share their name (typeid) but not their methods, both
    # proxied in one process in either order; in-place operators on a hosted list; a storm of concurrent
    # managed(<ad-hoc instance>) returns next to slow constructors
    hobjs = [dict(addr=0, kind='hub', mem=1, disk=2), dict(addr=3, kind='list', init=[1, 2])]
    hub = hobjs[0]

    def view(w, which, hname):
        return dict(who=w, h='o0', addr=0, m=f'view{which}', py=['mem_store' if which == 0 else 'disk_store', []],
                    keepas=hname, new=[[hname, 1 + which, 'cont']])
    d = [view('0', 0, 'ma'), view('0', 1, 'da'),            # client 0: memory store first
         view('1', 1, 'db'), view('1', 0, 'mb'),            # client 1: disk store first
         dict(who='0', h='ma', addr=1, m='append', py=['add', ['x']], margs=['x']),
         dict(who='1', h='db', addr=2, m='append', py=['add', [1]], margs=[1]),
         dict(who='1', h='db', addr=2, m='append', py=['add', [2]], margs=[2]),
         dict(who='0', h='da', addr=2, m='reverse', py=['flip', []]),
         dict(who='1', h='mb', addr=1, m='popLast', py=['take', []]),
         dict(who='1', h='db', addr=2, m='reverse', py=['flip', []]),
         dict(who='0', h='ma', addr=1, m='popLast', py=['take', []]),
         dict(who='0', h='da', addr=2, m='slice', py=['items', []]),
         dict(who='2', h='o3', addr=3, m='imul', inplace=['imul', 2], mint=[2]),
         dict(who='1', h='o3', addr=3, m='len', py=['__len__', []]),
         dict(who='2', h='o3', addr=3, m='iadd', inplace=['iadd', [7, {'$h': 'o0'}]], mlist=[7, {'$h': 'o0'}]),
         dict(who='2', h='o3', addr=3, m='append', py=['append', ['still-a-proxy']], margs=['still-a-proxy']),
         dict(who='0', h='o3', addr=3, m='imul', inplace=['imul', 0], mint=[0]),
         dict(who='2', h='o3', addr=3, m='iadd', inplace=['iadd', [[1]]], mlist=[[1]]),
         storm_step(hub, ['0', '1', '2'], 3, 40, 0),
         dict(who='1', h='mb', addr=1, m='len', py=['size', []])]
    for pc in ('mpservice', 'stdlib'):
        out.append(dict(kind='proxycall', objs=hobjs, clients=['0', '1', '2'], ops=d + _finals(hobjs, '2'), proc_cls=pc,
                        seed=0, boundary='hub-stores-inplace-storm'))
    # two manager servers: a proxy of an A-hosted list as argument / stored value / echo payload of calls on B-hosted
    # objects, used inside B's server, read back by another process; and a manager with an explicit authkey
    sl2 = ['__getitem__', [{'$slice': [None, None, None]}]]
    tobjs = [dict(addr=0, kind='list', init=[1], srv='A'), dict(addr=1, kind='dict', srv='B'),
             dict(addr=2, kind='counter', init=0, log=3, srv='B'), dict(addr=4, kind='list', init=[], srv='B'),
             dict(addr=5, kind='counter', init=0, log=6, srv='A')]
    t = [dict(who='0', h='o1', addr=1, m='dset', py=['__setitem__', ['a', {'$h': 'o0'}]], margs=['a', {'$h': 'o0'}]),
         dict(who='1', h='o1', addr=1, m='dget', py=['__getitem__', ['a']], margs=['a'], keep=True),
         dict(who='1', h='o4', addr=4, m='append', py=['append', [{'$h': 'o0'}]], margs=[{'$h': 'o0'}]),
         dict(who='0', h='o2', addr=2, m='poke', py=['poke', [{'$h': 'o0'}, 5]], mref=0, margs=[5]),
         dict(who='1', h='o0', addr=0, m='slice', py=sl2, keep=True),
         dict(who='1', h='o2', addr=2, m='pokePop', py=['poke_pop', [{'$h': 'o0'}]], mref=0, keep=True),
         dict(who='0', h='o2', addr=2, m='echo', py=['echo', [{'$h': 'o0'}, 1, {'$h': 'o4'}]], mlist=[{'$h': 'o0'}, 1, {'$h': 'o4'}], keep=True),
         dict(who='0', h='o2', addr=2, m='relayFail', py=['relay_fail', [{'$h': 'o5'}, 'value', [1, 'p']]], mref=5, fail='value'),
         dict(who='1', h='o5', addr=5, m='relayFail', py=['relay_fail', [{'$h': 'o2'}, 'other', None]], mref=2, fail='other'),
         dict(who='1', h='o4', addr=4, m='getitem', py=['__getitem__', [0]], mint=[0], keep=True),
         dict(who='0', h='o0', addr=0, m='append', py=['append', [{'$h': 'o1'}]], margs=[{'$h': 'o1'}]),
         dict(who='1', h='o1', addr=1, m='dpop', py=['pop', ['a']], margs=['a'], keep=True)]
    out.append(dict(kind='proxycall', objs=tobjs, clients=['0', '1'], ops=t + _finals(tobjs), proc_cls='mpservice', seed=0,
                    two_servers=True, authkey=None, boundary='two-servers'))
    # mixed keys: manager A has an explicit authkey, B the default one; proxies of B-objects as arguments / stored values
    # of calls on A-objects (rebuilt inside A's server, which must talk to B with B's key), read back by another process
    xobjs = [dict(addr=0, kind='list', init=[], srv='A'), dict(addr=1, kind='dict', srv='B'),
             dict(addr=2, kind='counter', init=0, log=3, srv='A'), dict(addr=4, kind='list', init=[2], srv='B'),
             dict(addr=5, kind='counter', init=1, log=6, srv='B')]
    x = [dict(who='0', h='o0', addr=0, m='append', py=['append', [{'$h': 'o1'}]], margs=[{'$h': 'o1'}]),
         dict(who='1', h='o0', addr=0, m='getitem', py=['__getitem__', [0]], mint=[0], keep=True),
         dict(who='1', h='o2', addr=2, m='poke', py=['poke', [{'$h': 'o4'}, 'p']], mref=4, margs=['p']),
         dict(who='0', h='o2', addr=2, m='echo', py=['echo', [{'$h': 'o1'}, 3, {'$h': 'o4'}]], mlist=[{'$h': 'o1'}, 3, {'$h': 'o4'}], keep=True),
         dict(who='0', h='o2', addr=2, m='relayFail', py=['relay_fail', [{'$h': 'o5'}, 'key', 'k']], mref=5, fail='key'),
         dict(who='1', h='o2', addr=2, m='pokePop', py=['poke_pop', [{'$h': 'o4'}]], mref=4, keep=True),
         dict(who='1', h='o1', addr=1, m='dset', py=['__setitem__', ['k', {'$h': 'o4'}]], margs=['k', {'$h': 'o4'}]),
         dict(who='0', h='o1', addr=1, m='dget', py=['__getitem__', ['k']], margs=['k'], keep=True),
         dict(who='0', h='o0', addr=0, m='iadd', inplace=['iadd', [{'$h': 'o5'}, 1]], mlist=[{'$h': 'o5'}, 1]),
         dict(who='1', h='o0', addr=0, m='slice', py=sl2, keep=True),
         dict(who='1', h='o0', addr=0, m='popLast', py=['pop', []], keep=True)]
    for pc in ('mpservice', 'stdlib'):
        out.append(dict(kind='proxycall', objs=xobjs, clients=['0', '1'], ops=x + _finals(xobjs), proc_cls=pc, seed=0,
                        two_servers=True, authkey='abc', mixed_keys=True, boundary='mixed-keys'))
    kobjs = [dict(addr=0, kind='list', init=[], srv='A'), dict(addr=1, kind='dict', srv='A'), dict(addr=2, kind='ns', srv='A')]
    ka = [dict(who='0', h='o0', addr=0, m='append', py=['append', [{'$h': 'o1'}]], margs=[{'$h': 'o1'}]),
          dict(who='0', h='o0', addr=0, m='getitem', py=['__getitem__', [0]], mint=[0], keep=True),
          dict(who='1', h='o0', addr=0, m='getitem', py=['__getitem__', [0]], mint=[0], keep=True),
          dict(who='1', h='o1', addr=1, m='dset', py=['__setitem__', ['k', {'$h': 'o0'}]], margs=['k', {'$h': 'o0'}]),
          dict(who='0', h='o1', addr=1, m='dpop', py=['pop', ['k']], margs=['k'], keep=True),
          dict(who='1', h='o2', addr=2, m='nset', attr=['setattr', 'x', {'$h': 'o1'}], mnat=[0], margs=[{'$h': 'o1'}]),
          dict(who='0', h='o2', addr=2, m='nget', attr=['getattr', 'x'], mnat=[0], keep=True),
          dict(who='1', h='o0', addr=0, m='slice', py=sl2, keep=True)]
    for pc in ('mpservice', 'stdlib'):
        out.append(dict(kind='proxycall', objs=kobjs, clients=['0', '1'], ops=ka + _finals(kobjs), proc_cls=pc, seed=0,
                        two_servers=False, authkey='abc', boundary='explicit-authkey'))
    for name, ops, clients in (('raise-and-go-on', a, ['0', '1']), ('managed-view', b, ['0', '1', '2'])):
        for pc in ('mpservice', 'stdlib'):
            out.append(dict(kind='proxycall', objs=objs, clients=clients, ops=ops + _finals(objs, clients[-1]),
                            proc_cls=pc, seed=0, boundary=name))
    return out


# ----------------------------------------------------------------------------------------------
# director steps
# ----------------------------------------------------------------------------------------------

def director_case(case):
    steps = []
    typeid = {'list': 'list', 'dict': 'dict', 'ns': 'Namespace', 'value': 'Value', 'counter': 'Counter', 'hub': 'Hub'}
    for o in case['objs']:
        args = {'list': [o.get('init', [])], 'dict': [], 'ns': [], 'value': ['i', o.get('init', 0)],
                'counter': [o.get('init', 0)], 'hub': []}[o['kind']]
        steps.append(dict(who='0', cmd=['create', typeid[o['kind']], args, f'o{o["addr"]}', o.get('srv', 'A')],
                          new=[[f'o{o["addr"]}', o['addr'], 'plain']]))
    pairs = [[f'o{o["addr"]}', f'o{o["addr"]}'] for o in case['objs']]
    for c in case['clients'][1:]:
        steps.append(dict(who='0', cmd=['spawn', c, pairs, case['proc_cls']]))
    n_setup = len(steps)
    for op in case['ops']:
        if 'par' in op:
            steps.append(dict(who='0', cmd=['par', op['par']], may_raise=True))
            continue
        if op.get('drop'):
            steps.append(dict(who=op['who'], cmd=['delete', op['h']], may_raise=True))
            continue
        if 'storm' in op:
            steps.append(dict(who='0', cmd=['par', op['storm']], may_raise=True))
            continue
        if 'inplace' in op:
            steps.append(dict(who=op['who'], cmd=['inplace', op['h'], op['inplace'][0], op['inplace'][1]], may_raise=True))
            continue
        keep = [op['keepas']] if op.get('keepas') else None
        if 'attr' in op:
            a = op['attr']
            if a[0] == 'setattr':
                cmd = ['setattr', op['h'], a[1], a[2]]
            elif a[0] == 'getattr':
                cmd = ['getattr', op['h'], a[1], keep]
            else:
                cmd = ['delattr', op['h'], a[1]]
        else:
            cmd = ['call', op['h'], op['py'][0], op['py'][1], op.get('kwargs'), keep]
        st = dict(who=op['who'], cmd=cmd, may_raise=True)
        if op.get('new'):
            st['new'] = op['new']
        steps.append(st)
    return dict(steps=steps, op_timeout=20.0, two_servers=bool(case.get('two_servers')), authkey=case.get('authkey')), n_setup


# ----------------------------------------------------------------------------------------------
# (b) the same operations on local Python objects
# ----------------------------------------------------------------------------------------------

class LocalWorld:
    def __init__(self, case):
        from multiprocessing.managers import Namespace, Value
        import e4_mgr
        self.obj = {}
        for o in case['objs']:
            k = o['kind']
            if k == 'list':
                self.obj[o['addr']] = list(o.get('init', []))
            elif k == 'dict':
                self.obj[o['addr']] = {}
            elif k == 'ns':
                self.obj[o['addr']] = Namespace()
            elif k == 'value':
                self.obj[o['addr']] = Value('i', o.get('init', 0))
            elif k == 'hub':
                hub = e4_mgr.Hub()
                self.obj[o['addr']] = hub
                self.obj[o['mem']] = hub._mem
                self.obj[o['disk']] = hub._disk
            else:
                c = e4_mgr.Counter(o.get('init', 0))
                self.obj[o['addr']] = c
                self.obj[o['log']] = c.log
        self.h = {}
        self.views = {}
        self.ids = {}

    def refresh(self):
        self.ids = {id(v): a for a, v in self.obj.items()}
        self.h = {f'o{a}': v for a, v in self.obj.items()}
        self.h.update(self.views)

    def canon(self, v):
        if id(v) in self.ids and not isinstance(v, (int, str, bytes, float, tuple, frozenset, type(None))):
            return {'$proxy': self.ids[id(v)]}
        if v is None or isinstance(v, (bool, int, str)):
            return v
        if isinstance(v, float):
            return {'$float': repr(v)}
        if isinstance(v, bytes):
            return {'$bytes': v.hex()}
        if isinstance(v, tuple):
            return {'$tuple': [self.canon(x) for x in v]}
        if isinstance(v, list):
            return [self.canon(x) for x in v]
        if isinstance(v, dict):
            return {'$dict': [[self.canon(k), self.canon(x)] for k, x in v.items()]}
        if isinstance(v, (set, frozenset)):
            return {'$set': sorted((self.canon(x) for x in v), key=lambda x: json.dumps(x, sort_keys=True))}
        return {'$repr': type(v).__name__}

    def run(self, op):
        """-> ('ret', canonical) | ('exc', class name, canonical args); dict results keep their order in 'order'"""
        import e4_mgr
        self.refresh()
        ag = self
        tgt = self.obj[op['addr']]
        try:
            if 'attr' in op:
                a = op['attr']
                if a[0] == 'setattr':
                    r = setattr(tgt, a[1], e4_mgr.decanon(a[2], ag))
                elif a[0] == 'getattr':
                    r = getattr(tgt, a[1])
                else:
                    r = delattr(tgt, a[1])
            elif op['m'] == 'nsdict':
                r = dict(tgt.__dict__)
            elif 'inplace' in op:
                r = tgt
                arg = e4_mgr.decanon(op['inplace'][1], ag)
                if op['inplace'][0] == 'imul':
                    r *= arg
                else:
                    r += arg
            else:
                args = e4_mgr.decanon(list(op['py'][1]), ag)
                kw = e4_mgr.decanon(op.get('kwargs') or {'$dict': []}, ag)
                r = getattr(tgt, op['py'][0])(*args, **kw)
            if op.get('keepas'):
                self.views[op['keepas']] = r
            return ('ret', self.canon(r))
        except Exception as e:  # noqa
            import traceback
            frames = [[f.name, f.lineno] for f in traceback.extract_tb(e.__traceback__)
                      if f.filename.endswith('e4_mgr.py')]
            return ('exc', type(e).__name__, self.canon(tuple(e.args)), frames)


def norm_remote(r):
    """canonical remote result -> same shape as LocalWorld.canon (proxies by harness ident)"""
    if isinstance(r, dict):
        if '$proxy' in r:
            return {'$proxy': r.get('hid')}
        return {k: norm_remote(v) for k, v in r.items()}
    if isinstance(r, list):
        return [norm_remote(x) for x in r]
    return r


def nontrivial(case, res):
    kinds = {o['kind'] for o in case['objs']}
    return len(case['clients']) >= 2 and len(case['ops']) >= 4 and len(kinds) >= 2 and res.get('complete', False)


def run_case(case):
    import e4_mgr
    repo_src = os.path.join(os.environ.get('VERIF_REPO', '/repo'), 'src')
    dcase, n_setup = director_case(case)
    timeout = case.get('timeout', 90 + 2.0 * len(dcase['steps']))
    res, status, err = e4_mgr.run_director(dcase, repo_src, timeout)
    if res is None or 'director_error' in (res or {}):
        raise RuntimeError(f'director failed ({status}): {(res or {}).get("director_error")} {err}')
    recs = res.get('steps', [])
    out = dict(monitors=[], status=status, total_s=res.get('total_s'), outcomes=[], complete=False, events=[])
    mon = out['monitors']
    for k, rec in enumerate(recs[:n_setup]):
        r = rec.get('r')
        if isinstance(r, dict) and ('$raised' in r or '$hang' in r):
            st = dcase['steps'][k]
            if st['cmd'][0] == 'create' and '$raised' in r:
                e = r['$raised']
                # no proxy of this registered type can even be obtained: none of its operations works
                mon.append(dict(prop='C14', rule='unusable-proxy-type',
                                detail=f'manager.{st["cmd"][1]}(*{st["cmd"][2]}) failed: {e["$exc"]}: {str(e["args"])[-300:]}'))
                out['events'] = [['create', st['cmd'][1]]]
                out['lin'] = []
                return out
            raise RuntimeError(f'setup step {k} failed: {r}')
    if len(recs) < n_setup:
        raise RuntimeError(f'setup incomplete: {recs[-1:]} {err}')
    world = LocalWorld(case)
    ops = case['ops']
    oprecs = recs[n_setup:]
    lin = []          # the history in issue order, with concurrent batches in their observed order
    k = 0
    while k < len(ops) and k < len(oprecs):
        op, rec = ops[k], oprecs[k]
        r = rec.get('r')
        if isinstance(r, dict) and '$hang' in r:
            mon.append(dict(prop='C14', rule='hang', detail=f'op {k} {op.get("m", "par")}: {r["$hang"]}'))
            break
        if 'storm' in op:
            parts = r if isinstance(r, list) else [r]
            badp = [x for x in parts if not isinstance(x, dict) or x.get('bad') or x.get('hung') or x.get('good') != op['want']]
            if any(isinstance(x, dict) and x.get('hung') for x in parts):
                mon.append(dict(prop='C14', rule='hang',
                                detail=f'op {k}: concurrent hub.widget(n) calls by {[w for w, _ in op["storm"]]} (managed(<ad-hoc '
                                       f'instance>) returns next to Slow() constructions) did not finish within 15 s — calls through '
                                       f'proxies block for ever (server dead-locked): {str(parts)[:600]}'))
                break
            if badp:
                mon.append(dict(prop='C14', rule='concurrent-managed',
                                detail=f'op {k}: hub.widget(n) — a hosted method returning managed(<ad-hoc class instance>) — called '
                                       f'concurrently by {[w for w, _ in op["storm"]]} ({op["storm"][0][1][2]} threads x '
                                       f'{op["storm"][0][1][3]} calls each, a Slow() creator alongside): not every call gave a live '
                                       f'proxy behaving like the object: {str(badp)[:900]}'))
                break
            k += 1
            continue
        if 'par' in op:
            flat = [x for part in (r if isinstance(r, list) else []) for x in (part if isinstance(part, list) else [part])]
            bad = [x for x in flat if x is not None]
            if bad or len(flat) != len(op['values']):
                mon.append(dict(prop='C14', rule='result', detail=f'op {k}: concurrent append batch returned {flat}'))
                break
            # the next op reads the list back: the observed order is the linearisation
            nxt = oprecs[k + 1].get('r') if k + 1 < len(oprecs) else None
            if not isinstance(nxt, list):
                mon.append(dict(prop='C14', rule='result', detail=f'op {k + 1}: read-back after a concurrent batch gave {nxt}'))
                break
            tail = nxt[len(nxt) - len(op['values']):] if len(op['values']) else []
            if sorted(map(jkey, tail)) != sorted(map(jkey, op['values'])):
                mon.append(dict(prop='C14', rule='lost-update',
                                detail=f'op {k}: values {op["values"]} appended concurrently to list {op["addr"]} from '
                                       f'{[w for w, _ in op["par"]]}, list now ends with {tail}'))
                break
            # which connection (client process, thread) issued which value
            conn_of = {}
            for w, cmd in op['par']:
                for t, cl in enumerate(cmd[1]):
                    conn_of[cl[3][0]] = 10 * (int(w) + 1) + t
            for n_, v in enumerate(tail):
                o2 = dict(who='0', h=f'o{op["addr"]}', addr=op['addr'], m='append', py=['append', [v]], margs=[v],
                          par=dict(conn=conn_of[v], first=n_ == 0, last=n_ == len(tail) - 1,
                                   issue=[[conn_of[x], x] for x in op['values']]))
                world.run(o2)
                lin.append((o2, ('ret', None)))
            k += 1
            continue
        if op.get('drop'):
            world.views.pop(op['h'], None)
            if r is not None:
                mon.append(dict(prop='C14', rule='call-failed', detail=f'op {k}: client {op["who"]} dropping its proxy {op["h"]}: {r}'))
                break
            k += 1
            continue
        want = world.run(op)
        want_frames = want[3] if want[0] == 'exc' else None
        want = want[:3] if want[0] == 'exc' else want
        tb_missing = None
        if isinstance(r, dict) and '$raised' in r:
            e = r['$raised']
            got = ('exc', e['$exc'], e['args'])
            tb_ok = bool(e.get('remote')) and bool(e.get('tb_has_site'))
            lin.append((op, ('exc', e['$exc'], tb_ok)))
            if not tb_ok:
                tb_missing = e
        else:
            got = ('ret', norm_remote(r))
            lin.append((op, ('ret', norm_remote(r))))
        where = (f'op {k} {op["m"]}{op.get("py", op.get("attr", op.get("inplace")))} on object {op["addr"]} by client {op["who"]}')
        if got != tuple(want):
            if op.get('m') == 'history':
                rule = 'managed-alias'
            elif 'inplace' in op and got[0] == 'ret':
                rule = 'inplace-rebinds'       # after `x op= v` the name is no longer (a proxy of) the hosted object
            elif got[0] == 'exc' and want[0] == 'ret' and got[1] == 'AttributeError' and not r['$raised'].get('remote'):
                rule = 'method-missing'        # the proxy lacks a method its hosted object has
            elif got[0] == 'exc' and want[0] == 'ret' and got[1] == 'RemoteError' and 'request = recv()' in str(got[2]):
                rule = 'argument-not-delivered'   # the request could not even be un-pickled in the server
            elif got[0] == 'exc' and want[0] == 'ret' and got[1] == 'RemoteError' and 'KeyError' in str(got[2]):
                rule = 'dead-proxy'            # the referent of a live proxy is gone from the server
            elif got[0] == 'exc' and want[0] == 'ret':
                rule = 'call-failed'           # e.g. the connection is no longer usable
            elif got[0] == 'exc' or want[0] == 'exc':
                rule = 'error'
            else:
                rule = 'state' if op.get('final') else 'result'
            mon.append(dict(prop='C14', rule=rule, detail=f'{where}: through the proxy {got}, directly {want}'))
            break
        got_frames = r['$raised'].get('tb_frames') if got[0] == 'exc' else None
        if got[0] == 'exc' and op.get('m') == 'relayFail' and case.get('two_servers'):
            # a call relayed to an object of the OTHER server arrives there over a connection: its server-side traceback
            # comes back as the cause of the relaying server's, i.e. printed first — same frames, other order
            got_frames, want_frames = sorted(got_frames or []), sorted(want_frames or [])
        if got[0] == 'exc' and tb_missing is None and got_frames != want_frames:
            # "carries the server-side traceback": the frames of the hosted classes' own methods, down to the
            # line that raised, must be those of the same call made directly
            mon.append(dict(prop='C14', rule='traceback',
                            detail=f'{where}: {got[1]} raised; the server-side traceback shows the hosted-method frames '
                                   f'{r["$raised"].get("tb_frames")}, a direct call shows {want_frames} '
                                   f'([function, line] in e4_mgr.py, outermost first): it does not lead to the raising line'))
            break
        if tb_missing is not None:
            e = tb_missing
            mon.append(dict(prop='C14', rule='traceback',
                            detail=f'{where}: {e["$exc"]}{e["args"]} arrived without the server-side traceback '
                                   f'(remote={e.get("remote")}, tb_len={e.get("tb_len")})'))
            break
        k += 1
    else:
        out['complete'] = len(oprecs) == len(ops)
    if status == 'timeout' and not mon:
        raise RuntimeError(f'director timed out after {timeout}s without a diagnosis: {err}')
    out['lin'] = lin
    out['events'] = [[o.get('m', 'par'), o.get('who')] for o in ops[:k + 1]]
    return out


# ----------------------------------------------------------------------------------------------
# (a) the Lean proxy machine
# ----------------------------------------------------------------------------------------------

def _mop(enc, op):
    m = op['m']
    parts = [m]
    if 'mnat' in op:
        parts += [str(x) for x in op['mnat']]
    if 'mint' in op:
        parts += [str(x) for x in op['mint']]
    if m == 'fail':
        return f'fail {enc.tok(op["fail"])[1:]} {FAIL[op["fail"]]}'
    if m == 'relayFail':
        return f'relayFail r{op["mref"]} {enc.tok(op["fail"])[1:]} {FAIL[op["fail"]]}'
    if m == 'iadd':
        return 'iadd ' + enc.toks(op['mlist'])
    if m in ('poke', 'pokePop'):
        parts.append(f'r{op["mref"]}')
    if 'mlist' in op:
        parts.append(enc.toks(op['mlist']))
    if 'margs' in op:
        parts += [enc.tok(v) for v in op['margs']]
    return ' '.join(parts)


def _mout(enc, op, o):
    """observed outcome -> the driver's outcome syntax"""
    if o[0] == 'exc':
        return f'exc {o[1]} {"tb" if o[2] else "notb"}'
    r = o[1]
    m = op['m']
    if m in ('slice', 'snapshot'):
        return 'vals ' + enc.toks(r)
    if m == 'echo':
        return 'vals ' + enc.toks(r[0])
    if m == 'dpopitem':
        return 'vals ' + enc.toks(r['$tuple'])
    if m == 'dcopy':
        return 'vals ' + enc.toks([x for kv in r['$dict'] for x in kv])
    return 'ret ' + enc.tok(r)


def model_lines(cid, case, res):
    table = []
    enc = Enc(table)
    lines = [f'case {cid}']
    for o in case['objs']:
        a = o['addr']
        if o['kind'] == 'list':
            lines.append(f'new {a} list {enc.toks(o.get("init", []))}')
        elif o['kind'] == 'dict':
            lines.append(f'new {a} dict')
        elif o['kind'] == 'ns':
            lines.append(f'new {a} ns')
        elif o['kind'] == 'value':
            lines.append(f'new {a} cell {enc.tok(o.get("init", 0))}')
        elif o['kind'] == 'hub':
            lines.append(f'new {a} hub {o["mem"]} {o["disk"]}')
        else:
            lines.append(f'new {a} ctr {o.get("init", 0)} {o["log"]}')
    for op, o in res.get('lin', []):
        if op['m'] == 'nsdict':
            if o[0] == 'ret':
                order = o[1]['$dict']
                body = ','.join(f'{ATTRS.index(k)}={enc.tok(v)}' for k, v in order) if order else '-'
                lines.append(f'state {op["addr"]} => N:{body}')
            continue
        if op.get('par'):
            # a concurrent batch: all sends in issue order, the methods in the observed order, then the replies
            pr = op['par']
            if pr['first']:
                lines += [f'psend {c} {op["addr"]} append {enc.tok(v)}' for c, v in pr['issue']]
            lines.append(f'pexec {pr["conn"]}')
            if pr['last']:
                lines.append('pend => ret n')
            continue
        lines.append(f'op {op["who"]} {op["addr"]} {_mop(enc, op)} => {_mout(enc, op, o)}')
        if op.get('final') and o[0] == 'ret':
            r = o[1]
            if op['m'] == 'slice':
                lines.append(f'state {op["addr"]} => L:{enc.toks(r)}')
            elif op['m'] == 'vget':
                lines.append(f'state {op["addr"]} => C:{enc.tok(r)}')
            elif op['m'] == 'cget':
                lines.append(f'state {op["addr"]} => T:{r}')
            elif op['m'] == 'dcopy':
                order = r['$dict']
                body = ','.join(f'{enc.tok(k)}={enc.tok(v)}' for k, v in order) if order else '-'
                lines.append(f'state {op["addr"]} => D:{body}')
    lines.append('end')
    return lines
