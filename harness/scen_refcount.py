"""
Scenario for C13: reference counting of the manager server (`server_process.py`) under random
histories of {create, pickle, unpickle once, pass to a spawned child, store in / remove from a
hosted list or dict, return via managed(), delete proxy, child exits} over >= 2 client processes.

Engine E4 (harness/e4_mgr.py): every case runs a REAL `ServerProcess` plus client processes in a
fresh interpreter in its own session; the OS schedule is sampled, not controlled.

* `gen_case` builds the history together with the property's own bookkeeping (`Tracker`): which
  proxies / pickles / nested proxies exist after each step, hence — by the property statement —
  which objects must be hosted with which count and which shared-memory files must exist.
* `run_case` runs the history on the real code and evaluates the monitors: after every step the
  real server's `debug_info` (ids / counts) and `/dev/shm/<name>` must equal the bookkeeping, every
  live proxy must answer a call, no operation may fail or hang.
* `model_lines` feeds the same history and the *observed* tables to the Lean driver
  (`drv refcount`), which replays it through `Core.run Refcount.step` + `quiesce` and compares.
"""
import os
import random

MODEL = 'refcount'

KINDS = {'list': ('list', 'cont'), 'dict': ('dict', 'cont'), 'mem': ('MemoryBlock', 'mem'),
         'value': ('Value', 'plain'), 'maker': ('Maker', 'plain'), 'board': ('Board', 'plain'),
         # a Value / a Namespace that is used to hold proxies: a hosted container like list and dict
         'cell': ('Value', 'cont'), 'ns': ('Namespace', 'cont')}
KEYED = ('dict', 'cell', 'ns')
CONT = ('list', 'dict', 'cell', 'ns')
KEYS = {'dict': ['a', 'b', 'c'], 'cell': ['v'], 'ns': ['x', 'y']}


def cmd_set(kind, hc, key, x):
    if kind == 'dict':
        return ['call', hc, '__setitem__', [key, x]]
    if kind == 'cell':
        return ['call', hc, 'set', [x]]
    return ['setattr', hc, key, x]


def cmd_take(kind, mode, hc, key, keep):
    if kind == 'ns':
        return ['delattr', hc, key] if mode == 'del' else ['getattr', hc, key, keep]
    if kind == 'cell':
        return ['call', hc, 'get', [], None, keep]
    return ['call', hc, {'pop': 'pop', 'del': '__delitem__', 'get': '__getitem__'}[mode], [key], None, keep]


class Tracker:
    """The property statement as bookkeeping: an object is hosted iff some proxy (in a client,
    nested in a hosted container) or pickle refers to it; its count is the number of those."""

    def __init__(self):
        self.kind = {}
        self.alive = set()
        self.handles = {'0': {}}       # client -> {handle name: ident}
        self.parent = {}               # client -> parent client
        self.transit = {}              # token -> ident
        self.queued = []               # idents of the proxies in the shared multiprocessing.Queue (FIFO)
        self.content = {}              # container ident -> list of entries | dict key -> entry
        self.inner = {}                # maker ident -> (current incarnation ident | None)
        self.inner_of = {}             # inner incarnation ident -> maker ident
        self.inner_len = {}            # maker ident -> length of its inner list
        self.home = {}
        self.boards = {}               # (server, name) -> ident of the Board the registered factory returns, while hosted
        self.threaded = {'0'}          # clients that (may) have more than their main thread: they never fork
        self.n_ident = 0
        self.n_handle = 0
        self.n_token = 0
        self.n_client = 1
        self.hold = {}                 # client -> its proxies are still referenced (module global) when it exits

    # -- allocation
    def new_ident(self, kind, srv='A'):
        i = self.n_ident
        self.n_ident += 1
        self.kind[i] = kind
        self.home[i] = srv             # the server process that hosts it
        self.alive.add(i)
        if kind == 'list':
            self.content[i] = []
        elif kind in KEYED:
            self.content[i] = {'v': ('v', 5)} if kind == 'cell' else {}
        return i

    def new_handle(self):
        self.n_handle += 1
        return f'h{self.n_handle}'

    def entries(self, c):
        v = self.content[c]
        return list(v.values()) if isinstance(v, dict) else list(v)

    def refcount(self, i):
        n = sum(1 for hs in self.handles.values() for x in hs.values() if x == i)
        n += sum(1 for x in self.transit.values() if x == i)
        n += sum(1 for x in self.queued if x == i)
        for c in self.alive:
            if c in self.content:
                n += sum(1 for e in self.entries(c) if e == ('p', i))
        return n

    def settle(self):
        """objects without any reference die; what they held goes with them"""
        changed = True
        while changed:
            changed = False
            for i in sorted(self.alive):
                if self.refcount(i) == 0:
                    self.alive.discard(i)
                    for key, b in list(self.boards.items()):
                        if b == i:
                            self.boards[key] = None
                    if i in self.inner_of:
                        m = self.inner_of.pop(i)
                        self.inner[m] = None
                    elif i in self.content:
                        del self.content[i]
                    changed = True

    def expect(self):
        self.settle()
        return {'rc': {str(i): self.refcount(i) for i in sorted(self.alive)},
                'shm': sorted(str(i) for i in self.alive if self.kind[i] == 'mem')}

    def mk(self, i):
        return KINDS[self.kind[i]][1]

    def live_handles(self):
        return [(p, h, i) for p, hs in self.handles.items() for h, i in hs.items()]

    def probe_plan(self):
        plan, want = [], []
        for p, h, i in self.live_handles():
            k = self.kind[i]
            if k == 'list' or k == 'dict':
                plan.append([p, h, '__len__', [], False])
                if i in self.inner_of:
                    want.append(self.inner_len[self.inner_of[i]])
                else:
                    want.append(len(self.content[i]))
            elif k == 'mem':
                plan.append([p, h, '_callmethod', ['_name'], False])
                want.append('$str')
            elif k in ('cell', 'ns'):
                plan.append([p, h, '_callmethod', ['__repr__'], False])
                want.append('$str')
            elif k == 'value':
                plan.append([p, h, 'get', [], False])
                want.append(5)
            else:
                plan.append([p, h, 'noop', [], False])
                want.append(1)
        return plan, want


def gen_case(rng: random.Random, tier: str, bias: str = ''):
    big = tier == 'thorough'
    T = Tracker()
    steps = []
    proc_cls = rng.choice(['mpservice', 'mpservice', 'stdlib'])
    max_len = rng.choice([4, 8, 12]) if not big else rng.choice([12, 30, 60])
    # two independent manager servers A and B in half of the cases: objects are created on either, and a proxy
    # of an object hosted by one server may be stored in a container hosted by the other
    two = bias in ('two', 'mixed') or (bias not in ('one', 'authkey') and rng.random() < 0.5)
    servers = ['A', 'B'] if two else ['A']
    # mixed keys: of two managers exactly ONE (A) has an explicit authkey.  Proxies cross in the supported direction
    # only — objects of the default-key manager B inside / as arguments of objects of A — never a proxy of an A-object
    # into B (B's process does not know A's key: stdlib design)
    mixed = bias == 'mixed' or (two and bias != 'two' and rng.random() < 0.35)

    def ok_pair(c, i):
        return not (mixed and T.home[c] == 'B' and T.home[i] == 'A')
    # a manager with an explicit authkey that differs from the processes' own key (single manager only: a process
    # needs a server's key to talk to it, and pickles of proxies carry it only while a child is being spawned — so
    # these histories pass proxies to spawned/forked children, nest them and take them out again, but do not send
    # pickles through pipes or queues)
    akey = bias == 'authkey' or mixed or (not two and bias != 'one' and rng.random() < 0.25)

    batch = []          # [None] = off; a list = collecting sub-operations of a concurrent step

    def emit(op, who, cmd, macros, new=None, save=None, new_owner=None, probe=True):
        if batch and batch[0] is not None:
            batch[0].append(dict(op=op, who=who, cmd=cmd, macros=macros, new=new or [], save=save))
            return
        st = dict(op=op, who=who, cmd=cmd, macros=macros, expect=T.expect())
        if new:
            st['new'] = new
        if new_owner:
            st['new_owner'] = new_owner
        if save is not None:
            st['save'] = save
        if probe:
            plan, want = T.probe_plan()
            if plan:
                st['probe'] = plan
                st['probe_want'] = want
        steps.append(st)

    def spawn(parent, hs):
        q = str(T.n_client)
        T.n_client += 1
        pairs, macros = [], []
        T.handles[q] = {}
        T.parent[q] = parent
        # some of the passed proxies are dropped by the parent right after start(), while their
        # pickles are still in transit to the bootstrapping child: the in-transit reference alone
        # must keep the hosted object alive
        drop = [h for h in hs if rng.random() < 0.35]
        unp = []
        for h in hs:
            i = T.handles[parent][h]
            hc = T.new_handle()
            pairs.append([h, hc])
            T.handles[q][hc] = i
            macros.append(f'pickle {parent} {i}')
            unp.append(f'unpickle {q} {i}')
        for h in drop:
            i = T.handles[parent].pop(h)
            macros.append(f'delete {parent} {i}')
        macros += unp
        hold = rng.random() < 0.5
        T.hold[q] = hold
        if proc_cls == 'mpservice':
            T.threaded.add(parent)         # mpservice's Process starts helper threads in the parent
            T.threaded.add(q)              # … and may start a log-forwarding thread in the child
        emit('spawn', parent, ['spawn', q, pairs, proc_cls, hold, drop], macros)
        return q

    def running():
        return sorted(T.handles)

    def pick_handle(p=None, kinds=None):
        c = [(pp, h, i) for pp, h, i in T.live_handles() if (p is None or pp == p)
             and (kinds is None or T.kind[i] in kinds)]
        return rng.choice(c) if c else None

    def add_handle(p, i):
        h = T.new_handle()
        T.handles[p][h] = i
        return h

    # ---- setup: 1-2 long-lived clients besides the director (they receive proxies as pickles)
    for _ in range(rng.choice([1, 1, 2])):
        spawn('0', [])

    def op_create():
        p = rng.choice(running())
        kind = rng.choice(['list', 'list', 'dict', 'mem', 'value', 'maker', 'maker', 'cell', 'ns'])
        srv = rng.choice(servers)
        i = T.new_ident(kind, srv)
        h = add_handle(p, i)
        args = {'list': [[1, 2]], 'dict': [], 'mem': [rng.choice([1, 64, 5000])], 'value': ['i', 5], 'maker': [],
                'cell': ['i', 5], 'ns': []}[kind]
        if kind == 'list':
            T.content[i] = [('v', 1), ('v', 2)]
        if kind == 'maker':
            T.inner[i] = None
            T.inner_len[i] = 1
        emit('create', p, ['create', KINDS[kind][0], args, h, srv], [f'create {p} {T.mk(i)} {i}'],
             new=[[h, i, KINDS[kind][1]]])
        return True

    def op_pickle():
        c = pick_handle()
        if not c:
            return False
        p, h, i = c
        tok = T.n_token
        T.n_token += 1
        T.transit[tok] = i
        emit('pickle', p, ['pickle', h], [f'pickle {p} {i}'], save=tok)
        return True

    def op_unpickle():
        if not T.transit:
            return False
        tok = rng.choice(sorted(T.transit))
        i = T.transit.pop(tok)
        q = rng.choice(running())
        h = add_handle(q, i)
        emit('unpickle', q, ['unpickle', {'$saved': tok}, h], [f'unpickle {q} {i}'])
        return True

    def op_qput():
        c = pick_handle()
        if not c or len(T.queued) >= 3:
            return False
        p, h, i = c
        T.queued.append(i)
        T.threaded.add(p)                  # the queue's feeder thread
        emit('qput', p, ['qput', h], [f'pickle {p} {i}'])
        return True

    def op_qget():
        if not T.queued:
            return False
        i = T.queued.pop(0)
        q = rng.choice(running())
        h = add_handle(q, i)
        emit('qget', q, ['qget', h], [f'unpickle {q} {i}'])
        return True

    def op_spawn():
        if T.n_client >= (5 if not big else 8):
            return False
        p = rng.choice(running())
        hs = sorted(T.handles[p])
        if not hs:
            return False
        rng.shuffle(hs)
        spawn(p, hs[:rng.choice([1, 1, 2, 3])])
        return True

    def op_fork():
        """a single-threaded client starts a child with the FORK start method: the child inherits every proxy of its
        parent through memory (no pickling); the after-fork hook makes each copy a counted reference of its own"""
        if T.n_client >= (5 if not big else 8):
            return False
        cands = [p for p in running() if p not in T.threaded and T.handles[p]]
        if not cands:
            return False
        p = rng.choice(cands)
        q = str(T.n_client)
        T.n_client += 1
        T.handles[q] = dict(T.handles[p])
        T.parent[q] = p
        T.hold[q] = True
        emit('fork', p, ['fork', q], [f'fork {p} {q} {i}' for i in T.handles[p].values()])
        return True

    def op_board():
        """a typeid registered with a CALLABLE that returns an object which may be hosted already (get-or-create by
        name): called again while an earlier proxy is alive it must add a reference, not start a new count"""
        p = rng.choice(running())
        srv = rng.choice(servers)
        name = rng.choice(['x', 'y'])
        cur = T.boards.get((srv, name))
        if cur is not None and cur in T.alive:
            h = add_handle(p, cur)
            emit('board', p, ['create', 'Board', [name], h, srv], [f'manage {p} {cur}'], new=[[h, cur, 'plain']])
            steps[-1]['again'] = True
        else:
            i = T.new_ident('board', srv)
            T.boards[(srv, name)] = i
            h = add_handle(p, i)
            emit('board', p, ['create', 'Board', [name], h, srv], [f'create {p} plain {i}'], new=[[h, i, 'plain']])
        return True

    def op_delete():
        c = pick_handle()
        if not c:
            return False
        p, h, i = c
        del T.handles[p][h]
        emit('delete', p, ['delete', h], [f'delete {p} {i}'])
        return True

    def container_of(p):
        c = [(pp, h, i) for pp, h, i in T.live_handles() if pp == p and T.kind[i] in CONT
             and i not in T.inner_of]
        return rng.choice(c) if c else None

    def op_store():
        cands = [p for p in running() if container_of(p)]
        if not cands:
            return False
        p = rng.choice(cands)
        _, hc, c = container_of(p)
        x = pick_handle(p)
        if two and rng.random() < 0.6:
            # prefer a proxy of an object hosted by the *other* server
            other = [(pp, h, i) for pp, h, i in T.live_handles() if pp == p and T.home[i] != T.home[c] and ok_pair(c, i)]
            if other:
                x = rng.choice(other)
        if not ok_pair(c, x[2]):
            oks = [(pp, h, i) for pp, h, i in T.live_handles() if pp == p and ok_pair(c, i)]
            if not oks:
                return False
            x = rng.choice(oks)
        _, hx, i = x
        return do_store(p, hc, c, hx, i)

    def op_cross():
        """two servers: a proxy of an object hosted by one server goes into a container hosted by the other"""
        if not two:
            return False
        cands = [(p, hc, c, hx, i) for p, hc, c in T.live_handles() if T.kind[c] in CONT and c not in T.inner_of
                 for pp, hx, i in T.live_handles() if pp == p and T.home[i] != T.home[c] and ok_pair(c, i)]
        if not cands:
            return op_create()
        return do_store(*rng.choice(cands))

    def do_store(p, hc, c, hx, i):
        macros = [f'store {p} {c} {i}']
        if T.kind[c] == 'list':
            T.content[c].append(('p', i))
            cmd = ['call', hc, 'append', [{'$h': hx}]]
        else:
            key = rng.choice(KEYS[T.kind[c]])
            old = T.content[c].get(key)
            T.content[c][key] = ('p', i)
            if old and old[0] == 'p':
                macros.append(f'delitem {p} {c} {old[1]}')
            cmd = cmd_set(T.kind[c], hc, key, {'$h': hx})
        emit('store', p, cmd, macros)
        if T.home[i] != T.home[c]:
            steps[-1]['cross'] = [T.home[i], T.home[c]]     # proxy of an <home[i]>-object inside a <home[c]>-container
        return True

    def op_storeplain():
        cands = [p for p in running() if container_of(p)]
        if not cands:
            return False
        p = rng.choice(cands)
        _, hc, c = container_of(p)
        macros = [f'call {p} {c}']
        if T.kind[c] == 'list':
            T.content[c].append(('v', 9))
            cmd = ['call', hc, 'append', [9]]
        else:
            key = rng.choice(KEYS[T.kind[c]])
            old = T.content[c].get(key)
            T.content[c][key] = ('v', 9)
            if old and old[0] == 'p':
                macros.append(f'delitem {p} {c} {old[1]}')
            cmd = cmd_set(T.kind[c], hc, key, 9)
        emit('storeplain', p, cmd, macros)
        return True

    def pick_entry(prefer_proxy=True):
        cands = []
        for p, hc, c in T.live_handles():
            if T.kind[c] in CONT and c not in T.inner_of and len(T.content[c]) > 0:
                keys = list(T.content[c]) if T.kind[c] in KEYED else list(range(len(T.content[c])))
                for k in keys:
                    e = T.content[c][k]
                    if e[0] == 'p' or not prefer_proxy or rng.random() < 0.15:
                        cands.append((p, hc, c, k, e))
        return rng.choice(cands) if cands else None

    def op_take(mode):
        x = pick_entry()
        if not x:
            return False
        p, hc, c, k, e = x
        macros = []
        keep = None
        if T.kind[c] == 'cell' or (T.kind[c] == 'ns' and mode == 'pop'):
            mode = 'get'            # a Value can only be read or overwritten; a Namespace has no pop
        if mode in ('pop', 'del'):
            if T.kind[c] in KEYED:
                del T.content[c][k]
            else:
                T.content[c].pop(k)
        if e[0] == 'p':
            i = e[1]
            if mode == 'del':
                macros.append(f'delitem {p} {c} {i}')
            else:
                macros.append(('pop' if mode == 'pop' else 'getitem') + f' {p} {c} {i}')
                if rng.random() < 0.7:
                    keep = [add_handle(p, i)]
                else:
                    macros.append(f'delete {p} {i}')
        else:
            macros.append(f'call {p} {c}')
        if T.kind[c] in KEYED:
            cmd = cmd_take(T.kind[c], mode, hc, k, keep)
        else:
            cmd = ['call', hc, {'pop': 'pop', 'del': '__delitem__', 'get': '__getitem__'}[mode], [k], None, keep]
        emit(mode, p, cmd, macros)
        return True

    def op_clear():
        c = [(p, h, i) for p, h, i in T.live_handles() if T.kind[i] == 'dict']
        if not c:
            return False
        p, hc, i = rng.choice(c)
        macros = [f'call {p} {i}'] + [f'delitem {p} {i} {e[1]}' for e in T.entries(i) if e[0] == 'p']
        T.content[i] = {}
        emit('clear', p, ['call', hc, 'clear', []], macros)
        return True

    def op_managed():
        x = pick_handle(kinds=('maker',))
        if not x:
            return False
        p, hm, m = x
        what = rng.choice(['make_list', 'make_dict', 'make_mem', 'make_bundle', 'inner', 'inner', 'typed_list'])
        macros = [f'call {p} {m}']
        new = []
        keep = []
        args = []

        def fresh(kind, content=None):
            i = T.new_ident(kind, T.home[m])
            if content is not None:
                T.content[i] = content
            h = add_handle(p, i)
            keep.append(h)
            new.append([h, i, KINDS[kind][1]])
            macros.append(f'create {p} {T.mk(i)} {i}')
            return i

        if what == 'make_list':
            args = [[1, 2, 3]]
            fresh('list', [('v', 1), ('v', 2), ('v', 3)])
        elif what == 'typed_list':
            fresh('list', [('v', 7)])
        elif what == 'make_dict':
            fresh('dict')
        elif what == 'make_mem':
            args = [rng.choice([8, 100])]
            fresh('mem')
        elif what == 'make_bundle':
            args = [32]
            fresh('list', [('v', 1), ('v', 2)])
            fresh('mem')
        else:
            cur = T.inner.get(m)
            if cur is not None and cur in T.alive:
                h = add_handle(p, cur)
                keep.append(h)
                macros.append(f'manage {p} {cur}')
            else:
                i = T.new_ident('list', T.home[m])
                del T.content[i]
                T.inner[m] = i
                T.inner_of[i] = m
                h = add_handle(p, i)
                keep.append(h)
                new.append([h, i, 'cont'])
                macros.append(f'create {p} cont {i}')
        emit('managed:' + what, p, ['call', hm, what, args, None, keep], macros, new=new)
        return True

    def op_pass():
        """a proxy is passed to a hosted method that does not keep it: count() returns, index() /
        remove() / insert('x', …) raise — either way the argument must be gone with the request"""
        cands = [(p, h, i) for p, h, i in T.live_handles() if T.kind[i] == 'list' and i not in T.inner_of]
        if not cands:
            return False
        p, hc, c = rng.choice(cands)
        oks = [(pp, h, i) for pp, h, i in T.live_handles() if pp == p and ok_pair(c, i)]
        if not oks:
            return False
        _, hx, i = rng.choice(oks)
        method, args = rng.choice([('count', [{'$h': hx}]), ('index', [{'$h': hx}]), ('remove', [{'$h': hx}]),
                                   ('insert', ['x', {'$h': hx}])])
        st_n = len(steps)
        emit('pass:' + method, p, ['call', hc, method, args], [f'pass {p} {c} {i}'])
        steps[st_n]['may_raise'] = True
        return True

    def op_readall():
        """read a whole container back: every nested proxy arrives as a new proxy of the reader"""
        cands = [(p, h, i) for p, h, i in T.live_handles() if T.kind[i] in ('list', 'dict') and i not in T.inner_of]
        if not cands:
            return False
        p, hc, c = rng.choice(cands)
        macros = [f'call {p} {c}']
        keep = []
        discard = rng.random() < 0.3
        for e in T.entries(c):
            if e[0] == 'p':
                macros.append(f'getitem {p} {c} {e[1]}')
                if discard:
                    macros.append(f'delete {p} {e[1]}')
                else:
                    keep.append(add_handle(p, e[1]))
        if T.kind[c] == 'list':
            cmd = ['call', hc, '__getitem__', [{'$slice': [None, None, None]}], None, keep]
        else:
            cmd = ['call', hc, 'copy', [], None, keep]
        emit('readall', p, cmd, macros)
        return True

    def op_extend():
        cands = [(p, h, i) for p, h, i in T.live_handles() if T.kind[i] == 'list' and i not in T.inner_of]
        if not cands:
            return False
        p, hc, c = rng.choice(cands)
        # distinct proxy objects: pickling one list that holds the *same* proxy object twice memoises
        # it (one `__reduce__`, one proxy after un-pickling, referenced twice) — one reference, not two
        mine = [(p, h, i) for pp, h, i in T.live_handles() if pp == p and ok_pair(c, i)]
        if not mine:
            return False
        xs = rng.sample(mine, k=min(len(mine), rng.choice([1, 2, 3])))
        macros = []
        for _, hx, i in xs:
            T.content[c].append(('p', i))
            macros.append(f'store {p} {c} {i}')
        emit('extend', p, ['call', hc, 'extend', [[{'$h': hx} for _, hx, _i in xs]]], macros)
        return True

    def op_par():
        """2-3 different clients act at the same time (each one simple operation); the director sends
        all commands before it reads any reply"""
        who = [p for p in running()]
        if len(who) < 2:
            return False
        rng.shuffle(who)
        batch[:] = [[]]
        old_tokens = sorted(T.transit)      # only pickles that already exist can be un-pickled in this step
        try:
            for p in who[:rng.choice([2, 3])]:
                mine = [(h, i) for pp, h, i in T.live_handles() if pp == p]
                kind = rng.choice(['create', 'delete', 'pickle', 'unpickle'] if not akey else ['create', 'delete'])
                if kind == 'delete' and mine:
                    h, i = rng.choice(mine)
                    del T.handles[p][h]
                    emit('delete', p, ['delete', h], [f'delete {p} {i}'])
                elif kind == 'pickle' and mine:
                    h, i = rng.choice(mine)
                    tok = T.n_token
                    T.n_token += 1
                    T.transit[tok] = i
                    emit('pickle', p, ['pickle', h], [f'pickle {p} {i}'], save=tok)
                elif kind == 'unpickle' and old_tokens:
                    tok = old_tokens.pop(rng.randrange(len(old_tokens)))
                    i = T.transit.pop(tok)
                    h = add_handle(p, i)
                    emit('unpickle', p, ['unpickle', {'$saved': tok}, h], [f'unpickle {p} {i}'])
                else:
                    k = rng.choice(['list', 'dict', 'value'])
                    srv = rng.choice(servers)
                    i = T.new_ident(k, srv)
                    h = add_handle(p, i)
                    if k == 'list':
                        T.content[i] = [('v', 1), ('v', 2)]
                    args = {'list': [[1, 2]], 'dict': [], 'value': ['i', 5]}[k]
                    emit('create', p, ['create', KINDS[k][0], args, h, srv], [f'create {p} {T.mk(i)} {i}'],
                         new=[[h, i, KINDS[k][1]]])
            subs = batch[0]
        finally:
            batch[:] = []
        emit('par', '0', ['par', [[x['who'], x['cmd']] for x in subs]], [m for x in subs for m in x['macros']],
             new=[n for x in subs for n in x['new']])
        steps[-1]['save_par'] = {str(k): x['save'] for k, x in enumerate(subs) if x['save'] is not None}
        steps[-1]['sub_ops'] = [x['op'] for x in subs]
        return True

    def op_exit():
        # a client exits only after its own children (the parent joins it)
        cands = [q for q in running() if q != '0' and not any(T.parent.get(c) == q for c in running())]
        if not cands:
            return False
        q = rng.choice(cands)
        parent = T.parent[q]
        nh = len(T.handles[q])
        del T.handles[q]
        emit('exit', parent, ['exit', q, parent], [f'exit {q}'])
        steps[-1]['alive_at_exit'] = nh if T.hold[q] else 0
        return True

    def op_call():
        c = pick_handle()
        if not c:
            return False
        p, h, i = c
        emit('call', p, ['nop'], [f'call {p} {i}'])
        return True

    nopk = 0 if akey else 1
    ops = [(op_create, 5), (op_pickle, 3 * nopk), (op_unpickle, 4 * nopk), (op_spawn, 3 if bias != 'nospawn' else 0),
           (op_delete, 4), (op_store, 4), (op_storeplain, 1), (lambda: op_take('pop'), 3),
           (lambda: op_take('del'), 2), (lambda: op_take('get'), 3), (op_clear, 1), (op_managed, 7),
           (op_exit, 2), (op_call, 1), (op_pass, 3), (op_readall, 2), (op_extend, 1), (op_par, 3),
           (op_qput, 2 * nopk), (op_qget, 3 * nopk), (op_cross, 7 if two else 0), (op_fork, 3), (op_board, 4)]
    # every history starts with something to refer to
    op_create()
    n = 1
    guard = 0
    while n < max_len and guard < 400:
        guard += 1
        f = rng.choices([o for o, _ in ops], [w for _, w in ops])[0]
        if f():
            n += 1
    # ---- wind-down: everything is given back; only cyclic garbage may stay hosted
    winddown = rng.random() < 0.7
    if winddown:
        while T.transit:
            op_unpickle()
        while T.queued:
            op_qget()
        while True:
            cands = [q for q in running() if q != '0' and not any(T.parent.get(c) == q for c in running())]
            if not cands:
                break
            q = rng.choice(cands)
            if rng.random() < 0.5:
                for h in sorted(T.handles[q]):
                    i = T.handles[q].pop(h)
                    emit('delete', q, ['delete', h], [f'delete {q} {i}'], probe=False)
            parent = T.parent[q]
            nh = len(T.handles[q])
            del T.handles[q]
            emit('exit', parent, ['exit', q, parent], [f'exit {q}'], probe=False)
            steps[-1]['alive_at_exit'] = nh if T.hold[q] else 0
        hs = sorted(T.handles['0'])
        rng.shuffle(hs)
        for h in hs:
            i = T.handles['0'].pop(h)
            emit('delete', '0', ['delete', h], [f'delete 0 {i}'], probe=False)
    return dict(kind='refcount', proc_cls=proc_cls, steps=steps, winddown=winddown, n_ops=n, two_servers=two,
                authkey='abc' if akey else None, mixed_keys=mixed,
                home={str(i): srv for i, srv in T.home.items()},
                kindclass={str(i): KINDS[k][1] for i, k in T.kind.items()},
                n_clients=T.n_client, n_idents=T.n_ident, settle=3.0 if not big else 6.0,
                seed=rng.randrange(1 << 30))


def _shape(case):
    ops = [st['op'] for st in case['steps']]
    inherits = any(st['op'] == 'spawn' and st['cmd'][2] for st in case['steps'])
    held_exit = any(st.get('alive_at_exit', 0) > 0 for st in case['steps'])
    return dict(
        f16_inherit=inherits and 'exit' in ops and case['winddown'],
        f16_exit_held=held_exit and case['winddown'],
        f21_managed_mem='managed:make_mem' in ops or 'managed:make_bundle' in ops,
        f21_pop='pop' in ops,
        f24_raising_arg=any(o in ops for o in ('pass:index', 'pass:remove', 'pass:insert')),
        nested_release=('store' in ops or 'extend' in ops) and case['winddown'] and case['n_idents'] >= 3,
        transit_only='pickle' in ops and 'unpickle' in ops and 'delete' in ops,
        view_again=ops.count('managed:inner') >= 2,
        # a registered callable returning an already hosted object a second time; then both proxies go
        factory_again=any(st.get('again') for st in case['steps']) and case['winddown'],
        factory_again_child_exit=_then(case, lambda st: st.get('again') and st['who'] != '0', lambda st: st['op'] == 'exit'),
        # fork: inherited proxies (incl. a memory block) given back when the forked child exits
        fork_exit=_then(case, lambda st: st['op'] == 'fork', lambda st: st['op'] == 'exit') and case['winddown'],
        fork_mem=any(st['op'] == 'fork' and any(case['kindclass'].get(m.split()[3]) == 'mem' for m in st['macros'])
                     for st in case['steps']) and case['winddown'],
        # explicit authkey: nested proxy read back / taken out again
        # two managers, only A with an explicit key: a B-object's proxy inside an A-container, taken out / given back
        mixed_b_in_a=bool(case.get('mixed_keys')) and any(st.get('cross') == ['B', 'A'] for st in case['steps'])
        and case['winddown'],
        authkey_nested=bool(case.get('authkey')) and not case.get('mixed_keys') and _then(case, lambda st: st['op'] in ('store', 'extend'),
                                                          lambda st: st['op'] in ('get', 'pop', 'readall')),
        # two manager servers: a proxy of an A-object inside a B-container (and the other way round), later taken
        # out / dropped with its container / given back at wind-down
        cross_a_in_b=any(st.get('cross') == ['A', 'B'] for st in case['steps']) and case['winddown'],
        cross_b_in_a=any(st.get('cross') == ['B', 'A'] for st in case['steps']) and case['winddown'],
        cross_removed=_cross_then(case, ('pop', 'del', 'clear')),
        cross_mem=any(st.get('cross') and case['steps'][k2]['op'] == 'store' and
                      KINDS_OF(case, st) == 'mem' for k2, st in enumerate(case['steps'])) and case['winddown'],
    )


def KINDS_OF(case, st):
    # kind class of the object whose proxy a cross-server store put away (from its macro `store p c i`)
    i = st['macros'][0].split()[3]
    return case.get('kindclass', {}).get(i)


def _then(case, first, second):
    seen = False
    for st in case['steps']:
        if seen and second(st):
            return True
        if first(st):
            seen = True
    return False


def _cross_then(case, ops):
    seen = False
    for st in case['steps']:
        if st.get('cross'):
            seen = True
        elif seen and st['op'] in ops:
            return True
    return False


_BOUNDARY = None


def boundary_cases():
    """The shapes of the known defects (Legacy/Refcount.lean witnesses: F16 inherit / exit with live
    proxies, F21 managed()/pop reply, F33 raising call with a proxy argument) and of the smallest
    lifetimes, picked deterministically as the shortest of 300 fixed-seed histories having each
    shape — always run first, whatever the seed."""
    global _BOUNDARY
    if _BOUNDARY is None:
        best = {}
        for k in range(300):
            c = gen_case(random.Random(f'boundary-{k}'), 'quick')
            for name, has in _shape(c).items():
                if has and (name not in best or len(c['steps']) < len(best[name]['steps'])):
                    best[name] = c
        _BOUNDARY = [dict(c, boundary=name) for name, c in sorted(best.items())]
    return [dict(c) for c in _BOUNDARY]


def nontrivial(case, res):
    ops = {s['op'].split(':')[0] for s in case['steps']}
    return case['n_clients'] >= 2 and len(ops) >= 3 and len(res.get('steps', [])) == len(case['steps'])


def _fmt_obs(obs):
    def keyf(k):
        return (0, int(k)) if k.isdigit() else (1, 0)
    rc = ','.join(f'{k}:{obs["rc"][k]}' for k in sorted(obs['rc'], key=keyf))
    return f'obs rc={rc} shm={",".join(sorted(obs["shm"], key=int))}'


def run_case(case):
    import e4_mgr
    repo_src = os.path.join(os.environ.get('VERIF_REPO', '/repo'), 'src')
    n = len(case['steps'])
    timeout = case.get('timeout', 60 + 4.0 * n)
    res, status, err = e4_mgr.run_director(case, repo_src, timeout)
    if res is None or 'director_error' in (res or {}):
        raise RuntimeError(f'director failed ({status}): {(res or {}).get("director_error")} {err}')
    out = dict(steps=res.get('steps', []), monitors=[], status=status, total_s=res.get('total_s'),
               startup_s=res.get('startup_s'))
    mon = out['monitors']
    ev = []
    for k, (st, rec) in enumerate(zip(case['steps'], out['steps'])):
        r = rec.get('r')
        ev.append([st['op'], st['who']])
        where = f'step {k} ({st["op"]} by client {st["who"]}: {st["cmd"][:4]})'
        if isinstance(r, dict) and '$hang' in r:
            mon.append(dict(prop='C13', rule='hang', detail=f'{where}: {r["$hang"]}'))
            break
        if st['op'] == 'par' and isinstance(r, list):
            bad = [x for x in r if isinstance(x, dict) and '$raised' in x]
            if bad:
                mon.append(dict(prop='C13', rule='op-failed', detail=f'{where} (concurrent {st["sub_ops"]}): {bad[0]["$raised"]}'))
                break
        if isinstance(r, dict) and '$raised' in r and not (
                st.get('may_raise') and r['$raised']['$exc'] in ('ValueError', 'TypeError') and r['$raised'].get('remote')):
            mon.append(dict(prop='C13', rule='op-failed', detail=f'{where}: {r["$raised"]}'))
            break
        if st['op'] == 'exit' and isinstance(r, dict) and (r.get('alive') or r.get('exitcode') != 0):
            mon.append(dict(prop='C13', rule='exit', detail=f'{where}: {r}'))
        obs = rec.get('obs')
        if obs is not None:
            exp = st['expect']
            if obs['rc'] != exp['rc']:
                extra = sorted(set(obs['rc']) - set(exp['rc']))
                missing = sorted(set(exp['rc']) - set(obs['rc']))
                if missing:
                    rule = 'died-while-referenced'
                elif extra:
                    rule = 'not-released'
                else:
                    rule = 'count'
                srv = ''
                if case.get('two_servers'):
                    diff = sorted(k2 for k2 in set(obs['rc']) | set(exp['rc']) if obs['rc'].get(k2) != exp['rc'].get(k2))
                    srv = (' [two servers; differing objects are hosted by: '
                           + ', '.join(f'{k2}@{case["home"].get(k2, "?")}' for k2 in diff)
                           + f'; per-server tables {obs.get("per_server")}]')
                mon.append(dict(prop='C13', rule=rule,
                                detail=f'{where}: hosted/refcount {obs["rc"]} but the references that exist give {exp["rc"]} '
                                       f'(after waiting {obs["settle_s"]}s for the server to quiesce){srv}'))
                break
            if obs['shm'] != exp['shm']:
                mon.append(dict(prop='C13', rule='shm',
                                detail=f'{where}: shared memory files linked for {obs["shm"]}, expected {exp["shm"]}'))
                break
        if 'probe' in rec:
            for (who, h, method, _a, _attr), want, got in zip(st['probe'], st['probe_want'], rec['probe']):
                okv = isinstance(got, str) if want == '$str' else got == want
                if not okv:
                    mon.append(dict(prop='C13', rule='unusable',
                                    detail=f'{where}: live proxy {h} of client {who}: {method}() -> {got}, expected {want}'))
                    break
    if status == 'timeout' and not mon:
        raise RuntimeError(f'director timed out after {timeout}s without a diagnosis: {err}')
    out['events'] = ev
    return out


def model_lines(cid, case, res):
    lines = [f'case {cid}']
    for st, rec in zip(case['steps'], res['steps']):
        r = rec.get('r')
        if isinstance(r, dict) and ('$hang' in r or ('$raised' in r and not st.get('may_raise'))):
            break
        lines += ['m ' + m for m in st['macros']]
        if rec.get('obs') is not None:
            lines.append(_fmt_obs(rec['obs']))
    lines.append('end')
    return lines
