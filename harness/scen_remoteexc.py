"""
Scenario: an exception travels through `pickle.loads(pickle.dumps(RemoteException(e)))` hops.

Serves C15 (engine E3: sequential differential against `drv remoteexc`; no scheduler).  One run =
one case dict (JSON-able) -> result dict with
  * `origin`  : the exception object graph at the origin, read off the REAL objects and written in
                the tree syntax of the Lean driver (classes / argument tuples / values interned to
                naturals, every atomic text interned to ONE token);
  * `hops`    : per hop the driver line (process prefix token, own-text token of a re-raise, `tb`
                argument) and what the real code produced: the observed object graph with every
                text replaced by its sha1, or `none` when the constructor raised `ValueError`;
  * `pieces`  : token -> sha1/len of the string it stands for is not enough to re-build composite
                texts, so the strings of the atomic pieces themselves are returned (a few per case);
  * `monitors`: the property statement evaluated directly on the real objects of this run.

Text mapping (what ties the model's abstract tokens to real traceback strings).  The model
computes texts as concatenations of atomic pieces.  The harness chooses the pieces from the real
run: tokens 0,1,2 are the constants `"<module>.RemoteTraceback: "`, `"\\n"`,
`traceback._cause_message`; every other token is one whole string observed on the real objects
*before* the code under test touches them: the own part of a live traceback
(`format_exception(..., chain=False)`), what the cause/context chain prints before it
(`format_exception(...)` minus the own part; checked to be a prefix split), the text held by a
`RemoteException`/`RemoteTraceback` found at the origin, a process prefix `"[name] "`, an explicit
`tb` string.  The model's predicted text (a token list) is expanded by concatenating the pieces and
must be EQUAL to the real `get_remote_traceback` string (compared by sha1).  Expansion is a monoid
homomorphism, so the theorems' `=` / `<:+:` on token lists are `==` / `in` on the real strings.
"""
import hashlib
import multiprocessing
import pickle
import random
import traceback

from mpservice.multiprocessing.remote_exception import (
    EnsembleError,
    RemoteException,
    RemoteTraceback,
    get_remote_traceback,
    is_remote_exception,
)

MODEL = 'remoteexc'
CRASH_PROPS = ['C15']   # an exception escaping from mpservice code while a case is driven is reported for these


# ----------------------------------------------------------------------------------------------
# exception classes (module level: pickle finds them by name)
# ----------------------------------------------------------------------------------------------

class CPlain(Exception):
    pass


class CBase(BaseException):
    pass


class CInitSuper(Exception):
    def __init__(self, a, b=2):
        super().__init__(a, b)
        self.a = a
        self.b = b


class CInitStar(Exception):
    def __init__(self, *args):
        super().__init__(*args)
        self.n = len(args)


class CNoSuperCall(Exception):
    def __init__(self, a):        # BaseException.__new__ has already stored args
        self.a = a


class CWithState(Exception):
    def __init__(self, *args):
        super().__init__(*args)
        self.extra = {'k': list(args)}


class CReduce(Exception):
    def __init__(self, code, msg):
        super().__init__(f'{code}:{msg}')
        self.code = code
        self.msg = msg

    def __reduce__(self):
        return (CReduce, (self.code, self.msg))


class CReduceState(Exception):
    def __init__(self, code):
        super().__init__(code)
        self.code = code
        self.tag = None

    def __reduce__(self):
        return (CReduceState, (self.code,), {'tag': self.tag})


class CStrMulti(Exception):
    def __str__(self):
        return 'first line\nsecond line: ' + repr(self.args) + '\n  third'


class COSError(OSError):
    pass


class CSub(CInitSuper):
    def __init__(self, a):
        super().__init__(a, 'sub')

    def __reduce__(self):
        return (CSub, (self.a,))


class CArgMismatch(Exception):     # NOT picklable: unpickling calls cls(a) -> TypeError
    def __init__(self, a, b):
        super().__init__(a)
        self.b = b


class CKwOnly(Exception):          # NOT picklable
    def __init__(self, *, code):
        super().__init__(code)


class CChangesArgs(Exception):     # "picklable" but does not keep its args: excluded by the predicate
    def __init__(self, *args):
        super().__init__(*args, 'again')


def _gen_classes():
    """generated classes: every base x {plain, __init__ calling super().__init__(*args),
    __init__ + attribute state, custom __reduce__}"""
    out = []
    bases = [Exception, ValueError, KeyError, RuntimeError, LookupError, BaseException, CPlain]
    for i, base in enumerate(bases):
        for style in ('plain', 'init', 'state', 'reduce'):
            name = f'G{i}_{style}'
            ns = {'__module__': __name__, '__qualname__': name}
            if style == 'init':
                def __init__(self, *args, _b=base):
                    _b.__init__(self, *args)
                ns['__init__'] = __init__
            elif style == 'state':
                def __init__(self, *args, _b=base):
                    _b.__init__(self, *args)
                    self.count = len(args)
                    self.first = args[0] if args else None
                ns['__init__'] = __init__
            elif style == 'reduce':
                def __reduce__(self):
                    return (type(self), tuple(self.args))
                ns['__reduce__'] = __reduce__
            cls = type(name, (base,), ns)
            globals()[name] = cls
            out.append(cls)
    return out


GEN_CLASSES = _gen_classes()

ATOMS = [0, 1, -7, 38, 'x', 'boom', 'multi\nline\nmessage', 'unicodé 漢字', '', b'by\x00tes', None,
         (1, 't'), 'Traceback (most recent call last):', 'a' * 300, "quote ' and \" and \\ back"]
VALS = [None, 0, 38, 'result', [1, 2], {'k': 1}, (3, 'x'), b'b']


def _args(rng, lo=0, hi=3):
    return tuple(rng.choice(ATOMS) for _ in range(rng.randint(lo, hi)))


def _mk_group(rng):
    subs = []
    for _ in range(rng.randint(1, 2)):
        s = rng.choice([ValueError, KeyError, CPlain])(*_args(rng, 0, 2))
        if rng.random() < 0.5:
            s = raise_and_catch(s, rng.randint(1, 2))
        subs.append(s)
    return ExceptionGroup(rng.choice(['grp', 'two\nlines']), subs)


MAKERS = [
    ('ValueError', lambda r: ValueError(*_args(r))),
    ('KeyError', lambda r: KeyError(*_args(r, 1, 1))),
    ('TypeError', lambda r: TypeError(*_args(r, 0, 2))),
    ('RuntimeError', lambda r: RuntimeError(*_args(r, 0, 1))),
    ('OSError2', lambda r: OSError(r.choice([2, 13, 17, 999]), 'os message')),
    ('OSError3', lambda r: OSError(r.choice([2, 13, 999]), 'os message', 'some/file')),
    ('UnicodeDecodeError', lambda r: UnicodeDecodeError('utf8', b'ab', 0, 1, 'bad byte')),
    ('StopIteration', lambda r: StopIteration(*_args(r, 0, 1))),
    ('SystemExit', lambda r: SystemExit(r.choice([0, 3, 'bye']))),
    ('KeyboardInterrupt', lambda r: KeyboardInterrupt()),
    ('AssertionError', lambda r: AssertionError(*_args(r, 0, 1))),
    ('ZeroDivisionError', lambda r: ZeroDivisionError('division by zero')),
    ('ExceptionGroup', _mk_group),
    ('CPlain', lambda r: CPlain(*_args(r))),
    ('CBase', lambda r: CBase(*_args(r))),
    ('CInitSuper', lambda r: CInitSuper(r.choice(ATOMS)) if r.random() < 0.5 else CInitSuper(r.choice(ATOMS), b=r.choice(ATOMS))),
    ('CInitStar', lambda r: CInitStar(*_args(r))),
    ('CNoSuperCall', lambda r: CNoSuperCall(r.choice(ATOMS))),
    ('CWithState', lambda r: CWithState(*_args(r))),
    ('CReduce', lambda r: CReduce(r.choice([3, 404]), r.choice(['m', 'two\nlines']))),
    ('CReduceState', lambda r: CReduceState(r.choice(ATOMS))),
    ('CStrMulti', lambda r: CStrMulti(*_args(r))),
    ('COSError', lambda r: COSError(r.choice([2, 5]), 'custom os')),
    ('CSub', lambda r: CSub(r.choice(ATOMS))),
    ('WithNote', lambda r: _with_note(ValueError(*_args(r)), r)),
    # not picklable / not args-preserving on their own: the generator predicate must exclude them
    ('CArgMismatch', lambda r: CArgMismatch(1, 2)),
    ('CKwOnly', lambda r: CKwOnly(code=5)),
    ('CChangesArgs', lambda r: CChangesArgs(1)),
    ('LambdaArg', lambda r: ValueError(lambda: 0)),
] + [(c.__name__, (lambda r, _c=c: _c(*_args(r, 1 if issubclass(_c, KeyError) else 0, 1 if issubclass(_c, KeyError) else 3))))
     for c in GEN_CLASSES]
N_CLASSES = len(MAKERS)
UNPICKLABLE = {'CArgMismatch', 'CKwOnly', 'CChangesArgs', 'LambdaArg'}
PICKLABLE_IDX = [i for i, (n, _) in enumerate(MAKERS) if n not in UNPICKLABLE]
UNPICKLABLE_IDX = [i for i, (n, _) in enumerate(MAKERS) if n in UNPICKLABLE]


def _with_note(e, r):
    e.add_note(r.choice(['a note', 'note\nwith two lines']))
    return e


def picklable(e):
    """the explicit generator predicate: the exception round-trips through plain pickle on its own,
    keeping class and arguments"""
    try:
        x = pickle.loads(pickle.dumps(e))
    except Exception:
        return False
    return type(x) is type(e) and repr(x.args) == repr(e.args)


# ----------------------------------------------------------------------------------------------
# raising with a traceback of a chosen depth
# ----------------------------------------------------------------------------------------------

def _lvl_a(exc, depth, cause):
    if depth <= 1:
        if cause is not None:
            raise exc from cause
        raise exc
    _lvl_b(exc, depth - 1, cause)


def _lvl_b(exc, depth, cause):
    if depth <= 1:
        if cause is not None:
            raise exc from cause
        raise exc
    _lvl_a(exc, depth - 1, cause)


def raise_and_catch(exc, depth, cause=None, context=None):
    """raise `exc` `depth` frames deep (optionally `from cause`, or while handling `context`) and
    catch it: the object now carries a traceback"""
    try:
        if context is not None:
            try:
                raise context
            except BaseException:
                _lvl_a(exc, depth, None)
        else:
            _lvl_a(exc, depth, cause)
    except BaseException as e:  # noqa
        return e
    raise AssertionError('unreachable')


def fresh_tb(depth):
    return raise_and_catch(RuntimeError('carrier'), depth).__traceback__


def fmt_full(e, tb='__own__'):
    tb = e.__traceback__ if tb == '__own__' else tb
    return ''.join(traceback.format_exception(type(e), e, tb))


def fmt_own(e, tb='__own__'):
    tb = e.__traceback__ if tb == '__own__' else tb
    return ''.join(traceback.format_exception(type(e), e, tb, chain=False))


# ----------------------------------------------------------------------------------------------
# case generation
# ----------------------------------------------------------------------------------------------

def _gen_leaf(rng, state=None, p_unpick=0.03):
    cls = rng.choice(UNPICKLABLE_IDX) if rng.random() < p_unpick else rng.choice(PICKLABLE_IDX)
    chain = rng.choice(['none'] * 5 + ['cause', 'cause', 'context', 'cause2'])
    return dict(cls=cls, argseed=rng.randrange(1 << 20), depth=rng.randint(1, 6), chain=chain,
                chain_depth=rng.randint(1, 3), state=state or 'live')


def _gen_tree(rng, nest, top=True, p_bad=0.04, p_share=0.12):
    """nest = remaining EnsembleError nesting depth"""
    state = 'live' if top else rng.choice(['live', 'live', 'live', 'recv'])
    if top and rng.random() < 0.08:
        state = rng.choice(['recv', 'dead'])
    if nest > 0:
        entries = []
        for _ in range(rng.choice([0, 1, 2, 2, 3, 4])):
            t = rng.choice(['val', 'rem', 'rem', 'rem', 'exc'])
            if t == 'val':
                entries.append(dict(t='val', v=rng.randrange(len(VALS))))
                continue
            earlier = [j for j, en in enumerate(entries) if en['t'] in ('rem', 'exc') and 'share' not in en
                       and en['e']['state'] != 'dead']
            if earlier and rng.random() < p_share:
                # the SAME exception object once more: raised again elsewhere and wrapped again (a second
                # RemoteException with a different text around one object), or the bare object twice, or
                # (same=True) the very same RemoteException instance in two slots
                entries.append(dict(t=t, share=rng.choice(earlier), depth=rng.randint(1, 4), same=rng.random() < 0.25))
                continue
            if rng.random() < p_share / 3:
                # an exception object built anywhere earlier in this case (another nesting level)
                entries.append(dict(t=t, xshare=rng.randrange(1 << 16), depth=rng.randint(1, 4), e=_gen_leaf(rng, 'live', 0)))
                continue
            sub = _gen_tree(rng, nest - 1 if rng.random() < 0.45 else 0, top=False, p_bad=p_bad, p_share=p_share)
            if t == 'exc' and rng.random() < p_bad * 3:
                sub['state'] = 'dead'       # a nested exception object without any traceback: ValueError expected
            entries.append(dict(t=t, e=sub))
        return dict(ens=entries, n=rng.randint(0, max(1, len(entries))), depth=rng.randint(1, 4),
                    chain=rng.choice(['none', 'none', 'cause']), chain_depth=1, state=state, argseed=0, cls=-1,
                    sub=rng.random() < 0.15)
    leaf = _gen_leaf(rng, state)
    return leaf


def gen_case(rng: random.Random, tier: str, bias: str = ''):
    big = tier == 'thorough'
    kind = bias or rng.choice(['leaf', 'leaf', 'leaf', 'ens', 'ens', 'boundary'])
    nest = 0
    if kind == 'ens':
        nest = rng.choice([1, 1, 2])
    tree = _gen_tree(rng, nest)
    nh = rng.randint(1, 8 if big else 5)
    pat = rng.choice(['mixed', 'mixed', 'forward', 'reraise'])
    hops = []
    for k in range(nh):
        rr = {'mixed': rng.random() < 0.45, 'forward': False, 'reraise': True}[pat]
        arg = 'd'
        if rng.random() < 0.06:
            arg = rng.choice(['s', 't'])
        hops.append(dict(proc=rng.choice(['MainProcess', f'SpawnProcess-{rng.randint(1, 9)}', 'w ] [ x', 'Thread-é', '']),
                         rr=rng.randint(1, 6) if rr and (k > 0 or rng.random() < 0.2) else 0, arg=arg,
                         tbdepth=rng.randint(1, 4), ctx=rng.random() < 0.3))
    if kind == 'boundary':
        b = rng.choice(['one-hop', 'dead-top', 'recv-top', 'empty-ens', 'vals-only', 'unpicklable', 'deep', 'all-explicit',
                        'dead-nested'])
        if b == 'one-hop':
            hops = hops[:1]
        elif b == 'dead-top':
            tree['state'] = 'dead'
        elif b == 'recv-top':
            tree['state'] = 'recv'
        elif b == 'empty-ens':
            tree = dict(ens=[], n=0, depth=1, chain='none', chain_depth=1, state='live', argseed=0, cls=-1)
        elif b == 'vals-only':
            tree = dict(ens=[dict(t='val', v=i % len(VALS)) for i in range(rng.randint(1, 4))], n=1, depth=2,
                        chain='none', chain_depth=1, state='live', argseed=0, cls=-1)
        elif b == 'unpicklable':
            tree = _gen_leaf(rng, 'live', p_unpick=1.0)
        elif b == 'deep':
            tree = _gen_leaf(rng, 'live', 0)
            tree['depth'] = rng.choice([12, 30])
        elif b == 'all-explicit':
            for h in hops:
                h['arg'] = rng.choice(['s', 't'])
        elif b == 'dead-nested':
            tree = dict(ens=[dict(t='rem', e=_gen_leaf(rng, 'live', 0)), dict(t='exc', e=_gen_leaf(rng, 'dead', 0))],
                        n=2, depth=1, chain='none', chain_depth=1, state='live', argseed=0, cls=-1)
    return dict(kind=kind, tree=tree, hops=hops, seed=rng.randrange(1 << 30))


def systematic_cases(tier: str):
    """seed-independent stream: EVERY class of the library x chain kind x forward/re-raise pattern
    (quick: patterns of 1-2 hops after the first, chains none/cause; thorough: all chains, up to 4 hops),
    plus every class once as RemoteException member, bare member and shared member of an EnsembleError"""
    import itertools
    big = tier == 'thorough'
    chains = ['none', 'cause', 'cause2', 'context'] if big else ['none', 'cause']
    pats = [''.join(p) for k in range(0, 4 if big else 3) for p in itertools.product('fr', repeat=k)]
    out = []
    for cls in range(N_CLASSES):
        for ci, chain in enumerate(chains):
            for pi, pat in enumerate(pats):
                leaf = dict(cls=cls, argseed=1000 * cls + 10 * pi + ci, depth=1 + (cls + pi) % 6, chain=chain,
                            chain_depth=1 + pi % 3, state='live')
                hops = [dict(proc=f'SpawnProcess-{k + 1}', rr=(1 + (k + cls) % 4 if c == 'r' else 0), arg='d', tbdepth=1)
                        for k, c in enumerate('f' + pat)]
                out.append(dict(kind='systematic', tree=leaf, hops=hops, seed=0))
        if cls in UNPICKLABLE_IDX:
            continue
        leaf = dict(cls=cls, argseed=cls, depth=2, chain='none', chain_depth=1, state='live')
        ens = dict(ens=[dict(t='rem', e=dict(leaf)), dict(t='exc', e=dict(leaf, state='recv')), dict(t='val', v=cls % len(VALS)),
                        dict(t='rem', share=0, depth=3), dict(t='exc', e=dict(leaf, depth=4, chain='cause'))],
                   n=3, depth=1, chain='none', chain_depth=1, state='live', argseed=0, cls=-1, sub=cls % 5 == 0)
        out.append(dict(kind='systematic', tree=ens, seed=0,
                        hops=[dict(proc=f'P{k}', rr=(2 if c == 'r' else 0), arg='d', tbdepth=1) for k, c in enumerate('ffrf')]))
    return out


def gen_xproc_case(rng: random.Random, tier: str):
    """a case whose hops go through a real child process (pairs of hops, default tb argument,
    real process names)"""
    c = gen_case(rng, tier, rng.choice(['leaf', 'ens']))
    tree = c['tree']
    tree['state'] = 'live'
    nh = rng.choice([2, 2, 4, 6 if tier == 'thorough' else 4])
    hops = []
    for k in range(nh):
        hops.append(dict(proc='(real)', rr=rng.randint(1, 4) if (k > 0 and rng.random() < 0.5) else 0, arg='d', tbdepth=1))
    return dict(kind='xproc', tree=tree, hops=hops, seed=c['seed'], xproc=True,
                child_name=rng.choice(['SpawnProcess-7', 'Relay-1', 'worker ] x']))


def _count(tree):
    """(number of exception nodes, max ensemble depth)"""
    if tree.get('ens') is None:
        return 1, 0
    n, d = 1, 1
    for ent in tree['ens']:
        if ent['t'] != 'val':
            a, b = _count(ent['e']) if 'e' in ent else (1, 0)
            n += a
            d = max(d, 1 + b)
    return n, d


def nontrivial(case, res):
    """at least one hop really happened on a picklable exception, and the case has either >= 2 hops
    or a nested exception"""
    if res.get('skipped') or not res.get('hops'):
        return False
    done = sum(1 for h in res['hops'] if h['obs'] not in ('none', 'error'))
    return done >= 1 and (done >= 2 or _count(case['tree'])[0] >= 2)


# ----------------------------------------------------------------------------------------------
# running a case on the real code
# ----------------------------------------------------------------------------------------------

class _Tables:
    def __init__(self):
        self.pieces = []          # token -> string
        self._tok = {}
        self.names = []           # interned class names / argument reprs / value reprs
        self._nid = {}
        for const in (f'{RemoteTraceback.__module__}.{RemoteTraceback.__qualname__}: ', '\n',
                      traceback._cause_message):
            self.tok(const, force_new=True)

    def tok(self, s, force_new=False):
        if not force_new and s in self._tok:
            return self._tok[s]
        self.pieces.append(s)
        self._tok.setdefault(s, len(self.pieces) - 1)
        return len(self.pieces) - 1

    def nid(self, s, create=True):
        if s in self._nid:
            return self._nid[s]
        if not create:
            return 999999            # something the origin never had
        self._nid[s] = len(self.names)
        self.names.append(s)
        return self._nid[s]


def _sha(s):
    return hashlib.sha1(s.encode('utf-8', 'surrogatepass')).hexdigest()[:16]


def _cls_name(e):
    return f'{type(e).__module__}.{type(e).__qualname__}'


def _args_key(e):
    if isinstance(e, EnsembleError):
        r = e.args[1]
        return f'ENS n={r["n"]!r} len={len(r["y"])}'
    return repr(e.args)


def _entries(e):
    return e.args[1]['y'] if isinstance(e, EnsembleError) else []


class HarnessError(Exception):
    pass


class _Unpicklable(Exception):
    pass


class SubEnsembleError(EnsembleError):      # a user subclass takes the same paths (isinstance tests, __reduce__)
    pass


def _split_chain(e, tb='__own__'):
    full, own = fmt_full(e, tb), fmt_own(e, tb)
    if not full.endswith(own):
        raise HarnessError('format_exception is not chain ++ own')
    return full[:len(full) - len(own)], own


def describe(e, T):
    """the real object graph in the driver's tree syntax (origin side: creates tokens/ids)"""
    live = '-'
    pre = ''
    if e.__traceback__ is not None:
        pre, own = _split_chain(e)
        live = str(T.tok(own))
    if isinstance(e.__cause__, RemoteTraceback):
        cause = f'k:r:{T.tok(e.__cause__.tb)}'
    elif pre:
        cause = f'k:o:{T.tok(pre)}'
    else:
        cause = 'k:n'
    s = f'E {T.nid(_cls_name(e))} a:{T.nid(_args_key(e))} l:{live} {cause}'
    for v in _entries(e):
        if isinstance(v, RemoteException):
            s += f' W w:{T.tok(v.tb)} ' + describe(v.exc, T)
        elif isinstance(v, BaseException):
            s += ' X ' + describe(v, T)
        else:
            s += f' V {T.nid("val:" + repr(v))}'
    return s + ' .'


def observe(e, T):
    """an observed exception object graph: nested lists with every text replaced by its sha1"""
    live, pre = '-', ''
    if e.__traceback__ is not None:
        pre, own = _split_chain(e)
        live = _sha(own)
    if isinstance(e.__cause__, RemoteTraceback):
        cause = ['r', _sha(e.__cause__.tb)]
    elif pre:
        cause = ['o', _sha(pre)]
    else:
        cause = ['n']
    ents = []
    for v in _entries(e):
        if isinstance(v, RemoteException):
            ents.append(['W', _sha(v.tb), observe(v.exc, T)])
        elif isinstance(v, BaseException):
            ents.append(['X', observe(v, T)])
        else:
            ents.append(['V', T.nid('val:' + repr(v), create=False)])
    return ['E', T.nid(_cls_name(e), create=False), T.nid(_args_key(e), create=False), live, cause, ents]


def py_ok(e):
    """the real object graph 'carries tracebacks' (the hypothesis of the property)"""
    if e.__traceback__ is None and not is_remote_exception(e):
        return False
    return all(py_ok(v) for v in _entries(e) if isinstance(v, BaseException))


def snapshot(e, prefix):
    """what must be preserved, taken from the real objects before the first wrap"""
    if e.__traceback__ is not None:
        text = fmt_full(e)
        exact = None
    else:
        text = get_remote_traceback(e) if is_remote_exception(e) else None
        exact = text
    ents = []
    for v in _entries(e):
        if isinstance(v, RemoteException):
            s = snapshot_sent(v.exc, v.tb)
        elif isinstance(v, BaseException):
            s = snapshot(v, prefix)
        else:
            s = dict(val=repr(v))
        ents.append(s)
    return dict(cls=type(e), args=_args_key(e), contain=text, exact=exact, ents=ents,
                msg=_norm_msg(e) if isinstance(e, EnsembleError) else None)


def snapshot_sent(e, tb):
    ents = []
    for v in _entries(e):
        if isinstance(v, RemoteException):
            ents.append(snapshot_sent(v.exc, v.tb))
        elif isinstance(v, BaseException):
            ents.append(dict(cls=type(v), args=_args_key(v), contain=None, exact=None, ents=[], msg=None, unknown=True))
        else:
            ents.append(dict(val=repr(v)))
    return dict(cls=type(e), args=_args_key(e), contain=tb, exact=tb, ents=ents,
                msg=_norm_msg(e) if isinstance(e, EnsembleError) else None)


def _norm_msg(e):
    """EnsembleError's message with the `RemoteException(...)` wrapper of the first error removed
    (the message is recomputed on unpickling from the unwrapped objects; see notes/C15.md)"""
    m = e.args[0]
    key = 'first error: RemoteException('
    while True:
        i = m.find(key)
        if i < 0 or not m.endswith(')'):
            return m
        m = m[:i] + 'first error: ' + m[i + len(key):-1]


def compare(snap, y, path, out, first_texts, top):
    """property statement on one exception of the result (recursively over nested ones)"""
    where = '/'.join(map(str, path)) or 'top'
    if 'val' in snap:
        if isinstance(y, (BaseException, RemoteException)) or repr(y) != snap['val']:
            out.append(('nested-value', f'{where}: {snap["val"]} became {y!r}'))
        return
    if not isinstance(y, BaseException):
        out.append(('nested-lost', f'{where}: expected an exception of {snap["cls"].__name__}, got {type(y).__name__}'))
        return
    if type(y) is not snap['cls']:
        out.append(('class', f'{where}: {snap["cls"].__name__} became {type(y).__name__}'))
    if _args_key(y) != snap['args']:
        out.append(('args', f'{where}: args {snap["args"][:200]} became {_args_key(y)[:200]}'))
    if snap.get('msg') is not None and isinstance(y, EnsembleError) and _norm_msg(y) != snap['msg']:
        out.append(('args', f'{where}: message {snap["msg"][:200]!r} became {_norm_msg(y)[:200]!r}'))
    if not is_remote_exception(y):
        out.append(('not-remote', f'{where}: is_remote_exception is false'))
        return
    t = get_remote_traceback(y)
    if not isinstance(t, str):
        out.append(('not-remote', f'{where}: get_remote_traceback returned {type(t).__name__}'))
        return
    if not top:
        if snap['exact'] is not None and t != snap['exact']:
            out.append(('nested-text', f'{where}: remote text differs from the text wrapped at the origin'))
        elif snap['contain'] is not None and snap['contain'] not in t:
            out.append(('nested-text', f'{where}: remote text lost the originally formatted traceback'))
        # nested exceptions are only ever forwarded: identical from the first hop on
        key = tuple(path)
        if key in first_texts and first_texts[key] != t:
            out.append(('nested-text', f'{where}: remote text changed although the exception was only forwarded'))
        first_texts.setdefault(key, t)
    ys = _entries(y)
    if snap.get('unknown'):
        return
    if len(ys) != len(snap['ents']):
        out.append(('nested-lost', f'{where}: {len(snap["ents"])} results became {len(ys)}'))
        return
    for i, (s, v) in enumerate(zip(snap['ents'], ys)):
        compare(s, v, path + [i], out, first_texts, False)


def _nested_texts(e, path):
    out = []
    for i, v in enumerate(_entries(e)):
        if isinstance(v, BaseException):
            out.append(('/'.join(map(str, path + [i])) + f' {type(v).__name__}{v.args!r}'[:80],
                        get_remote_traceback(v) if is_remote_exception(v) else '(not remote)'))
            out += _nested_texts(v, path + [i])
    return out


def build(spec, info):
    if spec.get('ens') is not None:
        entries = []
        objs = []
        for ent in spec['ens']:
            if ent['t'] == 'val':
                entries.append(VALS[ent['v']])
                objs.append(None)
                continue
            if 'share' in ent:
                m = objs[ent['share']]
                info['shared'] = info.get('shared', 0) + 1
                if ent['t'] == 'rem' and ent.get('same') and isinstance(entries[ent['share']], RemoteException):
                    objs.append(m)
                    entries.append(entries[ent['share']])     # one RemoteException instance in two slots
                    continue
                if ent['t'] == 'rem':
                    m = raise_and_catch(m, ent['depth'])      # same object, raised again at another site
            elif 'xshare' in ent and info['objs']:
                m = info['objs'][ent['xshare'] % len(info['objs'])]
                info['shared'] = info.get('shared', 0) + 1
                if ent['t'] == 'rem':
                    m = raise_and_catch(m, ent['depth'])
            else:
                m = build(ent['e'], info)
            objs.append(m)
            if ent['t'] == 'rem':
                multiprocessing.current_process().name = 'Member'
                try:
                    entries.append(RemoteException(m))
                except ValueError:
                    entries.append(m)      # a nested exception without traceback deeper down: keep the bare object
            else:
                entries.append(m)
        ecls = SubEnsembleError if spec.get('sub') else EnsembleError
        exc = ecls({'y': entries, 'n': spec['n']})
        info['classes'][ecls.__name__] = info['classes'].get(ecls.__name__, 0) + 1
    else:
        name, maker = MAKERS[spec['cls']]
        exc = maker(random.Random(spec['argseed']))
        info['classes'][name] = info['classes'].get(name, 0) + 1
        if not picklable(exc):
            info['unpicklable'].append(name)
            raise _Unpicklable(name)
    st = spec['state']
    if st == 'dead':
        return exc
    cause = context = None
    ch = spec.get('chain', 'none')
    if ch == 'cause':
        cause = raise_and_catch(RuntimeError('root cause'), spec['chain_depth'])
    elif ch == 'cause2':
        c0 = raise_and_catch(KeyError('deepest'), 1)
        cause = raise_and_catch(CPlain('middle', 2), spec['chain_depth'], cause=c0)
    elif ch == 'context':
        context = LookupError('being handled')
    exc = raise_and_catch(exc, spec['depth'], cause=cause, context=context)
    if st == 'recv':
        multiprocessing.current_process().name = 'Upstream'
        try:
            exc = pickle.loads(pickle.dumps(RemoteException(exc)))
        except ValueError:
            pass                       # a traceback-less exception nested deeper down: stays as raised
    info['objs'].append(exc)
    return exc


def run_case(case):
    T = _Tables()
    info = dict(classes={}, unpicklable=[], objs=[])
    res = dict(monitors=[], hops=[], events=[], origin=None, pieces=None, names=None, okq=None, info=info)
    saved_name = multiprocessing.current_process().name
    try:
        return _run_case(case, T, info, res)
    finally:
        info.pop('objs', None)           # live objects: not part of the result
        multiprocessing.current_process().name = saved_name


def relay_main(qin, qout):
    """body of the relay child process of a cross-process case: receives an exception (unpickled by
    the queue = one hop done), optionally raises it again, wraps it and sends it back (the queue
    pickles it = the next hop)"""
    while True:
        msg = qin.get()
        if msg is None:
            return
        y, rr = msg
        own = None
        try:
            if rr:
                y = raise_and_catch(y, rr)
                own = fmt_own(y)
            qout.put(('ok', RemoteException(y), own, multiprocessing.current_process().name))
        except BaseException as e:  # noqa
            qout.put(('err', repr(e)[:300], None, multiprocessing.current_process().name))


def _run_xproc(case, T, info, res, x):
    """hops in pairs through a REAL child process and multiprocessing queues: this process wraps and
    sends (hop 2j), the child receives, optionally re-raises, wraps and sends back (hop 2j+1).
    Only the exception that comes back is observed; the model runs both hops."""
    import queue as _q
    mon = res['monitors']
    ctx = multiprocessing.get_context('spawn')
    qin, qout = ctx.Queue(), ctx.Queue()
    child = ctx.Process(target=relay_main, args=(qin, qout), name=case.get('child_name', 'Relay-1'))
    child.start()
    try:
        snap = None
        prev_text = None
        first_texts = {}
        hops = case['hops'][:len(case['hops']) // 2 * 2]
        for j in range(0, len(hops), 2):
            h0, h1 = hops[j], hops[j + 1]
            me = multiprocessing.current_process().name
            rr0 = '-'
            if h0['rr']:
                x = raise_and_catch(x, h0['rr'])
                rr0 = str(T.tok(fmt_own(x)))
            if snap is None:
                snap = snapshot(x, '')
            hyp = py_ok(x)
            line0 = f'proc={T.tok(f"[{me}] ")} rr={rr0} arg=d'
            try:
                r = RemoteException(x)
            except ValueError as err:
                res['hops'].append(dict(line=line0, obs='none', wobs='none', err=repr(err)[:200]))
                if hyp:
                    mon.append(dict(prop='C15', rule='wrap-failed', detail=f'hop {j}: RemoteException raised {err!r} '
                                    'for an exception that carries tracebacks'))
                break
            wobs = [_sha(r.tb), observe(r.exc, T)]
            qin.put((r, h1['rr']))
            try:
                status, y, own1, cname = qout.get(timeout=60)
            except _q.Empty:
                raise HarnessError('relay child did not answer within 60 s')
            if status != 'ok':
                res['hops'].append(dict(line=line0, obs=None, wobs=wobs))
                res['hops'].append(dict(line=f'proc={T.tok(f"[{cname}] ")} rr=- arg=d', obs='error', wobs=None, err=y))
                mon.append(dict(prop='C15', rule='hop-crashed', detail=f'hop {j + 1} in the child process: {y}'))
                break
            res['hops'].append(dict(line=line0, obs=None, wobs=wobs))
            rr1 = '-' if own1 is None else str(T.tok(own1))
            res['hops'].append(dict(line=f'proc={T.tok(f"[{cname}] ")} rr={rr1} arg=d', obs=observe(y, T), wobs=None))
            hits = []
            compare(snap, y, [], hits, first_texts, True)
            if is_remote_exception(y) and isinstance(get_remote_traceback(y), str):
                t = get_remote_traceback(y)
                if snap['contain'] is not None and snap['contain'] not in t:
                    hits.append(('text-lost', 'remote text does not contain the originally formatted traceback'))
                if prev_text is not None:
                    if not h0['rr'] and not h1['rr'] and t != prev_text:
                        hits.append(('forward-changed', 'forwarded through two processes without re-raise but the remote text changed'))
                    elif prev_text not in t:
                        hits.append(('text-lost', 'remote text of the previous hop is no longer contained'))
                prev_text = t
            for rule, detail in hits:
                mon.append(dict(prop='C15', rule=rule, detail=f'hops {j},{j + 1} (via child process {cname}): {detail}'))
            x = y
            if case.get('verbose'):
                res.setdefault('texts', [snap['contain'] or ''])
                res['texts'].append(get_remote_traceback(y) if is_remote_exception(y) else '(not remote)')
                res['nested_texts'] = _nested_texts(y, [])
        qin.put(None)
        child.join(10)
    finally:
        if child.is_alive():
            child.kill()
            child.join(5)
        for q in (qin, qout):
            q.close()
            q.cancel_join_thread()
    res['pieces'] = T.pieces
    res['names'] = T.names
    res['xproc'] = True
    res['events'] = [res['origin']] + [[h['line'], h['obs']] for h in res['hops']]
    return res


def _run_case(case, T, info, res):
    mon = res['monitors']
    try:
        x = build(case['tree'], info)
    except _Unpicklable:
        # outside the property's quantifier (explicit predicate); counted, not run
        res['skipped'] = 'unpicklable: ' + ','.join(info['unpicklable'])
        return res
    res['origin'] = describe(x, T)
    res['okq'] = py_ok(x)
    # flat payload with object identities for the heap (pickle memo) model: only when every
    # exception entry at the top level is a RemoteException around a leaf exception
    ents = _entries(x)
    if ents and all(isinstance(v, RemoteException) and not _entries(v.exc) for v in ents
                    if isinstance(v, (BaseException, RemoteException))):
        oids = {}
        res['memo'] = [f'{oids.setdefault(id(v.exc), len(oids))};{T.nid(_cls_name(v.exc))};'
                       f'{T.nid(_args_key(v.exc))};{T.tok(v.tb)}' for v in ents if isinstance(v, RemoteException)]
        res['memo_shared'] = len(oids) < len(res['memo'])
    if case.get('xproc'):
        return _run_xproc(case, T, info, res, x)
    snap = None
    prev_text = None
    property_applies = True       # default-branch wrapping so far (explicit tb arguments are tie-only)
    first_texts = {}
    for k, h in enumerate(case['hops']):
        multiprocessing.current_process().name = h['proc']
        ptok = T.tok(f'[{h["proc"]}] ')
        rr = '-'
        if h['rr']:
            # a received (remote) exception may also be raised again from inside another handler:
            # __context__ is set but suppressed by the remote __cause__
            ctx = LookupError('being handled at the hop') if (h.get('ctx') and is_remote_exception(x)) else None
            x = raise_and_catch(x, h['rr'], context=ctx)
            rr = str(T.tok(fmt_own(x)))
        if h['arg'] == 's':
            text = f'explicit traceback text #{k}\n  of two lines\n'
            arg, tbarg = f's:{T.tok(text)}', text
        elif h['arg'] == 't':
            tbobj = fresh_tb(h['tbdepth'])
            arg, tbarg = f't:{T.tok(fmt_own(x, tbobj))}', tbobj
        else:
            arg, tbarg = 'd', None
        line = f'proc={ptok} rr={rr} arg={arg}'
        # hypothesis of the property at this hop: the exception (with tb=None) and all nested ones carry tracebacks
        hyp = py_ok(x) if h['arg'] == 'd' else all(py_ok(v) for v in _entries(x) if isinstance(v, BaseException))
        if snap is None:
            snap = snapshot(x, f'[{h["proc"]}] ')
        was_remote_text = get_remote_traceback(x) if is_remote_exception(x) else None
        wobs = 'none'
        try:
            r = RemoteException(x, tbarg)
            wobs = [_sha(r.tb) if isinstance(r.tb, str) else '?', observe(r.exc, T)]
            y = pickle.loads(pickle.dumps(r))
        except ValueError as err:
            res['hops'].append(dict(line=line, obs='none', wobs=wobs, err=repr(err)[:200]))
            if hyp:
                mon.append(dict(prop='C15', rule='wrap-failed', detail=f'hop {k}: RemoteException raised {err!r} '
                                'for an exception that carries tracebacks'))
            break
        except Exception as err:  # noqa
            res['hops'].append(dict(line=line, obs='error', wobs=wobs, err=repr(err)[:300]))
            mon.append(dict(prop='C15', rule='hop-crashed', detail=f'hop {k}: {type(err).__name__}: {err!r}'[:300]))
            break
        res['hops'].append(dict(line=line, obs=observe(y, T), wobs=wobs))
        if k == 0 and res.get('memo'):
            res['memo_obs'] = [_sha(get_remote_traceback(v)) if is_remote_exception(v) else '(not remote)'
                               for v in _entries(y) if isinstance(v, BaseException)]
        # ---- the property, directly on the real objects ----
        hits = []
        compare(snap, y, [], hits, first_texts, True)
        if is_remote_exception(y) and isinstance(get_remote_traceback(y), str):
            t = get_remote_traceback(y)
            if h['arg'] == 's':
                property_applies = False
                if t != tbarg:
                    hits.append(('explicit-text', f'hop {k}: explicit tb string not used verbatim'))
            elif h['arg'] == 't':
                property_applies = False
                # an explicit traceback OBJECT is the one whose frames the text has to show (that is what the
                # parameter is for): every frame line of the given traceback appears in the remote text
                want = [ln for ln in fmt_own(x, tbobj).splitlines() if ln.startswith('  File ')]
                missing = [ln for ln in want if ln not in t]
                if missing:
                    hits.append(('explicit-tb-ignored', f'hop {k}: {len(missing)} of the {len(want)} frames of the traceback object '
                                                        f'passed to RemoteException are missing from the remote text'))
            if property_applies:
                if snap['contain'] is not None and snap['contain'] not in t:
                    hits.append(('text-lost', f'hop {k}: remote text does not contain the originally formatted traceback'))
            if h['arg'] != 's' and prev_text is not None:
                if not h['rr'] and h['arg'] == 'd' and t != prev_text:
                    hits.append(('forward-changed', f'hop {k}: forwarded without re-raise but the remote text changed'))
                elif prev_text not in t:
                    hits.append(('text-lost', f'hop {k}: remote text of the previous hop is no longer contained'))
            if h['arg'] != 's' and was_remote_text is not None and was_remote_text not in t:
                hits.append(('text-lost', f'hop {k}: the remote text the exception carried is not contained'))
            prev_text = t
        for rule, detail in hits:
            mon.append(dict(prop='C15', rule=rule, detail=f'hop {k} ({"re-raised" if h["rr"] else "forwarded"}, arg={h["arg"]}): {detail}'))
        x = y
        if case.get('verbose'):
            res.setdefault('texts', [snap['contain'] or ''])
            res['texts'].append(get_remote_traceback(y) if is_remote_exception(y) else '(not remote)')
            res['nested_texts'] = _nested_texts(y, [])
    res['pieces'] = T.pieces
    res['names'] = T.names
    res['events'] = [res['origin']] + [[h['line'], h['obs']] for h in res['hops']]
    return res


# ----------------------------------------------------------------------------------------------
# the model side
# ----------------------------------------------------------------------------------------------

def model_lines(cid, case, res):
    if res.get('skipped') or res.get('crash'):
        return []
    lines = ['fmt H=0 N=1 S=2', f'case {cid} {res["origin"]}', f'okq {cid}']
    for k, h in enumerate(res['hops']):
        lines.append(f'hop {cid} {k} {h["line"]}')
    if res.get('memo_obs') is not None:
        lines.append(f'memo {cid} ' + ' '.join(res['memo']))
    return lines


def parse_tree(words, pieces):
    """driver tree -> the same nested-list shape as `observe` (texts expanded and hashed)"""
    def text(s):
        toks = [int(w) for w in s.split(',') if w != '']
        return _sha(''.join(pieces[t] for t in toks))

    pos = [0]

    def exc():
        assert words[pos[0]] == 'E', words[pos[0]:pos[0] + 3]
        c = int(words[pos[0] + 1])
        a = words[pos[0] + 2].split(':', 1)[1]
        a = int(a) if a != '' else -1
        l = words[pos[0] + 3].split(':', 1)[1]
        live = '-' if l == '-' else text(l)
        k = words[pos[0] + 4].split(':')
        cause = ['n'] if k[1] == 'n' else [k[1], text(k[2])]
        pos[0] += 5
        ents = []
        while words[pos[0]] != '.':
            w = words[pos[0]]
            pos[0] += 1
            if w == 'V':
                ents.append(['V', int(words[pos[0]])])
                pos[0] += 1
            elif w == 'X':
                ents.append(['X', exc()])
            elif w == 'W':
                t = text(words[pos[0]].split(':', 1)[1])
                pos[0] += 1
                ents.append(['W', t, exc()])
            else:
                raise ValueError('bad tree token ' + w)
        pos[0] += 1
        return ['E', c, a, live, cause, ents]

    return exc()


def compare_with_model(cid, case, res, out_lines):
    """-> None if the model's prediction equals what the real code did at every hop, else a
    description of the first difference"""
    if res.get('skipped'):
        return None
    outs = {}
    wrps = {}
    okq = None
    memo = None
    for l in out_lines:
        w = l.split()
        if w[0] == 'memo':
            memo = {x.split('=', 1)[0]: x.split('=', 1)[1] for x in w[2:]}
        elif w[0] == 'out':
            outs[int(w[2])] = w[3:]
        elif w[0] == 'wrp':
            wrps[int(w[2])] = w[3:]
        elif w[0] == 'okq':
            okq = w[2] == '1'
        elif w[0] == 'BAD':
            return 'driver: ' + l
    if okq is None:
        return 'no okq answer from the driver'
    if okq != bool(res['okq']):
        return f'Exc.ok = {okq} but the real object graph carries tracebacks = {res["okq"]}'
    if res.get('memo_obs') is not None:
        if memo is None:
            return 'no memo answer from the driver'

        def texts(v):
            return [_sha(''.join(res['pieces'][int(t)] for t in e.split(',') if t != '')) for e in v.split('|')]
        if texts(memo['R']) != res['memo_obs']:
            legacy = texts(memo['P']) == res['memo_obs']
            return ('pickle-memo heap model: the repaired _rebuild_exception predicts other nested texts than the real code '
                    'delivered' + ('; the real code behaves like the PINNED model Legacy/RemoteExc.lean: defect F22 '
                                   '(shared exception object relabelled) is present' if legacy else ''))
    for k, h in enumerate(res['hops']):
        if k not in outs:
            return f'hop {k}: no answer from the driver'
        if h['obs'] == 'error':
            return f'hop {k}: the real hop crashed ({h.get("err")}) — the model has no such outcome'
        # the constructor alone: (self.tb, self.exc) against `wrapWith`
        wp = wrps.get(k)
        if wp is None:
            return f'hop {k}: no wrp answer from the driver'
        if wp == ['none']:
            wpred = 'none'
        else:
            toks = [int(x) for x in wp[0].split('=', 1)[1].split(',') if x != '']
            wpred = [_sha(''.join(res['pieces'][t] for t in toks)), parse_tree(wp[1:], res['pieces'])]
        if h['wobs'] is not None and wpred != h['wobs']:
            return (f'hop {k} ({h["line"]}): constructor: model predicts (tb, exc) = {_short(wpred)} / '
                    f'real RemoteException has {_short(h["wobs"])}')
        if outs[k] == ['none']:
            pred = 'none'
        else:
            pred = parse_tree(outs[k], res['pieces'])
        if h['obs'] is not None and pred != h['obs']:
            return f'hop {k} ({h["line"]}): model predicts {_short(pred)} / real code gave {_short(h["obs"])}'
    return None


def _short(t):
    s = repr(t)
    return s if len(s) < 600 else s[:600] + '…'
