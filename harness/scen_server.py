"""
Scenario: `Server` (thread servlet) with concurrent callers under the deterministic scheduler.

Serves C06 (backlog <= capacity at every instant; slots returned), C07 (abandoned requests never
harm the server) and the ledger half of C02 (every request gets its own outcome).  Deadlines are
virtual; the chooser may fire timers within the horizon "early", so a deadline can expire at any
point relative to the gather thread's steps.

Import only after `detsched.install()` in workers.
"""
import random
import time

import detsched

from mpservice.mpserver import AsyncServer, Server, ServerBacklogFull, ThreadServlet, TimeoutError, Worker
from mpservice.threading import Thread

MODEL = 'ledger'
MODEL_MAX_REQUESTS = 6
FOREVER = 1e6


class _NoTruth:
    def __bool__(self):
        raise ValueError('the truth value of an element-wise comparison is ambiguous')


class OddT(tuple):
    """array-like payload / result: a tuple whose `==` is element-wise and has no truth value (what numpy arrays
    do).  The server never has a reason to compare payloads or results."""
    __slots__ = ()

    def __eq__(self, o):
        return _NoTruth()

    def __ne__(self, o):
        return _NoTruth()

    __hash__ = tuple.__hash__


def _pl(r, dur, fail):
    return OddT((r, dur, fail)) if r % 3 == 0 else (r, dur, fail)


class StopConsumer(BaseException):
    """thrown into a stream generator by its consumer (not an Exception: like KeyboardInterrupt or CancelledError)"""


class WorkErr(Exception):
    def __init__(self, r):
        super().__init__(r)
        self.r = r


def gen_case(rng: random.Random, tier: str, bias: str = ''):
    big = tier == 'thorough'
    cap = rng.choice([1, 1, 2, 2, 3])
    nworkers = rng.choice([1, 2, 2, 3])
    # `small` cases (<= 6 requests in total) are also replayed through the Lean ledger model (the
    # validator's state set grows quickly with the number of concurrent requests); larger ones are
    # run with the monitors only
    small = rng.random() < 0.6
    if small:
        ncallers = rng.choice([2, 3, 3, 4])
        cap = rng.choice([1, 1, 2])
    else:
        ncallers = rng.choice([3, 4, 5] if not big else [3, 4, 6, 8])
        if bias == 'capacity':
            ncallers = max(ncallers, cap + 2)
    r = 0
    callers = []
    for _ in range(ncallers):
        kind = 'stream' if rng.random() < 0.2 else 'call'
        if kind == 'call':
            reqs = []
            for _ in range(1 if small else rng.choice([1, 1, 2, 3])):
                abandon = rng.random() < (0.45 if bias == 'abandon' else 0.15)
                reqs.append(dict(r=r, delay=rng.choice([0, 0, 1, 3]), dur=rng.choice([0, 1, 2, 4, 8]),
                                 fail=rng.random() < 0.15,
                                 timeout=rng.choice([0.5, 1.0, 2.0]) if abandon else FOREVER,
                                 bp=rng.random() < (0.3 if bias != 'capacity' else 0.15)))
                # (AsyncServer only) the calling task is cancelled after this many loop iterations: while it waits
                # for room, while it waits for the result, or after it got it
                if not abandon and rng.random() < (0.3 if bias == 'abandon' else 0.12):
                    reqs[-1]['cancel'] = rng.choice([0, 1, 2, 3, 5, 8, 13])
                r += 1
            callers.append(dict(kind='call', reqs=reqs))
        else:
            n = rng.choice([1, 2]) if small else rng.choice([1, 2, 3, 5])
            items = []
            for _ in range(n):
                items.append(dict(r=r, dur=rng.choice([0, 1, 2, 4]), fail=rng.random() < 0.15))
                r += 1
            stop_after = rng.randrange(1, n + 1) if rng.random() < (0.6 if bias == 'abandon' else 0.4) else None
            if stop_after is not None and not small and rng.random() < 0.5:
                # a long stream abandoned near its start: the source still has (many) more elements than the
                # stream's look-ahead when the consumer leaves, so a feeder that is not told to stop keeps feeding
                for _ in range(rng.choice([6, 10])):
                    items.append(dict(r=r, dur=rng.choice([0, 1, 2]), fail=False))
                    r += 1
                stop_after = rng.choice([1, 1, 2])
            callers.append(dict(kind='stream', items=items, rexc=rng.random() < 0.6,
                                stop_after=stop_after,
                                # how the consumer stops early: close() | an exception thrown into the generator at
                                # its yield (what Ctrl-C or Thread.throw amounts to) | (async) the consuming task is
                                # cancelled while it waits for the next result
                                stop_mode=rng.choice(['close', 'close', 'throw', 'cancel', 'leave'])))
    early = rng.choice([0.0, 0.02, 0.05, 0.1]) if bias != 'abandon' else rng.choice([0.03, 0.08, 0.15])
    ch = rng.choice([('random', early), ('random', early), ('sticky', 0.2, early), ('sticky', 0.05, early),
                     ('pct', 2, 600, early), ('pct', 3, 600, early)])
    case = dict(kind=rng.choice(['sync', 'sync', 'async']), cap=cap, nworkers=nworkers, callers=callers, nreq=r,
                followups=1 if small else rng.choice([1, 2]),
                # leave the server right after the callers have returned (abandoned requests may still be under
                # way: nothing waits for them) and enter the SAME object again: every slot must be free again
                exit_busy=rng.random() < (0.35 if bias == 'abandon' else 0.15),
                chooser=list(ch), seed=rng.randrange(1 << 30))
    # (AsyncServer) in half of the cases a pending loop timer may come due while callbacks are already queued: a
    # time-out racing with the notification that is on its way (cooploop.CoopSelector.select)
    case['poll_timers'] = case['kind'] == 'async' and case['seed'] % 2 == 0
    return case


def corpus():
    """fixed cases that always run first (regressions of past misses): a request abandoned while a worker is still on
    it, a second idle worker (so that the stop sentinel overtakes the late result), the server left at once and entered
    again; streams abandoned near their start in every stop mode"""
    F = FOREVER
    out = []
    for kind in ('sync', 'async'):
        for seed in (1, 2, 3):
            # (timed waits expire early with probability 0.3 per step: the deadline passes while the worker is on it)
            out.append(dict(kind=kind, cap=2, nworkers=2, nreq=2, followups=1, exit_busy=True, chooser=['random', 0.3], seed=seed,
                            callers=[dict(kind='call', reqs=[dict(r=0, delay=0, dur=60, fail=False, timeout=0.5, bp=False)]),
                                     dict(kind='call', reqs=[dict(r=1, delay=0, dur=0, fail=False, timeout=F, bp=False)])]))
        for seed in (4, 5, 6):
            # the same with capacity 1: an entry that survives leaving the server fills the whole next session
            out.append(dict(kind=kind, cap=1, nworkers=2, nreq=1, followups=1, exit_busy=True, chooser=['random', 0.3], seed=seed,
                            callers=[dict(kind='call', reqs=[dict(r=0, delay=0, dur=60, fail=False, timeout=0.5, bp=False)])]))
        for mode in ('close', 'throw', 'cancel', 'leave'):
            items = [dict(r=i, dur=1, fail=False) for i in range(10)]
            out.append(dict(kind=kind, cap=1, nworkers=1, nreq=10, followups=1, exit_busy=False, chooser=['random', 0.0], seed=7,
                            callers=[dict(kind='stream', items=items, rexc=True, stop_after=1, stop_mode=mode)]))
            out.append(dict(kind=kind, cap=2, nworkers=2, nreq=10, followups=1, exit_busy=False, chooser=['sticky', 0.2, 0.0], seed=8,
                            callers=[dict(kind='stream', items=items, rexc=False, stop_after=2, stop_mode=mode)]))
    # (AsyncServer) the shutdown is cancelled at the only point where `__aexit__` awaits (a result was gathered while the
    # server was stopping, another request is orphaned): the ledger must be clean in the next session (seeded C06-10)
    for d1, ch, seed in ((2, ['random', 0.3], 1), (2, ['random', 0.3], 5), (2, ['random', 0.3], 7), (3, ['random', 0.1], 1), (3, ['random', 0.1], 5)):
        out.append(dict(kind='async', cap=3, nworkers=3, nreq=3, followups=1, exit_busy=True, exit_cancel=True, chooser=ch, seed=seed,
                        callers=[dict(kind='call', reqs=[dict(r=0, delay=0, dur=60, fail=False, timeout=0.5, bp=False)]),
                                 dict(kind='call', reqs=[dict(r=1, delay=0, dur=d1, fail=False, timeout=0.5, bp=False)]),
                                 dict(kind='call', reqs=[dict(r=2, delay=0, dur=0, fail=False, timeout=F, bp=False)])]))
    # a stream left open with a slow source, the server entered again before the stream is closed (seeded C07-8)
    for cap_, ch, seed in ((1, ['random', 0.0], 22), (1, ['random', 0.0], 25), (1, ['sticky', 0.2, 0.0], 1), (1, ['sticky', 0.2, 0.0], 2),
                           (2, ['random', 0.0], 0), (2, ['sticky', 0.2, 0.0], 32), (3, ['random', 0.0], 0), (3, ['random', 0.0], 1)):
        items = [dict(r=i, dur=1, fail=False) for i in range(10)]
        out.append(dict(kind='sync', cap=cap_, nworkers=1, nreq=10, followups=1, exit_busy=False, chooser=ch, seed=seed,
                        reenter_open=True,
                        callers=[dict(kind='stream', items=items, rexc=True, stop_after=1, stop_mode='leave')]))
    # a caller gives up waiting for room just as the notification of a freed slot reaches it, while another caller
    # (no backpressure, unbounded deadline) waits as well: the wake-up must not be lost on the one that leaves (F44;
    # schedules on which the pinned code starved request 2)
    for kind, picks in (('sync', [(0, ['sticky', 0.2, 0.3]), (40, ['random', 0.1]), (46, ['random', 0.1]), (49, ['random', 0.1])]),
                        ('async', [(2, ['random', 0.1]), (3, ['random', 0.1]), (19, ['sticky', 0.2, 0.3]), (37, ['random', 0.3])])):
        for seed, ch in picks:
            out.append(dict(kind=kind, cap=1, nworkers=1, nreq=3, followups=1, exit_busy=False, chooser=ch, seed=seed, poll_timers=True,
                            callers=[dict(kind='call', reqs=[dict(r=0, delay=0, dur=3, fail=False, timeout=F, bp=False)]),
                                     dict(kind='call', reqs=[dict(r=1, delay=1, dur=0, fail=False, timeout=0.5, bp=False)]),
                                     dict(kind='call', reqs=[dict(r=2, delay=1, dur=0, fail=False, timeout=F, bp=False)])]))
    return out


def _alive(srv):
    """the gather thread (internal attribute; if it is renamed the monitor is skipped, not crashed)"""
    t = getattr(srv, '_gather_thread', None)
    return True if t is None else t.is_alive()


def nontrivial(case, res):
    return len(case['callers']) >= 2 and res.get('switches', 0) >= 1


class _Wake:
    """Observation of the "wait for room" protocol (events for `drv wakeup`, see lean/MpsVerif/Drv/Wakeup.lean): a
    logging dict in place of the server's ledger dict and instance-level wrappers around `wait` / `notify` of the
    server's own condition object.  Internal attribute names (`_uid_to_futures`, `_pipeline_notfull`): if they are
    gone the observation is skipped (`skipped`), never crashed."""

    def __init__(self):
        self.ev = []
        self.on = False
        self.state = {}      # who -> 'woken' | 'expired'
        self.skipped = None
        self.n_at_stop = None
        self.at_rest = False

    @staticmethod
    def who():
        try:
            import asyncio
            t = asyncio.current_task()
        except RuntimeError:
            t = None
        if t is not None:
            return ('task', id(t))
        me = detsched.SCHED.me()
        return ('thr', me.tid if me is not None else -1)

    def ledger(self, srv):
        wk = self

        class LogDict(dict):
            def __setitem__(self, k, v):
                dict.__setitem__(self, k, v)
                if wk.on:
                    st = wk.state.pop(wk.who(), None)
                    wk.ev.append(('wtake' if st == 'woken' else 'take', len(self)))

            def pop(self, k, *d):
                had = k in self
                r = dict.pop(self, k, *d)
                if wk.on and had:
                    wk.ev.append(('pop', len(self)))
                return r

        if not isinstance(getattr(srv, '_uid_to_futures', None), dict) or srv._uid_to_futures:
            self.skipped = 'no (empty) ledger dict `_uid_to_futures` before the server is entered'
            return
        srv._uid_to_futures = LogDict()

    def _live(self, cond):
        ws = getattr(cond, '_waiters', None)
        if ws is None:
            return 0
        return sum(1 for f in ws if not (hasattr(f, 'done') and f.done()))

    def condition(self, srv, is_async):
        cond = getattr(srv, '_pipeline_notfull', None)
        if cond is None or self.skipped:
            self.skipped = self.skipped or 'no condition object `_pipeline_notfull` on the entered server'
            return
        wk = self
        orig_wait, orig_notify = cond.wait, cond.notify

        def enter():
            st = wk.state.pop(wk.who(), None)
            wk.ev.append(('wpark',) if st == 'woken' else ('park',))

        if is_async:
            import asyncio

            async def wait():
                if not wk.on:
                    return await orig_wait()
                enter()
                me = wk.who()
                try:
                    r = await orig_wait()
                except asyncio.CancelledError:
                    if wk.on:
                        wk.state[me] = 'expired'
                        wk.ev.append(('leave',))
                    raise
                if wk.on:
                    wk.state[me] = 'woken'
                return r
        else:
            def wait(timeout=None):
                if not wk.on:
                    return orig_wait(timeout)
                enter()
                me = wk.who()
                r = orig_wait(timeout)
                if wk.on:
                    if r:
                        wk.state[me] = 'woken'
                    else:
                        wk.state[me] = 'expired'
                        wk.ev.append(('leave',))
                return r

        def notify(n=1):
            if not wk.on:
                return orig_notify(n)
            import sys as _sys
            by_caller = _sys._getframe(1).f_code.co_name == '_enqueue'
            before = wk._live(cond)
            r = orig_notify(n)
            k = before - wk._live(cond)
            if not by_caller:
                wk.ev.append(('notify', k))
            else:
                st = wk.state.pop(wk.who(), None)
                if st == 'woken':
                    wk.ev.append(('wleave',))
                wk.ev.append(('passon' if st else 'bounce', k))
            return r

        cond.wait = wait
        cond.notify = notify
        self.on = True

    def stop(self, srv):
        """called right before the server is left for the first time"""
        if self.on:
            self.on = False
            self.n_at_stop = len(srv._uid_to_futures)
            # a caller that left its wait (or was woken and had no time left) and raised without notify()
            for who, st in (list(self.state.items()) if self.at_rest else []):
                if st == 'woken':
                    # woken, then neither took a slot nor waited again nor passed on.  (A caller woken by the
                    # `notify_all` of a server that is being left is not meant: observation stops before.)
                    self.ev.append(('wleave',))
                self.ev.append(('giveup',))
            self.state.clear()


def wakeup_lines(cid, case, res):
    """Lines for `drv wakeup`."""
    wkd = res.get('wakeup')
    if not wkd or wkd.get('skipped') or wkd.get('n_at_stop') is None:
        return []
    lines = [f'case {cid} cap={case["cap"]}']
    for e in wkd['events']:
        lines.append('e ' + ' '.join(str(x) for x in e))
    lines.append(f'end n={wkd["n_at_stop"]}' + ('' if wkd.get('at_rest') else ' partial=1'))
    return lines


def run_case(case):
    has_leave = case['kind'] == 'sync' and any(sp['kind'] == 'stream' and sp.get('stop_mode') == 'leave' and sp['stop_after'] is not None
                                               for sp in case['callers'])
    exit_busy = bool(case.get('exit_busy')) and not has_leave
    # (with a stream left open) the server is entered again BEFORE that stream is closed: its feeder, slowed down by its
    # source, may arrive at the server while it is stopped, or in the next session
    reenter_open = has_leave and bool(case.get('reenter_open', case['seed'] % 2 == 0))
    src_dur = 3 if reenter_open else 0
    ev = []
    log = ev.append
    wake = _Wake()
    cap = case['cap']
    st = {'max_backlog': 0, 'calls': {}}
    outcomes = {}

    class W(Worker):
        def call(self, x):
            r, dur, fail = x
            st['calls'][r] = st['calls'].get(r, 0) + 1
            log(('wstart', r))
            for _ in range(dur):
                detsched.yield_here('work')
            log(('wfinish', r))
            if fail:
                raise WorkErr(r)
            return OddT(('y', r)) if r % 3 == 0 else ('y', r)

    def amain_wrapper():
        """AsyncServer: the callers are asyncio tasks of one event loop (cooperative-selector loop,
        virtual clock), the servlet workers and the gather thread are threads as usual."""
        import asyncio
        import cooploop
        cooploop.install()
        detsched.SCHED.poll_timers = bool(case.get('poll_timers'))
        base_threads = {ts.tid for ts in detsched.SCHED.order if not ts.done}
        box = {}

        async def amain():
            srv = AsyncServer(ThreadServlet(W, num_threads=case['nworkers']), capacity=cap)
            wake.ledger(srv)
            loop = asyncio.get_running_loop()

            def sample(s):
                b = srv.backlog
                if b > st['max_backlog']:
                    st['max_backlog'] = b
                if b != st.get('last_backlog', 0):
                    st['last_backlog'] = b
                    log(('blen', b))

            await srv.__aenter__()
            wake.condition(srv, True)
            detsched.SCHED.on_step.append(sample)

            async def do_call(r, dur, fail, timeout, bp):
                t0 = detsched.my_timed_wait()   # time the loop thread spent blocked in its selector (not: being slow while runnable)
                log(('call', r, int(bp), 0 if timeout >= FOREVER else 1))
                try:
                    y = await srv.call(_pl(r, dur, fail), timeout=timeout, backpressure=bp)
                    out = ('ok', y[1] if isinstance(y, tuple) and len(y) == 2 and y[0] == 'y' else repr(y))
                except ServerBacklogFull:
                    out = ('full',)
                except TimeoutError:
                    out = ('timeout',)
                except WorkErr as e:
                    out = ('err', e.r)
                except asyncio.CancelledError:
                    out = ('cancelled',)
                except BaseException as e:  # noqa
                    out = ('other', repr(e))
                outcomes[r] = (out, detsched.my_timed_wait() - t0, timeout, bp)
                if out != ('cancelled',):
                    log(('outcome', r) + out)

            async def caller(spec):
                if spec['kind'] == 'call':
                    for q in spec['reqs']:
                        for _ in range(q['delay']):
                            await asyncio.sleep(0)
                        if q.get('cancel') is not None:
                            t = asyncio.ensure_future(do_call(q['r'], q['dur'], q['fail'], q['timeout'], q['bp']))
                            for _ in range(q['cancel']):
                                await asyncio.sleep(0)
                            t.cancel()
                            await asyncio.gather(t, return_exceptions=True)
                        else:
                            await do_call(q['r'], q['dur'], q['fail'], q['timeout'], q['bp'])
                else:
                    items = spec['items']

                    async def data():
                        for it in items:
                            log(('call', it['r'], 0, 1))
                            yield _pl(it['r'], it['dur'], it['fail'])

                    got = []
                    endk = 'end'
                    try:
                        gen = srv.stream(data(), return_x=True, return_exceptions=spec['rexc'], timeout=FOREVER)
                        mode = spec.get('stop_mode', 'close')
                        reached = asyncio.Event()

                        async def consume():
                            async for x, y in gen:
                                if isinstance(y, WorkErr):
                                    got.append((x[0], ('err', y.r)))
                                    log(('outcome', x[0], 'err', y.r))
                                elif isinstance(y, tuple) and len(y) == 2 and y[0] == 'y':
                                    got.append((x[0], ('ok', y[1])))
                                    log(('outcome', x[0], 'ok', y[1]))
                                else:
                                    got.append((x[0], ('other', repr(y))))
                                if spec['stop_after'] is not None and len(got) == spec['stop_after']:
                                    if mode == 'cancel':
                                        reached.set()       # go on asking for the next result; the task is cancelled meanwhile
                                        continue
                                    if mode == 'throw':
                                        try:
                                            await gen.athrow(StopConsumer())
                                        except StopConsumer:
                                            return 'closed'
                                        return ('other', 'athrow returned')
                                    await gen.aclose()
                                    return 'closed'
                            return 'end'

                        if mode == 'cancel' and spec['stop_after'] is not None:
                            task = asyncio.ensure_future(consume())
                            w = asyncio.ensure_future(reached.wait())
                            await asyncio.wait([task, w], return_when=asyncio.FIRST_COMPLETED)
                            w.cancel()
                            if not task.done():
                                task.cancel()
                            try:
                                endk = await task
                            except asyncio.CancelledError:
                                endk = 'closed'
                        else:
                            endk = await consume()
                    except WorkErr as e:
                        endk = ('err', e.r)
                        log(('outcome', e.r, 'err', e.r))
                    except BaseException as e:  # noqa
                        endk = ('other', repr(e))
                    box.setdefault('streams', []).append((spec, got, endk))

            await asyncio.gather(*[caller(spec) for spec in case['callers']])
            if exit_busy:
                wake.stop(srv)
                try:
                    if case.get('exit_cancel', case['seed'] % 2 == 1):
                        # the shutdown runs under a deadline that passes while the server is stopping: the task is
                        # cancelled at the only point where `__aexit__` awaits; the ledger must be clean all the same
                        try:
                            await asyncio.wait_for(srv.__aexit__(None, None, None), 0.005)
                        except (asyncio.TimeoutError, TimeoutError):
                            pass
                    else:
                        await srv.__aexit__(None, None, None)
                    await srv.__aenter__()
                except BaseException as e:  # noqa
                    if isinstance(e, detsched.Abort):
                        raise
                    box['exit_error'] = 'exit/re-enter: ' + repr(e)
                box['reenter_backlog'] = srv.backlog
            box['gather_alive'] = _alive(srv)
            r = case['nreq']
            for k in range(case['followups']):
                await do_call(r + k, 1, False, FOREVER, False)
            await asyncio.sleep(1000)
            box['idle_backlog'] = srv.backlog
            box['gather_alive2'] = _alive(srv)
            detsched.SCHED.on_step.remove(sample)
            if wake.on:
                wake.at_rest = True
            wake.stop(srv)
            try:
                await srv.__aexit__(None, None, None)
            except BaseException as e:  # noqa
                if isinstance(e, detsched.Abort):
                    raise
                box['exit_error'] = repr(e)

        asyncio.run(amain())
        box['leaked'] = [ts_.name for ts_ in detsched.SCHED.order if not ts_.done and ts_.tid not in base_threads]
        return box

    def main():
        if case.get('kind') == 'async':
            return amain_wrapper()
        base_threads = {ts.tid for ts in detsched.SCHED.order if not ts.done}
        srv = Server(ThreadServlet(W, num_threads=case['nworkers']), capacity=cap)
        wake.ledger(srv)
        box = {}

        def sample(s):
            b = srv.backlog
            if b > st['max_backlog']:
                st['max_backlog'] = b
            if b != st.get('last_backlog', 0):
                st['last_backlog'] = b
                log(('blen', b))

        srv.__enter__()
        wake.condition(srv, False)
        if True:
            detsched.SCHED.on_step.append(sample)

            def do_call(r, dur, fail, timeout, bp):
                t0 = detsched.my_timed_wait()
                log(('call', r, int(bp), 0 if timeout >= FOREVER else 1))
                try:
                    y = srv.call(_pl(r, dur, fail), timeout=timeout, backpressure=bp)
                    out = ('ok', y[1] if isinstance(y, tuple) and len(y) == 2 and y[0] == 'y' else repr(y))
                except ServerBacklogFull:
                    out = ('full',)
                except TimeoutError:
                    out = ('timeout',)
                except WorkErr as e:
                    out = ('err', e.r)
                except BaseException as e:  # noqa
                    out = ('other', repr(e))
                el = detsched.my_timed_wait() - t0   # time spent blocked in timed waits only
                outcomes[r] = (out, el, timeout, bp)
                log(('outcome', r) + out)

            def caller(spec):
                if spec['kind'] == 'call':
                    for q in spec['reqs']:
                        for _ in range(q['delay']):
                            detsched.yield_here('delay')
                        do_call(q['r'], q['dur'], q['fail'], q['timeout'], q['bp'])
                else:
                    items = spec['items']

                    def data():
                        for it in items:
                            for _ in range(src_dur):
                                detsched.yield_here('src')       # a slow source: the feeder is often between two elements
                            log(('call', it['r'], 0, 1))     # abandonable: the stream may be closed early
                            yield _pl(it['r'], it['dur'], it['fail'])

                    got = []
                    endk = 'end'
                    try:
                        gen = srv.stream(data(), return_x=True, return_exceptions=spec['rexc'], timeout=FOREVER)
                        for x, y in gen:
                            if isinstance(y, WorkErr):
                                got.append((x[0], ('err', y.r)))
                                log(('outcome', x[0], 'err', y.r))
                            elif isinstance(y, tuple) and len(y) == 2 and y[0] == 'y':
                                got.append((x[0], ('ok', y[1])))
                                log(('outcome', x[0], 'ok', y[1]))
                            else:
                                got.append((x[0], ('other', repr(y))))
                            if spec['stop_after'] is not None and len(got) == spec['stop_after']:
                                if spec.get('stop_mode') == 'leave':
                                    # `break` out of the loop with the generator still referenced: it is closed only
                                    # AFTER the server has been left (what `for x, y in zip(data, stream): ... break`
                                    # inside `with server:` amounts to)
                                    box.setdefault('open_streams', []).append(gen)
                                    endk = 'closed'
                                    break
                                if spec.get('stop_mode', 'close') in ('throw', 'cancel'):
                                    try:
                                        gen.throw(StopConsumer())
                                        endk = ('other', 'throw returned')
                                    except StopConsumer:
                                        endk = 'closed'
                                    break
                                gen.close()
                                endk = 'closed'
                                break
                    except WorkErr as e:
                        endk = ('err', e.r)
                        log(('outcome', e.r, 'err', e.r))
                    except BaseException as e:  # noqa
                        endk = ('other', repr(e))
                    box.setdefault('streams', []).append((spec, got, endk))

            ts = [Thread(target=caller, args=(spec,), name=f'caller{k}') for k, spec in enumerate(case['callers'])]
            for t in ts:
                t.start()
            for t in ts:
                t.join()
            if exit_busy:
                wake.stop(srv)
                try:
                    srv.__exit__(None, None, None)
                    srv.__enter__()
                except detsched.Abort:
                    raise
                except BaseException as e:  # noqa
                    box['exit_error'] = 'exit/re-enter: ' + repr(e)
                box['reenter_backlog'] = srv.backlog
            # follow-up requests with an unbounded deadline: the server must still answer (C07)
            box['gather_alive'] = _alive(srv)
            r = case['nreq']
            if has_leave:
                # a stream was left open: leave the server at once, while its feeder still has elements to feed
                box['idle_backlog'] = 0
                box['gather_alive2'] = box['gather_alive']
            else:
                for k in range(case['followups']):
                    do_call(r + k, 1, False, FOREVER, False)
                # let everything come to rest (a sleep beyond the early horizon expires only when no thread is enabled)
                time.sleep(1000)
                box['idle_backlog'] = srv.backlog
                box['gather_alive2'] = _alive(srv)
            detsched.SCHED.on_step.remove(sample)
        if wake.on and not has_leave:
            wake.at_rest = True
        wake.stop(srv)
        try:
            srv.__exit__(None, None, None)
        except detsched.Abort:
            raise
        except BaseException as e:  # noqa
            box['exit_error'] = repr(e)
        if reenter_open and 'exit_error' not in box:
            try:
                for _ in range(25):
                    detsched.yield_here('stopped')      # the stopped server, with the feeder of the open stream still alive
                srv.__enter__()
                box['reenter_backlog'] = srv.backlog
                do_call(case['nreq'] + 50, 1, False, FOREVER, False)
                time.sleep(1000)
                box['idle_backlog'] = srv.backlog
                srv.__exit__(None, None, None)
            except detsched.Abort:
                raise
            except BaseException as e:  # noqa
                box['exit_error'] = 're-entering while a stream was still open: ' + repr(e)
        for g in box.pop('open_streams', []):
            t0c = detsched.now()
            try:
                g.close()
            except detsched.Abort:
                raise
            except BaseException as e:  # noqa
                box['exit_error'] = 'closing a stream after the server was left: ' + repr(e)
            box['late_close'] = max(box.get('late_close', 0.0), detsched.now() - t0c)
        if has_leave and not reenter_open and 'exit_error' not in box:
            # the same object once more: whatever the feeder of the left-open stream did when the server was left,
            # the server comes back with every slot free and serves
            try:
                srv.__enter__()
                box['reenter_backlog'] = srv.backlog
                do_call(case['nreq'] + 50, 1, False, FOREVER, False)
                time.sleep(1000)
                box['idle_backlog'] = srv.backlog
                srv.__exit__(None, None, None)
            except detsched.Abort:
                raise
            except BaseException as e:  # noqa
                box['exit_error'] = 're-entering after a stream was left open: ' + repr(e)
        box['leaked'] = [ts_.name for ts_ in detsched.SCHED.order if not ts_.done and ts_.tid not in base_threads]
        return box

    chooser = detsched.make_chooser(tuple(case['chooser']), case['seed'])
    v, e, s = detsched.run(main, chooser, max_steps=case.get('max_steps', 200000))
    res = dict(events=ev, steps=s.steps, switches=s.switches, early=s.early_fires, monitors=[],
               max_backlog=st['max_backlog'],
               wakeup=dict(events=wake.ev, skipped=wake.skipped, n_at_stop=wake.n_at_stop, at_rest=wake.at_rest and e is None))
    mon = res['monitors']
    if st['max_backlog'] > cap:
        mon.append(dict(prop='C06', rule='overshoot', detail=f'backlog {st["max_backlog"]} > capacity {cap}'))
    if e is not None:
        if isinstance(e, detsched.Deadlock):
            res['deadlock'] = e.args[0] if e.args else None
            # who is stuck tells which property: a caller with an unbounded deadline never answered
            mon.append(dict(prop='C07', rule='hang', detail=f'deadlock: {res["deadlock"]}'))
            mon.append(dict(prop='C02', rule='hang', detail=f'deadlock: {res["deadlock"]}'))
        else:
            res['error'] = repr(e)
            mon.append(dict(prop='C07', rule='unexpected-exception', detail=repr(e)))
        res['outcomes'] = {str(k): list(v2[0]) for k, v2 in outcomes.items()}
        return res
    box = v
    res['outcomes'] = {str(k): list(v2[0]) for k, v2 in outcomes.items()}
    res['idle_backlog'] = box['idle_backlog']
    # C02 (ledger half): every request got its own outcome
    spec_by_r = {}
    for c in case['callers']:
        for q in c.get('reqs', []):
            spec_by_r[q['r']] = q
    cancelled_plan = {q['r'] for sp in case['callers'] if sp['kind'] == 'call' for q in sp['reqs']
                      if q.get('cancel') is not None and case['kind'] == 'async'}
    for r, (out, el, timeout, bp) in outcomes.items():
        q = spec_by_r.get(r, dict(fail=False, timeout=FOREVER, bp=False))
        want = ('err', r) if q['fail'] else ('ok', r)
        if out[0] in ('ok', 'err'):
            if out != want:
                mon.append(dict(prop='C02', rule='crosstalk', detail=f'request {r} got {out}, its own outcome is {want}'))
        elif out[0] == 'cancelled' and r in cancelled_plan:
            pass        # the caller gave up on its own; what matters is what it leaves behind (slots, server, others)
        elif out[0] == 'timeout':
            if timeout >= FOREVER:
                mon.append(dict(prop='C07', rule='unanswered', detail=f'request {r} with an unbounded deadline got TimeoutError'))
        elif out[0] == 'full':
            # allowed: immediate rejection (backpressure), or after waiting no longer than a finite timeout.
            # A request WITHOUT backpressure and with an unbounded deadline must get in eventually:
            # every freed slot is announced, and under the scheduler's condition variable a
            # notification is never lost to a simultaneous time-out.
            if bp is False and timeout >= FOREVER:
                # (also when a calling TASK is cancelled in the case: asyncio.Condition.wait of Python < 3.12.2 loses
                # the wake-up of a task that is cancelled right after having been notified (CPython gh-112202); since
                # the repair of F44 a caller that leaves its wait for room passes the wake-up on, whatever made it leave)
                for pr in ('C06', 'C07'):
                    mon.append(dict(prop=pr, rule='starved', detail=f'request {r} (no backpressure, unbounded deadline) was rejected after waiting for room although slots were freed'))
        else:
            mon.append(dict(prop='C02', rule='foreign-exception', detail=f'request {r} got {out}'))
        if out[0] == 'full' and bp and el > 0:
            mon.append(dict(prop='C06', rule='backpressure-waited', detail=f'request {r} rejected under backpressure after waiting {el}'))
        if el > timeout + 1e-6:
            mon.append(dict(prop='C06', rule='waited-too-long', detail=f'request {r} was blocked in timed waits for {el} > timeout {timeout}'))
    for spec, got, endk in box.get('streams', []):
        exp = []
        expend = 'end'
        for it in spec['items']:
            o = ('err', it['r']) if it['fail'] else ('ok', it['r'])
            if it['fail'] and not spec['rexc']:
                expend = ('err', it['r'])
                break
            exp.append((it['r'], o))
        if spec['stop_after'] is not None and spec['stop_after'] <= len(exp):
            if case['kind'] == 'async' and spec.get('stop_mode') == 'cancel' and endk in ('closed', expend) \
                    and len(got) >= spec['stop_after']:
                # the cancellation lands somewhere after the stop_after-th result: any longer prefix is fine, and
                # so is the regular ending if the stream got there first
                if endk == 'closed':
                    exp = exp[:len(got)]
                    expend = 'closed'
            else:
                exp = exp[:spec['stop_after']]
                expend = 'closed'
        if got != exp or endk != expend:
            mon.append(dict(prop='C02', rule='stream-output', detail=f'got {got} end {endk}; expected {exp} end {expend}'))
    for r, cnt in st['calls'].items():
        if cnt != 1:
            mon.append(dict(prop='C02', rule='served-twice', detail=f'request {r} served {cnt} times'))
    if box.get('late_close', 0.0) > 5.0:
        mon.append(dict(prop='C07', rule='abandoned-stream-close-late',
                        detail=f'closing a stream that was abandoned (break, not closed) before the server was left took '
                               f'{box["late_close"]:.0f} s of blocked waiting (its feeder was left waiting for room in a stopped server)'))
    # C06: slots returned
    if box.get('reenter_backlog'):
        mon.append(dict(prop='C06', rule='slot-leak-after-reenter',
                        detail=f'backlog {box["reenter_backlog"]} on the idle server right after leaving and re-entering it'))
    if box['idle_backlog'] != 0:
        mon.append(dict(prop='C06', rule='slot-leak', detail=f'backlog {box["idle_backlog"]} on an idle server'))
    # C07: server unharmed
    if not box['gather_alive'] or not box['gather_alive2']:
        mon.append(dict(prop='C07', rule='gather-dead', detail='the gather thread died'))
    if box.get('exit_error'):
        mon.append(dict(prop='C07', rule='exit-raised', detail=f'Server.__exit__ raised {box["exit_error"]}'))
    if box['leaked']:
        mon.append(dict(prop='C07', rule='leak-after-exit', detail=f'{box["leaked"]}'))
    return res


def model_lines(cid, case, res):
    """Lines for `drv ledger`: call / emit (worker finished) / outcome events and every change of the
    public `Server.backlog`."""
    n = case['nreq'] + case['followups']
    if n > MODEL_MAX_REQUESTS or case.get('exit_busy') or \
            (case['kind'] == 'sync' and any(sp['kind'] == 'stream' and sp.get('stop_mode') == 'leave' and sp['stop_after'] is not None
                                             for sp in case['callers'])):
        return []        # (exit_busy: two sessions; the ledger model describes one: monitors only)
    if case['kind'] == 'async' and any(q.get('cancel') is not None for sp in case['callers'] if sp['kind'] == 'call' for q in sp['reqs']):
        return []        # cancelled calling tasks: monitors only (the model's callers leave by outcome or deadline)
    bps, timed = [], []
    for e in res['events']:
        if e[0] == 'call':
            if e[2]:
                bps.append(e[1])
            if e[3]:
                timed.append(e[1])
    lines = [f'case {cid} cap={case["cap"]} n={n} bp={",".join(map(str, bps))} timed={",".join(map(str, timed))}']
    for e in res['events']:
        if e[0] == 'call':
            lines.append(f'e call {e[1]}')
        elif e[0] == 'wfinish':
            lines.append(f'e emit {e[1]}')
        elif e[0] == 'blen':
            lines.append(f'e blen {e[1]}')
        elif e[0] == 'outcome':
            if e[2] in ('ok', 'err'):
                lines.append(f'e answered {e[1]} {e[3]}')
            elif e[2] == 'full':
                lines.append(f'e full {e[1]}')
            elif e[2] == 'timeout':
                lines.append(f'e timeout {e[1]}')
    if 'idle_backlog' not in res:
        lines.append('end partial=1')
    else:
        lines.append(f'end idle={res["idle_backlog"]}')
    return lines
