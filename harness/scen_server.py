"""
Scenario: `Server` (thread servlet) with concurrent callers under the deterministic scheduler.

Serves C06 (backlog <= capacity at every instant; slots returned), C07 (abandoned requests never
harm the server) and the ledger half of C02 (every request gets its own outcome).  Deadlines are
virtual; the chooser may fire timers within the horizon "early", so a deadline can expire at any
point relative to the gather thread's steps.

Import only after `detsched.install()` in workers.
"""
import random
import time

import detsched

from mpservice.mpserver import Server, ServerBacklogFull, ThreadServlet, TimeoutError, Worker
from mpservice.threading import Thread

MODEL = 'ledger'
FOREVER = 1e6


class WorkErr(Exception):
    def __init__(self, r):
        super().__init__(r)
        self.r = r


def gen_case(rng: random.Random, tier: str, bias: str = ''):
    big = tier == 'thorough'
    cap = rng.choice([1, 1, 2, 2, 3])
    nworkers = rng.choice([1, 2, 2, 3])
    ncallers = rng.choice([2, 3, 4, 5] if not big else [2, 3, 4, 6, 8])
    if bias == 'capacity':
        ncallers = max(ncallers, cap + 2)
    r = 0
    callers = []
    for _ in range(ncallers):
        kind = 'stream' if rng.random() < 0.2 else 'call'
        if kind == 'call':
            reqs = []
            for _ in range(rng.choice([1, 1, 2, 3])):
                abandon = rng.random() < (0.45 if bias == 'abandon' else 0.15)
                reqs.append(dict(r=r, delay=rng.choice([0, 0, 1, 3]), dur=rng.choice([0, 1, 2, 4, 8]),
                                 fail=rng.random() < 0.15,
                                 timeout=rng.choice([0.5, 1.0, 2.0]) if abandon else FOREVER,
                                 bp=rng.random() < (0.3 if bias != 'capacity' else 0.15)))
                r += 1
            callers.append(dict(kind='call', reqs=reqs))
        else:
            n = rng.choice([1, 2, 3, 5])
            items = []
            for _ in range(n):
                items.append(dict(r=r, dur=rng.choice([0, 1, 2, 4]), fail=rng.random() < 0.15))
                r += 1
            callers.append(dict(kind='stream', items=items, rexc=rng.random() < 0.6,
                                stop_after=rng.randrange(1, n + 1) if rng.random() < 0.4 else None))
    early = rng.choice([0.0, 0.02, 0.05, 0.1]) if bias != 'abandon' else rng.choice([0.03, 0.08, 0.15])
    ch = rng.choice([('random', early), ('random', early), ('sticky', 0.2, early), ('sticky', 0.05, early),
                     ('pct', 2, 600, early), ('pct', 3, 600, early)])
    return dict(cap=cap, nworkers=nworkers, callers=callers, nreq=r, followups=rng.choice([1, 2]),
                chooser=list(ch), seed=rng.randrange(1 << 30))


def nontrivial(case, res):
    return len(case['callers']) >= 2 and res.get('switches', 0) >= 1


def run_case(case):
    ev = []
    log = ev.append
    cap = case['cap']
    st = {'max_backlog': 0, 'calls': {}}
    outcomes = {}

    class W(Worker):
        def call(self, x):
            r, dur, fail = x
            st['calls'][r] = st['calls'].get(r, 0) + 1
            log(('wstart', r))
            for _ in range(dur):
                detsched.yield_here('work')
            log(('wfinish', r))
            if fail:
                raise WorkErr(r)
            return ('y', r)

    def main():
        base_threads = {ts.tid for ts in detsched.SCHED.order if not ts.done}
        srv = Server(ThreadServlet(W, num_threads=case['nworkers']), capacity=cap)
        box = {}

        def sample(s):
            b = srv.backlog
            if b > st['max_backlog']:
                st['max_backlog'] = b

        with srv:
            detsched.SCHED.on_step.append(sample)

            def do_call(r, dur, fail, timeout, bp):
                t0 = detsched.my_timed_wait()
                log(('call', r, int(bp), 0 if timeout >= FOREVER else 1))
                try:
                    y = srv.call((r, dur, fail), timeout=timeout, backpressure=bp)
                    out = ('ok', y[1] if isinstance(y, tuple) and len(y) == 2 and y[0] == 'y' else repr(y))
                except ServerBacklogFull:
                    out = ('full',)
                except TimeoutError:
                    out = ('timeout',)
                except WorkErr as e:
                    out = ('err', e.r)
                except BaseException as e:  # noqa
                    out = ('other', repr(e))
                el = detsched.my_timed_wait() - t0   # time spent blocked in timed waits only
                outcomes[r] = (out, el, timeout, bp)
                log(('outcome', r) + out)

            def caller(spec):
                if spec['kind'] == 'call':
                    for q in spec['reqs']:
                        for _ in range(q['delay']):
                            detsched.yield_here('delay')
                        do_call(q['r'], q['dur'], q['fail'], q['timeout'], q['bp'])
                else:
                    items = spec['items']
                    data = [(it['r'], it['dur'], it['fail']) for it in items]
                    got = []
                    endk = 'end'
                    try:
                        gen = srv.stream(iter(data), return_x=True, return_exceptions=spec['rexc'], timeout=FOREVER)
                        for x, y in gen:
                            if isinstance(y, WorkErr):
                                got.append((x[0], ('err', y.r)))
                            elif isinstance(y, tuple) and len(y) == 2 and y[0] == 'y':
                                got.append((x[0], ('ok', y[1])))
                            else:
                                got.append((x[0], ('other', repr(y))))
                            if spec['stop_after'] is not None and len(got) == spec['stop_after']:
                                gen.close()
                                endk = 'closed'
                                break
                    except WorkErr as e:
                        endk = ('err', e.r)
                    except BaseException as e:  # noqa
                        endk = ('other', repr(e))
                    box.setdefault('streams', []).append((spec, got, endk))

            ts = [Thread(target=caller, args=(spec,), name=f'caller{k}') for k, spec in enumerate(case['callers'])]
            for t in ts:
                t.start()
            for t in ts:
                t.join()
            # follow-up requests with an unbounded deadline: the server must still answer (C07)
            box['gather_alive'] = srv._gather_thread.is_alive()
            r = case['nreq']
            for k in range(case['followups']):
                do_call(r + k, 1, False, FOREVER, False)
            # let everything come to rest (a sleep beyond the early horizon expires only when no thread is enabled)
            time.sleep(1000)
            box['idle_backlog'] = srv.backlog
            box['gather_alive2'] = srv._gather_thread.is_alive()
            detsched.SCHED.on_step.remove(sample)
        box['leaked'] = [ts_.name for ts_ in detsched.SCHED.order if not ts_.done and ts_.tid not in base_threads]
        return box

    chooser = detsched.make_chooser(tuple(case['chooser']), case['seed'])
    v, e, s = detsched.run(main, chooser, max_steps=case.get('max_steps', 200000))
    res = dict(events=ev, steps=s.steps, switches=s.switches, early=s.early_fires, monitors=[],
               max_backlog=st['max_backlog'])
    mon = res['monitors']
    if st['max_backlog'] > cap:
        mon.append(dict(prop='C06', rule='overshoot', detail=f'backlog {st["max_backlog"]} > capacity {cap}'))
    if e is not None:
        if isinstance(e, detsched.Deadlock):
            res['deadlock'] = e.args[0] if e.args else None
            # who is stuck tells which property: a caller with an unbounded deadline never answered
            mon.append(dict(prop='C07', rule='hang', detail=f'deadlock: {res["deadlock"]}'))
            mon.append(dict(prop='C02', rule='hang', detail=f'deadlock: {res["deadlock"]}'))
        else:
            res['error'] = repr(e)
            mon.append(dict(prop='C07', rule='unexpected-exception', detail=repr(e)))
        res['outcomes'] = {str(k): list(v2[0]) for k, v2 in outcomes.items()}
        return res
    box = v
    res['outcomes'] = {str(k): list(v2[0]) for k, v2 in outcomes.items()}
    res['idle_backlog'] = box['idle_backlog']
    # C02 (ledger half): every request got its own outcome
    spec_by_r = {}
    for c in case['callers']:
        for q in c.get('reqs', []):
            spec_by_r[q['r']] = q
    for r, (out, el, timeout, bp) in outcomes.items():
        q = spec_by_r.get(r, dict(fail=False, timeout=FOREVER, bp=False))
        want = ('err', r) if q['fail'] else ('ok', r)
        if out[0] in ('ok', 'err'):
            if out != want:
                mon.append(dict(prop='C02', rule='crosstalk', detail=f'request {r} got {out}, its own outcome is {want}'))
        elif out[0] == 'timeout':
            if timeout >= FOREVER:
                mon.append(dict(prop='C07', rule='unanswered', detail=f'request {r} with an unbounded deadline got TimeoutError'))
        elif out[0] == 'full':
            pass   # allowed: immediate rejection (backpressure) or after waiting no longer than the timeout
        else:
            mon.append(dict(prop='C02', rule='foreign-exception', detail=f'request {r} got {out}'))
        if out[0] == 'full' and bp and el > 0:
            mon.append(dict(prop='C06', rule='backpressure-waited', detail=f'request {r} rejected under backpressure after waiting {el}'))
        if el > timeout + 1e-6:
            mon.append(dict(prop='C06', rule='waited-too-long', detail=f'request {r} was blocked in timed waits for {el} > timeout {timeout}'))
    for spec, got, endk in box.get('streams', []):
        exp = []
        expend = 'end'
        for it in spec['items']:
            o = ('err', it['r']) if it['fail'] else ('ok', it['r'])
            if it['fail'] and not spec['rexc']:
                expend = ('err', it['r'])
                break
            exp.append((it['r'], o))
        if spec['stop_after'] is not None and spec['stop_after'] <= len(exp):
            exp = exp[:spec['stop_after']]
            expend = 'closed'
        if got != exp or endk != expend:
            mon.append(dict(prop='C02', rule='stream-output', detail=f'got {got} end {endk}; expected {exp} end {expend}'))
    for r, cnt in st['calls'].items():
        if cnt != 1:
            mon.append(dict(prop='C02', rule='served-twice', detail=f'request {r} served {cnt} times'))
    # C06: slots returned
    if box['idle_backlog'] != 0:
        mon.append(dict(prop='C06', rule='slot-leak', detail=f'backlog {box["idle_backlog"]} on an idle server'))
    # C07: server unharmed
    if not box['gather_alive'] or not box['gather_alive2']:
        mon.append(dict(prop='C07', rule='gather-dead', detail='the gather thread died'))
    if box['leaked']:
        mon.append(dict(prop='C07', rule='leak-after-exit', detail=f'{box["leaked"]}'))
    return res


def model_lines(cid, case, res):
    return []
