"""
Scenario: the real `Server` over GENERATED servlet trees (thread servlets) with concurrent
`call` / `stream` callers under the deterministic scheduler.  Serves C02 (every request gets
exactly one outcome, computed from its own input by the servlet composition) and C04 (a failing
request fails alone, with its original error; a failing batch fails exactly its members).

Values: request r has input `r` (an int >= 1); the worker with mark k maps x to the pair (x, k);
so the outcome of a request spells out the request number and the path it took through the tree,
and an outcome assembled from another request is visibly wrong.  Failure plans are sets of request
numbers per site (preprocess / call / whole batch).  Service time = a loop of scheduling points.

Observation (nothing in /repo is touched): the queue class the servlets and the server create
(`_SimpleThreadQueue`, looked up in the module namespaces of `_servlet`/`_server`) is shadowed by a
logging subclass, `Worker.call`/`preprocess`/`SwitchServlet.switch` are the harness's own
subclasses, the builtin `id` is shadowed in `mpservice.mpserver._server` by an adversarial
allocator (hands out the id of an unreachable future whenever it legally can), the module logger's
warnings are captured.

Import only after `detsched.install()` in workers.
"""
import gc
import logging
import random
import re
import threading
import time
import traceback
import weakref

import detsched

import mpservice.mpserver._server as _srvmod
import mpservice.mpserver._servlet as _svlmod
import mpservice.mpserver._worker as _wkmod
from mpservice.mpserver import (
    AsyncServer,
    EnsembleError,
    EnsembleServlet,
    SequentialServlet,
    Server,
    ServerBacklogFull,
    SwitchServlet,
    ThreadServlet,
    TimeoutError,
    Worker,
)
from mpservice.multiprocessing.remote_exception import RemoteException
from mpservice.threading import Thread

MODEL = 'servlet'
FOREVER = 1e6

# The adversarial allocator collects garbage at every `id()` call.  Everything imported so far is
# permanent: take it out of the collector's sight so that a full collection only walks what a run
# allocated (27 ms -> well under 1 ms per collection).
gc.collect()
gc.freeze()


# ----------------------------------------------------------------------------------------------
# exceptions of the failure plan, value code, reference denotation
# ----------------------------------------------------------------------------------------------

class PreErr(Exception):
    def __init__(self, k, r):
        super().__init__(k, r)
        self.k, self.r = k, r


class CallErr(Exception):
    def __init__(self, k, r):
        super().__init__(k, r)
        self.k, self.r = k, r


class BatchErr(Exception):
    def __init__(self, k):
        super().__init__(k)
        self.k = k


def unwrap(v):
    return v.exc if isinstance(v, RemoteException) else v


def is_exc(v):
    return isinstance(v, (BaseException, RemoteException))


def reqof(v):
    """request number embedded in a value = its leftmost leaf (mirrors `reqOf` in Drv/Servlet.lean)"""
    v = unwrap(v)
    if isinstance(v, bool):
        return 0
    if isinstance(v, int):
        return v
    if isinstance(v, (tuple, list)):
        return reqof(v[0]) if len(v) else 0
    if isinstance(v, (PreErr, CallErr)):
        return v.r
    if isinstance(v, EnsembleError):
        ys = v.args[1]['y']
        return reqof(ys[0]) if ys and ys[0] is not None else 0
    return 0


def enc(v):
    """canonical value code shared with the Lean driver"""
    v = unwrap(v)
    if isinstance(v, bool):
        return 'E9998:Z'
    if isinstance(v, int):
        return f'N{v}'
    if v is None:
        return 'O'
    if isinstance(v, tuple) and len(v) == 2:
        return 'P' + enc(v[0]) + enc(v[1])
    if isinstance(v, list):
        s = 'Z'
        for x in reversed(v):
            s = 'P' + enc(x) + s
        return s
    if isinstance(v, PreErr) and type(v) is PreErr and v.args == (v.k, v.r):
        return f'E{1000 + v.k}:N{v.r}'
    if isinstance(v, CallErr) and type(v) is CallErr and v.args == (v.k, v.r):
        return f'E{2000 + v.k}:N{v.r}'
    if isinstance(v, BatchErr) and type(v) is BatchErr and v.args == (v.k,):
        return f'E{3000 + v.k}:Z'
    if isinstance(v, EnsembleError) and type(v) is EnsembleError:
        z = v.args[1]
        slots = 'Z'
        for y in reversed(z['y']):
            slots = 'P' + ('O' if y is None else 'P' + enc(y) + 'Z') + slots
        return f'E0:P{slots}N{z["n"]}'
    return 'E9999:Z'       # anything else (TimeoutError, garbage): never an allowed outcome


def is_exc_code(c):
    return c.startswith('E')


def _ens_err(slots, n):
    s = 'Z'
    for y in reversed(slots):
        s = 'P' + ('O' if y is None else 'P' + y + 'Z') + s
    return f'E0:P{s}N{n}'


def _list_code(ys):
    s = 'Z'
    for y in reversed(ys):
        s = 'P' + y + s
    return s


def _req_of_code(c):
    """leftmost leaf of a value code"""
    m = re.search(r'[NOZ]', c)
    if not m or c[m.start()] != 'N':
        return 0
    return int(re.match(r'\d+', c[m.start() + 1:]).group(0))


def py_outs(t, c):
    """Reference denotation (the property statement of C02/C04 as the harness reads it from the
    documentation): the set of allowed outcome codes of a request whose input has code `c`."""
    k = t['k']
    if k == 'w':
        if is_exc_code(c):
            return {c}
        r = _req_of_code(c)
        if t['pre'] and r in t['pf']:
            return {f'E{1000 + t["mark"]}:N{r}'}
        y = f'E{2000 + t["mark"]}:N{r}' if r in t['cf'] else f'P{c}N{t["mark"]}'
        if t['bs'] == 0:
            return {y}
        return {y, f'E{3000 + t["mark"]}:Z'}
    if k == 's':
        cur = {c}
        for ch in t['ch']:
            nxt = set()
            for y in cur:
                nxt |= py_outs(ch, y)
            cur = nxt
        return cur
    if is_exc_code(c):
        return {c}
    if k == 'x':
        return py_outs(t['ch'][_req_of_code(c) % len(t['ch'])], c)
    # ensemble
    oss = [sorted(py_outs(ch, c)) for ch in t['ch']]
    n = len(oss)
    out = set()

    def rec(i, acc):
        if i == n:
            yield list(acc)
            return
        for o in oss[i]:
            acc.append(o)
            yield from rec(i + 1, acc)
            acc.pop()
    if not t['ff']:
        for ys in rec(0, []):
            if all(is_exc_code(y) for y in ys):
                out.add(_ens_err(ys, n))
            else:
                out.add(_list_code(ys))
        return out
    for ys in rec(0, []):
        if not any(is_exc_code(y) for y in ys):
            out.add(_list_code(ys))
    # fail-fast: one failing member result, received after any subset of the successful ones

    def rec2(i, acc, have_exc):
        if i == n:
            if have_exc:
                yield list(acc)
            return
        acc.append(None)
        yield from rec2(i + 1, acc, have_exc)
        acc.pop()
        for o in oss[i]:
            if is_exc_code(o):
                if have_exc:
                    continue
                acc.append(o)
                yield from rec2(i + 1, acc, True)
                acc.pop()
            else:
                acc.append(o)
                yield from rec2(i + 1, acc, have_exc)
                acc.pop()
    for slots in rec2(0, [], False):
        out.add(_ens_err(slots, sum(1 for s in slots if s is not None)))
    return out


def failure_sites(t, c, acc=None):
    """(kind, mark) of every failure site the plan makes request-with-input-code c hit (any path)"""
    acc = set() if acc is None else acc
    k = t['k']
    if k == 'w':
        if not is_exc_code(c):
            r = _req_of_code(c)
            if t['pre'] and r in t['pf']:
                acc.add(('pre', t['mark']))
            elif r in t['cf']:
                acc.add(('call', t['mark']))
        return acc
    if k == 's':
        cur = {c}
        for ch in t['ch']:
            nxt = set()
            for y in cur:
                failure_sites(ch, y, acc)
                nxt |= py_outs(ch, y)
            cur = nxt
        return acc
    if is_exc_code(c):
        return acc
    if k == 'x':
        return failure_sites(t['ch'][_req_of_code(c) % len(t['ch'])], c, acc)
    for ch in t['ch']:
        failure_sites(ch, c, acc)
    return acc


# ----------------------------------------------------------------------------------------------
# case generation
# ----------------------------------------------------------------------------------------------

def _gen_tree(rng, depth, ctr, nreq, bias, root=True):
    if root and depth > 0:
        kinds = ['s', 'e', 'e', 'x']          # a compound root whenever depth allows
    else:
        kinds = ['w'] * 4 + (['s', 'e', 'e', 'x'] if depth > 0 else [])
    k = rng.choice(kinds)
    if k == 'w':
        ctr[0] += 1
        bs = rng.choice([0, 0, 0, 1, 3])
        reqs = list(range(1, nreq + 1))
        p = 0.12 if bias != 'fail' else 0.22
        pre = rng.random() < 0.35
        return dict(k='w', mark=ctr[0], bs=bs, nw=rng.choice([1, 1, 2, 3]), pre=pre,
                    # `num_stream_threads`: the worker runs `call` in threads of its own (Worker.stream)
                    nst=rng.choice([0, 0, 0, 2, 3]),
                    pf=sorted(r for r in reqs if pre and rng.random() < p),
                    cf=sorted(r for r in reqs if rng.random() < p),
                    bp=sorted(r for r in reqs if bs > 0 and rng.random() < p * 0.7),
                    wait=rng.choice([0, 0.01]) if bs > 1 else 0,
                    dur=[rng.choice([0, 0, 1, 2, 4, 7]) for _ in range(nreq + 1)])
    n = rng.choice([2, 2, 3]) if k != 's' else rng.choice([2, 2, 3])
    ch = [_gen_tree(rng, depth - 1, ctr, nreq, bias, root=False) for _ in range(n)]
    if k == 'e':
        return dict(k='e', ff=rng.random() < 0.6, ch=ch)
    return dict(k=k, ch=ch)


def boundary_trees(nreq):
    """hand-picked boundary shapes (all members fail, failure at the first / last stage, batch of one, …)"""
    allr = list(range(1, nreq + 1))
    dur = [0] * (nreq + 1)

    def w(mark, **kw):
        d = dict(k='w', mark=mark, bs=0, nw=1, pre=False, pf=[], cf=[], bp=[], wait=0, dur=list(dur))
        d.update(kw)
        return d
    return [
        dict(k='e', ff=False, ch=[w(1, cf=allr), w(2, cf=allr)]),                       # all members fail
        dict(k='e', ff=True, ch=[w(1, cf=[1], dur=[0] * (nreq + 1)), w(2, nw=2, dur=[9] * (nreq + 1))]),  # fast failing member, slow sibling
        dict(k='s', ch=[w(1, cf=[1]), w(2), w(3, cf=[2])]),                             # failure at the first / last stage
        dict(k='s', ch=[w(1, bs=1, bp=[2]), w(2, bs=3, nw=2, bp=[3], pre=True, pf=[1], wait=0.01)]),
        dict(k='x', ch=[w(1), w(2, cf=[1, 3])]),
        dict(k='s', ch=[dict(k='e', ff=False, ch=[w(1, cf=[2]), w(2)]), w(3)]),        # exception inside a list value reaches `call`
        w(1, bs=3, nw=2, bp=[2], wait=0.01),
    ]


def gen_case(rng: random.Random, tier: str, bias: str = ''):
    big = tier == 'thorough'
    ncallers = rng.choice([2, 3, 4] if not big else [2, 3, 4, 6])
    callers = []
    r = 0
    for _ in range(ncallers):
        if rng.random() < 0.3:
            n = rng.choice([1, 2, 3, 4])
            callers.append(dict(kind='stream', reqs=list(range(r + 1, r + n + 1)), rexc=rng.random() < 0.7,
                                stop_after=rng.randrange(1, n + 1) if rng.random() < 0.25 else None))
            r += n
        else:
            n = rng.choice([1, 2, 2, 3])
            reqs = []
            for _ in range(n):
                r += 1
                abandon = rng.random() < 0.08
                reqs.append(dict(r=r, delay=rng.choice([0, 0, 1, 3]),
                                 timeout=rng.choice([0.5, 2.0]) if abandon else FOREVER,
                                 bp=rng.random() < 0.15))
            callers.append(dict(kind='call', reqs=reqs))
    nreq = r
    if rng.random() < 0.12:
        tree = rng.choice(boundary_trees(nreq))
    else:
        tree = _gen_tree(rng, rng.choice([0, 1, 2, 2, 3] if not big else [1, 2, 3, 3]), [0], nreq, bias)
    early = rng.choice([0.0, 0.02, 0.05, 0.2])
    ch = rng.choice([('random', early), ('random', early), ('sticky', 0.2, early), ('sticky', 0.05, early),
                     ('pct', 2, 800, early), ('pct', 3, 800, early)])
    return dict(tree=tree, callers=callers, nreq=nreq, cap=rng.choice([1, 2, 3, 8, 8]),
                adversarial_id=rng.random() < 0.8, asyncsrv=rng.random() < 0.25, chooser=list(ch),
                seed=rng.randrange(1 << 30))


def f2_case(rng: random.Random):
    """the scenario class of F2: a fail-fast ensemble with a fast failing member and a slow sibling,
    sequential requests from one caller (so that a released future's id can be handed out again)"""
    n = rng.choice([3, 4, 5])
    fail = sorted(set([1] + [r for r in range(2, n + 1) if rng.random() < 0.3]))
    # the sibling is slow on exactly the requests whose other member fails fast: its late result is
    # still on its way when a later request is minted
    slow = [rng.choice([40, 100, 300]) if r in fail else rng.choice([0, 1, 2]) for r in range(n + 1)]
    tree = dict(k='e', ff=True, ch=[
        dict(k='w', mark=1, bs=0, nw=1, pre=False, pf=[], cf=fail, bp=[], wait=0, dur=[0] * (n + 1)),
        dict(k='w', mark=2, bs=0, nw=rng.choice([2, 3]), pre=False, pf=[], cf=[], bp=[], wait=0, dur=slow)])
    callers = [dict(kind='call', reqs=[dict(r=r, delay=0, timeout=FOREVER, bp=False) for r in range(1, n + 1)])]
    # the ensemble's dequeue thread polls with a (virtual) sleep: it overtakes the slow member only if
    # that timer may fire while other threads are still runnable
    early = rng.choice([0.05, 0.2])
    ch = rng.choice([('random', early), ('sticky', 0.2, early), ('pct', 2, 800, early)])
    return dict(tree=tree, callers=callers, nreq=n, cap=8, adversarial_id=True, chooser=list(ch),
                seed=rng.randrange(1 << 30))


def nontrivial(case, res):
    return case['nreq'] >= 2 and len(case['callers']) >= 2 and res.get('switches', 0) >= 1


def tree_tokens(t):
    def lst(l):
        return ','.join(map(str, l)) if l else '-'
    if t['k'] == 'w':
        # the model's `nw` is "at most nw calls run at once": a worker with stream threads runs that many each
        return ['w', str(t['mark']), str(t['bs']), str(t['nw'] * max(1, t.get('nst') or 0)), str(int(t['pre'])), lst(t['pf']), lst(t['cf']),
                lst(t['bp'])]
    if t['k'] == 'e':
        out = ['e', str(int(t['ff'])), str(len(t['ch']))]
    else:
        out = [t['k'], str(len(t['ch']))]
    for ch in t['ch']:
        out += tree_tokens(ch)
    return out


# ----------------------------------------------------------------------------------------------
# the adversarial identity allocator (every legal behaviour of `id` on futures)
# ----------------------------------------------------------------------------------------------

class AdversarialId:
    """`id(obj)` must be unique among simultaneously live objects — nothing more.  This allocator
    collects garbage and then hands out the id of any object that is no longer reachable."""

    def __init__(self):
        self.live = {}
        self.next = 10_000
        self.reused = 0

    def __call__(self, obj):
        gc.collect()
        for k, ref in self.live.items():
            if ref() is obj:
                return k
        for k, ref in list(self.live.items()):
            if ref() is None:
                self.live[k] = weakref.ref(obj)
                self.reused += 1
                return k
        k = self.next
        self.next += 1
        self.live[k] = weakref.ref(obj)
        return k


# ----------------------------------------------------------------------------------------------
# one run
# ----------------------------------------------------------------------------------------------

class _AsyncDone(Exception):
    pass


class _LedgerWarnings(logging.Handler):
    def __init__(self):
        super().__init__(level=logging.WARNING)
        self.msgs = []

    def emit(self, record):
        try:
            self.msgs.append(record.getMessage())
        except Exception:   # noqa
            pass


def run_case(case):
    qlog = []          # (op, queue id, thread name, thread ident, item)
    calls = []         # per `call`: dict(mark, path, args(list of codes), reqs, exc, tid)
    ev = []            # request-level events
    mon_direct = []    # monitor hits detected inside the run
    running = {}       # mark -> number of calls in progress
    st = dict(max_running={}, uid_of_req={})
    tree = case['tree']

    allq = []
    keepalive = []

    def logitem(item):
        # (uid, value code, id of the value object).  Exception objects are NOT kept: once raised at
        # the caller their traceback refers to the request's future, and keeping them alive would
        # deny the identity allocator the reuse it is entitled to.  Plain values are kept so that
        # their ids stay unique for the duration of the run (call arguments are matched by id).
        u, y = item
        if not is_exc(y):
            keepalive.append(y)
        return (u, enc(y), id(y))

    class LogQ(_wkmod._SimpleThreadQueue):
        def __init__(self):
            super().__init__()
            allq.append(self)

        def put(self, item, *a, **kw):
            if isinstance(item, tuple) and len(item) == 2:
                t = threading.current_thread()
                qlog.append(('put', id(self), t.name, t.ident, logitem(item)))
            return super().put(item, *a, **kw)

        def get(self, *a, **kw):
            item = super().get(*a, **kw)
            if isinstance(item, tuple) and len(item) == 2:
                t = threading.current_thread()
                qlog.append(('get', id(self), t.name, t.ident, logitem(item)))
            return item

    def make_worker(t, path):
        mark, bs, dur = t['mark'], t['bs'], t['dur']
        cf, bp = set(t['cf']), set(t['bp'])
        pf = set(t['pf'])

        class W(Worker):
            def __init__(self, **kw):
                super().__init__(**kw)
                if t.get('nst'):
                    self.num_stream_threads = t['nst']

            def call(self, x):
                xs = x if bs > 0 else [x]
                rec = dict(mark=mark, path=path, args=[enc(v) for v in xs], reqs=[reqof(v) for v in xs], exc=None,
                           ids=[id(v) for v in xs])
                calls.append(rec)
                qlog.append(('call', path, threading.current_thread().name, None, rec))
                if any(is_exc(v) for v in xs) or (bs > 0 and not isinstance(x, list)):
                    mon_direct.append(dict(prop='C04', rule='call-on-exception',
                                           detail=f'worker {mark} at {path}: call received {rec["args"]}'))
                running[mark] = running.get(mark, 0) + 1
                st['max_running'][mark] = max(st['max_running'].get(mark, 0), running[mark])
                try:
                    for _ in range(max(dur[min(reqof(v), len(dur) - 1)] for v in xs)):
                        detsched.yield_here('work')
                    if bs > 0:
                        if any(reqof(v) in bp for v in xs):
                            rec['exc'] = 'batch'
                            raise BatchErr(mark)
                        return [self._one(v, True) for v in xs]
                    return self._one(x, False)
                finally:
                    running[mark] -= 1
                    qlog.append(('ret', path, threading.current_thread().name, None, rec))

            def _one(self, v, batched):
                r = reqof(v)
                if r in cf:
                    e = CallErr(mark, r)
                    if batched:
                        # an element-wise failure inside a batch: `call` returns the exception object
                        # in that position (with its traceback, as a preprocess failure would have)
                        try:
                            raise e
                        except CallErr as e2:
                            return e2
                    raise e
                return (v, mark)

        W.mark = mark
        W.__name__ = f'W{mark}'
        if t['pre']:
            def preprocess(self, x):
                if is_exc(x):
                    mon_direct.append(dict(prop='C04', rule='call-on-exception',
                                           detail=f'worker {mark} at {path}: preprocess received {enc(x)}'))
                if reqof(x) in pf:
                    raise PreErr(mark, reqof(x))
                return x
            W.preprocess = preprocess
        return W

    nodes = {}     # path -> dict(kind, t, servlet, parent, idx)

    def build(t, path, parent=None, idx=None):
        k = t['k']
        if k == 'w':
            kw = {}
            if t['bs'] > 0:
                kw['batch_size'] = t['bs']
                if t['bs'] > 1:
                    kw['batch_wait_time'] = t['wait']
            s = ThreadServlet(make_worker(t, path), num_threads=t['nw'], worker_name=f'nd{path}w', **kw)
        else:
            chs = [build(ch, f'{path}.{i}', path, i) for i, ch in enumerate(t['ch'])]
            if k == 's':
                s = SequentialServlet(*chs)
            elif k == 'e':
                s = EnsembleServlet(*chs, fail_fast=t['ff'])
            else:
                n = len(chs)

                class Sw(SwitchServlet):
                    def switch(self, x):
                        if is_exc(x):
                            mon_direct.append(dict(prop='C04', rule='call-on-exception',
                                                   detail=f'switch at {path} received {enc(x)}'))
                        return reqof(x) % n
                s = Sw(*chs)
        nodes[path] = dict(kind=k, t=t, servlet=s, parent=parent, idx=idx, path=path)
        return s

    outcomes = {}      # r -> list of outcome tuples
    excs = {}          # r -> exception object received

    def record(r, out, e=None):
        outcomes.setdefault(r, []).append(out)
        if e is not None:
            # judge the traceback now and keep only the verdict: a stored exception would keep its
            # traceback frames — and through them the request's future — alive, which would deny the
            # identity allocator the reuse it is legally entitled to
            excs[r] = (check_traceback(e), repr(e))
        ev.append(('outcome', r) + tuple(out))

    async def amain(servlet, box):
        """the same scenario against `AsyncServer`: callers are tasks of a cooperative event loop
        (its selector wait is a scheduler wait), the servlet tree and the gather thread are threads"""
        import asyncio
        srv = AsyncServer(servlet, capacity=case['cap'])
        async with srv:
            box['wiring'] = wiring(srv)

            async def do_call(q):
                r = q['r']
                ev.append(('call', r))
                try:
                    y = await srv.call(r, timeout=q['timeout'], backpressure=q['bp'])
                    record(r, ('val', enc(y)))
                except ServerBacklogFull:
                    record(r, ('full',))
                except TimeoutError:
                    record(r, ('timeout', int(q['timeout'] >= FOREVER)))
                except asyncio.CancelledError:
                    raise
                except BaseException as e:  # noqa
                    record(r, ('val', enc(e)), e)
                    del e

            async def caller(spec):
                if spec['kind'] == 'call':
                    for q in spec['reqs']:
                        for _ in range(q['delay']):
                            detsched.yield_here('delay')
                            await asyncio.sleep(0)
                        await do_call(q)
                    return
                got = []
                endk = ('end',)

                async def src():
                    for r in spec['reqs']:
                        yield r
                try:
                    gen = srv.stream(src(), return_x=True, return_exceptions=spec['rexc'], timeout=FOREVER)
                    async for x, y in gen:
                        got.append(x)
                        if is_exc(y):
                            record(x, ('val', enc(y)), unwrap(y))
                        else:
                            record(x, ('val', enc(y)))
                        if spec['stop_after'] is not None and len(got) == spec['stop_after']:
                            await gen.aclose()
                            endk = ('closed',)
                            break
                except asyncio.CancelledError:
                    raise
                except BaseException as e:  # noqa
                    nxt = spec['reqs'][len(got)] if len(got) < len(spec['reqs']) else None
                    endk = ('raise', nxt)
                    if nxt is not None:
                        if isinstance(e, TimeoutError):
                            record(nxt, ('timeout', 1))
                        else:
                            record(nxt, ('val', enc(e)), e)
                    del e
                box.setdefault('streams', []).append((spec, got, endk))

            await asyncio.gather(*[caller(spec) for spec in case['callers']])
            fu = case['nreq'] + 1
            box['followup'] = fu
            await do_call(dict(r=fu, timeout=FOREVER, bp=False))
            detsched.SCHED.early_horizon = -1.0
            calm = 0
            for _ in range(60):
                await asyncio.sleep(0.05)
                if srv.backlog == 0 and not any(running.values()) and all(q.qsize() == 0 for q in allq):
                    calm += 1
                    if calm >= 2:
                        break
                else:
                    calm = 0
            box['idle_backlog'] = srv.backlog
            box['gather_alive'] = srv._gather_thread.is_alive()

    def main():
        base_threads = {ts.tid for ts in detsched.SCHED.order if not ts.done}
        handler = _LedgerWarnings()
        logging.getLogger(_srvmod.__name__).addHandler(handler)
        alloc = AdversarialId()
        if case.get('adversarial_id'):
            _srvmod.id = alloc
        saved = (_srvmod._SimpleThreadQueue, _svlmod._SimpleThreadQueue)
        _srvmod._SimpleThreadQueue = LogQ
        _svlmod._SimpleThreadQueue = LogQ
        box = {}
        try:
            servlet = build(tree, 'R')
            if case.get('asyncsrv'):
                import cooploop
                loop = cooploop.CoopLoop()
                try:
                    loop.run_until_complete(amain(servlet, box))
                finally:
                    loop.close()
                raise _AsyncDone()
            srv = Server(servlet, capacity=case['cap'])
            with srv:
                box['wiring'] = wiring(srv)

                def do_call(q):
                    r = q['r']
                    ev.append(('call', r))
                    try:
                        y = srv.call(r, timeout=q['timeout'], backpressure=q['bp'])
                        record(r, ('val', enc(y)))
                    except ServerBacklogFull:
                        record(r, ('full',))
                    except TimeoutError:
                        record(r, ('timeout', int(q['timeout'] >= FOREVER)))
                    except BaseException as e:  # noqa
                        record(r, ('val', enc(e)), e)
                        del e

                def caller(spec):
                    if spec['kind'] == 'call':
                        for q in spec['reqs']:
                            for _ in range(q['delay']):
                                detsched.yield_here('delay')
                            do_call(q)
                        return
                    got = []
                    endk = ('end',)
                    try:
                        gen = srv.stream(iter(spec['reqs']), return_x=True, return_exceptions=spec['rexc'],
                                         timeout=FOREVER)
                        for x, y in gen:
                            got.append(x)
                            if is_exc(y):
                                record(x, ('val', enc(y)), unwrap(y))
                            else:
                                record(x, ('val', enc(y)))
                            if spec['stop_after'] is not None and len(got) == spec['stop_after']:
                                gen.close()
                                endk = ('closed',)
                                break
                    except BaseException as e:  # noqa
                        # the exception of the first failing element ends the stream; it belongs to the
                        # element after the last one yielded
                        nxt = spec['reqs'][len(got)] if len(got) < len(spec['reqs']) else None
                        endk = ('raise', nxt)
                        if nxt is not None:
                            if isinstance(e, TimeoutError):
                                record(nxt, ('timeout', 1))
                            else:
                                record(nxt, ('val', enc(e)), e)
                    box.setdefault('streams', []).append((spec, got, endk))

                ts = [Thread(target=caller, args=(spec,), name=f'caller{k}') for k, spec in enumerate(case['callers'])]
                for t in ts:
                    t.start()
                for t in ts:
                    t.join()
                # follow-up request: the server must still answer correctly after everything above
                fu = case['nreq'] + 1
                box['followup'] = fu
                do_call(dict(r=fu, timeout=FOREVER, bp=False))
                # let everything come to rest: from here on no timer fires early, so a sleep returns only
                # after every thread that can run without the clock has run (work takes no virtual time)
                detsched.SCHED.early_horizon = -1.0
                calm = 0
                for _ in range(60):
                    time.sleep(0.05)
                    if srv.backlog == 0 and not any(running.values()) and all(q.qsize() == 0 for q in allq):
                        calm += 1
                        if calm >= 2:
                            break
                    else:
                        calm = 0
                box['idle_backlog'] = srv.backlog
                box['gather_alive'] = srv._gather_thread.is_alive()
        except _AsyncDone:
            pass
        finally:
            _srvmod._SimpleThreadQueue, _svlmod._SimpleThreadQueue = saved
            if case.get('adversarial_id'):
                del _srvmod.id
            logging.getLogger(_srvmod.__name__).removeHandler(handler)
        box['warnings'] = handler.msgs
        box['id_reused'] = alloc.reused
        box['leaked'] = [t.name for t in detsched.SCHED.order if not t.done and t.tid not in base_threads]
        return box

    def wiring(srv):
        """queue ids and thread idents of every node, read off the started servlet objects"""
        w = dict(qin={}, qout={}, mo={}, threads={}, root_in=id(srv._q_in), root_out=id(srv._q_out))
        for path, nd in nodes.items():
            s = nd['servlet']
            if nd['kind'] in ('w', 's'):
                nd['qin'], nd['qout'] = id(s._q_in), id(s._q_out)
            else:
                nd['qin'], nd['qout'] = id(s._qin), id(s._qout)
            if nd['kind'] == 'e':
                for i, q in enumerate(s._qouts):
                    w['mo'][id(q)] = (path, i)
                for t in s._threads:
                    w['threads'][t.ident] = path
            if nd['kind'] == 'x':
                w['threads'][s._thread_enqueue.ident] = path
            if nd['kind'] != 's':
                w['qin'][nd['qin']] = path
        return w

    chooser = detsched.make_chooser(tuple(case['chooser']), case['seed'])
    v, e, s = detsched.run(main, chooser, max_steps=case.get('max_steps', 400000))
    res = dict(events=ev, steps=s.steps, switches=s.switches, monitors=list(mon_direct),
               outcomes={str(r): [list(o) for o in os_] for r, os_ in outcomes.items()})
    mon = res['monitors']
    if e is not None:
        if isinstance(e, detsched.Deadlock):
            res['deadlock'] = e.args[0] if e.args else None
            mon.append(dict(prop='C02', rule='hang', detail=f'deadlock: {res["deadlock"]}'))
        else:
            res['error'] = ''.join(traceback.format_exception(type(e), e, e.__traceback__))[-1500:]
            mon.append(dict(prop='C02', rule='unexpected-exception', detail=res['error'][-600:]))
        res['node_lines'] = None
        return res
    box = v
    res['id_reused'] = box['id_reused']
    res['warnings'] = box['warnings'][:5]
    spec_by_r = {}
    for c in case['callers']:
        if c['kind'] == 'call':
            for q in c['reqs']:
                spec_by_r[q['r']] = q
    fu = box['followup']

    # ---- monitors: the property statements, evaluated on this run ---------------------------------
    for r in range(1, fu + 1):
        outs = outcomes.get(r, [])
        q = spec_by_r.get(r, dict(timeout=FOREVER, bp=False))
        in_stream = [c for c in case['callers'] if c['kind'] == 'stream' and r in c['reqs']]
        if len(outs) > 1:
            mon.append(dict(prop='C02', rule='two-outcomes', detail=f'request {r} got {outs}'))
        if not outs:
            if not in_stream:
                mon.append(dict(prop='C02', rule='no-outcome', detail=f'request {r} never returned'))
            continue
        out = outs[0]
        allowed = py_outs(tree, f'N{r}')
        if out[0] == 'val':
            if out[1] not in allowed:
                own_err = any(is_exc_code(a) for a in allowed)
                if is_exc_code(out[1]) and not own_err:
                    mon.append(dict(prop='C04', rule='innocent-failed',
                                    detail=f'request {r} has no failure of its own but received {out[1]}; allowed {sorted(allowed)}'))
                elif is_exc_code(out[1]):
                    mon.append(dict(prop='C04', rule='foreign-exception',
                                    detail=f'request {r} received {excs.get(r, (0, out[1]))[1]} = {out[1]}, which is none of its '
                                           f'own failures; allowed {sorted(allowed)}'))
                mon.append(dict(prop='C02', rule='crosstalk',
                                detail=f'request {r} received {out[1]}; its own outcomes are {sorted(allowed)}'))
        elif out[0] == 'timeout':
            if out[1] == 1:
                mon.append(dict(prop='C02', rule='unanswered',
                                detail=f'request {r} with an unbounded deadline got TimeoutError; warnings={box["warnings"][:2]}'))
        elif out[0] == 'full':
            if not q.get('bp') and q.get('timeout', FOREVER) >= FOREVER:
                mon.append(dict(prop='C02', rule='unanswered', detail=f'request {r} (no backpressure, unbounded) got ServerBacklogFull'))
    # C04: original type / args are part of the value code; the traceback must name the failure site
    for r, (problem, _rep) in excs.items():
        if problem:
            mon.append(dict(prop='C04', rule='traceback', detail=f'request {r}: {problem}'))
    # stream order
    for spec, got, endk in box.get('streams', []):
        if got != spec['reqs'][:len(got)]:
            mon.append(dict(prop='C02', rule='stream-order', detail=f'stream over {spec["reqs"]} yielded inputs {got}'))
        if endk[0] == 'end' and len(got) != len(spec['reqs']):
            mon.append(dict(prop='C02', rule='stream-order', detail=f'stream over {spec["reqs"]} ended after {got}'))
        if endk[0] == 'raise' and spec['rexc']:
            mon.append(dict(prop='C02', rule='stream-order', detail=f'stream with return_exceptions raised at {endk}'))
    if box['warnings']:
        mon.append(dict(prop='C02', rule='ledger-miss', detail=f'{len(box["warnings"])} warnings, e.g. {box["warnings"][0]}'))
    if box['idle_backlog'] != 0 and not any(o and o[0][0] == 'timeout' for o in outcomes.values()):
        mon.append(dict(prop='C02', rule='ledger-leftover', detail=f'backlog {box["idle_backlog"]} on an idle server'))
    if not box['gather_alive']:
        mon.append(dict(prop='C02', rule='gather-dead', detail='the gather thread died'))
    # every call ran on at most nw workers at once; batch sizes
    for path, nd in nodes.items():
        if nd['kind'] == 'w':
            t = nd['t']
            lim = t['nw'] * max(1, t.get('nst') or 0)
            if st['max_running'].get(t['mark'], 0) > lim:
                mon.append(dict(prop='C02', rule='worker-concurrency',
                                detail=f'worker {t["mark"]}: {st["max_running"][t["mark"]]} calls at once > {lim} '
                                       f'({t["nw"]} workers x {max(1, t.get("nst") or 0)} stream threads)'))
    # ---- per-node event streams (trace validation + C04 batch monitor) ------------------------------
    try:
        res['node_lines'], batch_hits = node_traces(nodes, box['wiring'], qlog)
        mon += batch_hits
    except Exception as e3:  # noqa
        res['node_lines'] = None
        res['trace_error'] = ''.join(traceback.format_exception(type(e3), e3, e3.__traceback__))[-1500:]
    res['ncalls'] = len(calls)
    res['batches'] = sorted({len(c['args']) for c in calls})
    return res


def check_traceback(e):
    """C04: the exception a caller receives still carries the traceback of the failure site."""
    if isinstance(e, EnsembleError):
        for y in e.args[1]['y']:
            if is_exc(y):
                p = check_traceback(unwrap(y)) if not isinstance(y, RemoteException) or y.exc.__traceback__ is not None \
                    else ('' if y.tb else 'member exception without traceback text')
                if p:
                    return f'inside EnsembleError: {p}'
        return ''
    if not isinstance(e, (PreErr, CallErr, BatchErr)):
        return ''
    want = 'preprocess' if isinstance(e, PreErr) else 'call'
    tb = e.__traceback__
    names = []
    while tb is not None:
        f = tb.tb_frame
        names.append(f.f_code.co_name)
        if f.f_code.co_name in (want, '_one') and getattr(f.f_locals.get('self'), 'mark', None) == e.k:
            return ''
        tb = tb.tb_next
    return f'{type(e).__name__}{e.args} has no traceback frame in {want} of worker {e.k} (frames: {names[-6:]})'


def node_traces(nodes, w, qlog):
    """map the global queue / call log to the action list of every operational node model"""
    acts = {p: [] for p, nd in nodes.items() if nd['kind'] != 's'}
    owners = {}
    uid_of = {}        # (path, id(value object)) -> uid, learned when the worker took the item
    put_by = {p: {} for p in acts}    # path -> uid -> code put on q_out by that node
    hits = []
    seen_root = set()
    dup = []

    path_of_mark = {nd['t']['mark']: p for p, nd in nodes.items() if nd['kind'] == 'w'}

    def producer(tname, ident):
        m = re.search(r'nd(R[0-9.]*)w-', tname)
        if m:
            return m.group(1)
        m = re.match(r'W(\d+)\.stream', tname)       # helper threads of a worker with `num_stream_threads`
        if m:
            return path_of_mark.get(int(m.group(1)))
        return w['threads'].get(ident)

    for op, q, tname, ident, item in qlog:
        if op in ('call', 'ret'):
            path, rec = q, item
            us = [uid_of.get((path, i)) for i in rec['ids']]
            if None in us:
                us = [u if u is not None else 999999 for u in us]
            rec['uids'] = us
            acts[path].append(('start' if op == 'call' else 'finish') + ' ' + (','.join(map(str, us)) or '-'))
            continue
        u, code, idv = item
        if op == 'put' and q == w['root_in']:
            if u in seen_root:
                dup.append(u)
            seen_root.add(u)
        if op == 'put':
            if q in w['qin']:
                acts[w['qin'][q]].append(f'arrive {u} {code}')
            if q in w['mo']:
                p, i = w['mo'][q]
                acts[p].append(f'mout {i} {u} {code}')
            p = producer(tname, ident)
            if p is not None and nodes[p]['qout'] == q:
                acts[p].append(f'emit {u} {code}')
                put_by[p][u] = code
                owners.setdefault((q, u), []).append(p)
                child = nodes[p]
                while child['parent'] is not None:
                    par = nodes[child['parent']]
                    if par['qout'] != q:
                        break
                    if par['kind'] == 'x':
                        acts[par['path']].append(f'mout {child["idx"]} {u} {code}')
                        owners[(q, u)].append(par['path'])
                    elif par['kind'] != 's':
                        break
                    child = par
        else:
            for p in owners.pop((q, u), []):
                acts[p].append(f'deliver {u}')
            if q in w['qin']:
                p = w['qin'][q]
                if nodes[p]['kind'] == 'w':
                    acts[p].append(f'take {u}')
                    uid_of[(p, idv)] = u      # the object handed to `call` is the one taken from the queue
                else:
                    acts[p].append(f'enq {u}')
            if q in w['mo']:
                p, i = w['mo'][q]
                acts[p].append(f'deq {i} {u}')
    # C04 batch monitor: a failed batched call fails exactly its members
    for op, q, tname, ident, item in qlog:
        if op != 'ret':
            continue
        path, rec = q, item
        t = nodes[path]['t']
        if t['bs'] == 0:
            continue
        members = set(rec.get('uids', []))
        code = f'E{3000 + t["mark"]}:Z'
        if rec['exc'] == 'batch':
            for u in members:
                if put_by[path].get(u) != code:
                    hits.append(dict(prop='C04', rule='batch-member-missed',
                                     detail=f'worker {t["mark"]}: batch {rec["reqs"]} failed but uid {u} was answered {put_by[path].get(u)}'))
    for path, nd in nodes.items():
        if nd['kind'] == 'w' and nd['t']['bs'] > 0:
            t = nd['t']
            code = f'E{3000 + t["mark"]}:Z'
            failed = set()
            for op, q, tname, ident, item in qlog:
                if op == 'ret' and q == path and item['exc'] == 'batch':
                    failed |= set(item.get('uids', []))
            for u, c in put_by[path].items():
                if c == code and u not in failed:
                    hits.append(dict(prop='C04', rule='batch-nonmember-failed',
                                     detail=f'worker {t["mark"]}: uid {u} was answered with the batch error but was in no failed batch'))
    lines = []
    # the proviso of the theorems: the uids handed to the tree are pairwise distinct
    if dup:
        lines.append(f'dupuid {dup[0]}')
    for p in sorted(acts):
        nd = nodes[p]
        lines.append('node ' + p + ' ' + ' '.join(tree_tokens(nd['t'])))
        lines += ['a ' + a for a in acts[p]]
        lines.append('endnode rest=1')
    return lines, hits


def model_lines(cid, case, res):
    lines = [f'case {cid} ' + ' '.join(tree_tokens(case['tree']))]
    for r, outs in sorted(res.get('outcomes', {}).items(), key=lambda kv: int(kv[0])):
        for o in outs:
            if o[0] == 'val':
                lines.append(f'out {r} {o[1]}')
    if res.get('node_lines'):
        lines += res['node_lines']
    lines.append('end')
    return lines
