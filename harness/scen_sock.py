"""
Scenario (E4, real processes / real unix sockets / real FIFOs; OS schedule, `sched=False`):

kind 'sock': the REAL `SocketServer` + `SocketClient` over a unix socket.
   mode 'thread' - server event loop in a thread of the same process: every record written/read on
                   either side, every handler start/finish, every `active` registration/pop and every
                   `pending.put` is logged in one total order; the trace is replayed through the proved
                   model `Mux` (`drv mux`), and monitors evaluate C18 directly.
   mode 'proc'   - server in a separate process (as deployed); client-side events + monitors only.
kind 'pipe': the REAL `mpservice.pipe.Server` / `Client` in two processes, objects in both directions
   concurrently; monitors: what arrives equals what was sent, in order (digest of type/structure/bytes).

Each case runs in a fresh interpreter in its own session (`sock_child.py`); the process group is
killed afterwards; the child bounds every wait (`VERIF_C18_HANG`), so a request that is never answered
is reported as a finding (`no-response`) while a child that does not report at all is a harness
problem (exit 2).
"""
import json
import os
import random
import signal
import subprocess
import sys
import tempfile
import time
from pathlib import Path

HERE = Path(__file__).resolve().parent
REPO = Path(os.environ.get('VERIF_REPO', '/repo'))
MODEL = 'mux'
CHILD_TIMEOUT = 150.0


class ChildTimeout(Exception):
    pass


# ------------------------------------------------------------------------------------------------
# generation
# ------------------------------------------------------------------------------------------------

def _body_spec(rng, tier, big_budget):
    cls = rng.choice(['empty', 'hdr', 'nl', 'rand', 'nested', 'nested', 'wrapped', 'str', 'surr'])
    size = rng.choice([0, 1, 7, 100, 1000, 4096, 16384, 65535, 65536, 65537, 200000])
    if big_budget[0] > 0 and rng.random() < 0.12:
        size = rng.choice([1 << 20, 2 << 20, (4 << 20) + 3] if tier == 'quick' else [1 << 20, 3 << 20, (8 << 20) + 3])
        cls = rng.choice(['hdr', 'nl', 'rand', 'wrapped'])
        big_budget[0] -= 1
    if cls == 'str':
        size = min(size, 20000)
    if cls == 'nl' and size > 70000:
        cls = 'hdr'
    return [cls, size, rng.randrange(1 << 30)]


def gen_sock(rng, tier, mode=None, boundary=None):
    big = tier == 'thorough'
    mode = mode or rng.choice(['thread', 'thread', 'thread', 'proc'])
    nconn = rng.choice([1, 1, 2, 3, 4])
    nthreads = rng.choice([1, 2, 4, 8, 16])
    nreq = rng.choice([1, 2, 4, 8, 16, 24] if not big else [2, 8, 16, 32, 64, 120])
    if boundary == 'one':
        nconn, nthreads, nreq = 1, 1, 1
    elif boundary == 'flood':          # many concurrent requesters, one connection, reversed latencies
        nconn, nthreads, nreq = 1, 16, (32 if not big else 96)
    elif boundary == 'bigfast':        # F17 window: huge requests, instant tiny answers
        nconn, nthreads, nreq = rng.choice([1, 2]), rng.choice([4, 16]), rng.choice([8, 16])
    lat_style = rng.choice(['zero', 'rand', 'rand', 'reversed', 'bimodal'])
    big_budget = [3 if not big else 8]
    reqs = []
    nstream = rng.choice([0, 0, nreq // 2, nreq // 3, nreq]) if nreq >= 2 else 0
    for k in range(nreq):
        if lat_style == 'zero':
            lat = 0
        elif lat_style == 'rand':
            lat = rng.choice([0, 0, 1, 2, 5, 10, 20, 40])
        elif lat_style == 'reversed':
            lat = max(0, 2 * (nreq - k))
        else:
            lat = rng.choice([0, 60])
        spec = _body_spec(rng, tier, big_budget)
        echo = rng.random() < 0.5
        if boundary == 'bigfast':
            spec = [rng.choice(['hdr', 'rand']), rng.choice([300000, 1 << 20, 2 << 20]), rng.randrange(1 << 30)]
            lat, echo = 0, False
        reqs.append(dict(pl=spec, lat=lat, err=rng.random() < 0.2, echo=echo,
                         # raw: the handler answers with the body itself at top level (never None: empty bodies excepted)
                         raw=(not echo and spec[0] != 'empty' and spec[1] > 0 and rng.random() < 0.3),
                         via='stream' if k < nstream else 'req'))
        # the route: '/' is an `async def` handler, '/p' a plain callable returning the awaitable (a failing request
        # to it raises when the route is CALLED, not inside the coroutine); streams use one path for all elements
        if reqs[-1]['via'] == 'req' and rng.random() < 0.3:
            reqs[-1]['route'] = '/p'
    rng.shuffle(reqs)
    if boundary == 'abandon':
        # a requester gives up on a slow request (`response_timeout` expires) and goes on with the next one on
        # the same client; the late response of the abandoned request must not reach anybody else.  Requester i
        # takes requests i, i+nthreads, ...: rounds of [abandoned A ...] [regular B ...]
        nconn, nthreads = rng.choice([1, 1, 2]), rng.choice([1, 2, 4])
        reqs = []
        for _round in range(rng.choice([2, 3] if not big else [4, 8])):
            la = rng.choice([60, 80, 120])
            for i in range(nthreads):
                reqs.append(dict(pl=_body_spec(rng, tier, [0]), lat=la, err=False, echo=False, via='req',
                                 abandon=rng.choice([10, 20, 30])))
            for i in range(nthreads):
                reqs.append(dict(pl=_body_spec(rng, tier, [0]), lat=la + rng.choice([60, 150, 250]), err=rng.random() < 0.2,
                                 echo=rng.random() < 0.5, via='req'))
    return dict(kind='sock', mode=mode, nconn=nconn, nthreads=nthreads, reqs=reqs,
                srv_backlog=rng.choice([None, None, 1, 2, 8]), seed=rng.randrange(1 << 30), boundary=boundary)


def gen_pipe(rng, tier):
    def side(n):
        out = []
        bigs = 1
        for _ in range(n):
            cls = rng.choice(['empty', 'hdr', 'nl', 'rand', 'nested', 'nested', 'wrapped', 'str'])
            size = rng.choice([0, 1, 5, 100, 4096, 16383, 16384, 16385, 65535, 65536, 65537])
            if bigs and rng.random() < 0.15:
                size = rng.choice([300000, 1 << 20, (2 << 20) + 1])
                cls = rng.choice(['hdr', 'rand', 'wrapped'])
                bigs -= 1
            if cls == 'str':
                size = min(size, 20000)
            if cls == 'nl' and size > 70000:
                cls = 'hdr'
            raw = cls in ('empty', 'hdr', 'nl', 'rand') and rng.random() < 0.3
            out.append(dict(pl=[cls, size, rng.randrange(1 << 30)], raw=raw, pause=rng.choice([0, 0, 0, 1, 5])))
        return out
    n1 = rng.choice([0, 1, 2, 5, 12] if tier == 'quick' else [0, 1, 5, 20, 60])
    n2 = rng.choice([0, 1, 2, 5, 12] if tier == 'quick' else [0, 1, 5, 20, 60])
    if n1 == 0 and n2 == 0:
        n1 = 3
    plan = dict(server=side(n1), client=side(n2), client_late=rng.choice([0, 0, 50, 200]))
    return dict(kind='pipe', plan=plan, server_late=rng.choice([0, 0, 50, 200]), seed=rng.randrange(1 << 30))


# ------------------------------------------------------------------------------------------------
# running
# ------------------------------------------------------------------------------------------------

def run_child(case, hang=None):
    fd, out = tempfile.mkstemp(prefix='verif-c18-rep-', suffix='.json')
    os.close(fd)
    os.unlink(out)
    env = dict(os.environ)
    env['PYTHONPATH'] = str(HERE) + os.pathsep + env.get('PYTHONPATH', '')
    if hang:
        env['VERIF_C18_HANG'] = str(hang)
    p = subprocess.Popen([sys.executable, str(HERE / 'sock_child.py'), str(REPO / 'src'), out],
                         stdin=subprocess.PIPE, stdout=subprocess.DEVNULL, stderr=subprocess.PIPE,
                         start_new_session=True, env=env)
    t0 = time.time()
    try:
        try:
            _o, err = p.communicate(json.dumps(case).encode(), timeout=CHILD_TIMEOUT)
        except subprocess.TimeoutExpired:
            raise ChildTimeout(f'case did not report within {CHILD_TIMEOUT}s')
        if not os.path.exists(out):
            raise RuntimeError('child wrote no report; stderr: ' + err.decode(errors='replace')[-1500:])
        with open(out) as f:
            rep = json.load(f)
    finally:
        try:
            os.killpg(p.pid, signal.SIGKILL)
        except Exception:
            pass
        try:
            p.wait(5)
        except Exception:
            pass
        for f in (out, out + '.tmp'):
            try:
                os.unlink(f)
            except OSError:
                pass
    rep['wall'] = round(time.time() - t0, 3)
    return rep


# findings that consist of a wait running into its bound and nothing else: confirmed by one re-run with a
# more than twice larger bound before they are reported (a loaded machine must not produce a false alarm; a
# genuine hang is deterministic or leaves other evidence - unmatched id, dead task - which is never retried)
SOFT = {'no-response', 'stream-incomplete', 'pipe-missing', 'pipe-error', 'leftover', 'client-error'}


def _once(case, hang=None):
    rep = run_child(case, hang)
    if case['kind'] == 'pipe':
        return eval_pipe(case, rep)
    return eval_sock(case, rep)


def run_case(case):
    try:
        res = _once(case)
    except ChildTimeout:
        # A case that normally takes a few seconds did not report within CHILD_TIMEOUT.  Once more with twice the
        # time (a loaded machine must not produce a verdict); a second time-out is a hang of the transport itself
        # and is reported as such (it used to end the whole check as a harness problem, also for real hangs).
        global CHILD_TIMEOUT
        old = CHILD_TIMEOUT
        CHILD_TIMEOUT = 2 * old
        try:
            res = _once(case)
            res['retried_after'] = ['child-timeout']
        except ChildTimeout:
            return dict(monitors=[dict(prop='C18', rule='no-response',
                                       detail=f'the case did not finish within {old:.0f}s nor, re-run, within {2 * old:.0f}s '
                                              '(requests, shutdown or client exit blocked)')],
                        events=[('child-timeout',)], raw_events=[], results={}, stream_out=[], wall=3 * old, errors=['child timeout'])
        finally:
            CHILD_TIMEOUT = old
    if res['monitors'] and all(m['rule'] in SOFT for m in res['monitors']):
        first = [m['rule'] for m in res['monitors']]
        try:
            res2 = _once(case, hang=45)
        except ChildTimeout:
            # the re-run with the larger bound did not even finish: the waits of the first run are confirmed
            res['retried_after'] = first + ['re-run: child-timeout']
            return res
        res = res2
        res['retried_after'] = first
    return res


# ------------------------------------------------------------------------------------------------
# monitors: C18 evaluated directly on the run
# ------------------------------------------------------------------------------------------------

def eval_sock(case, rep):
    mon = []
    reqs = case['reqs']
    dig = {int(k): v for k, v in rep.get('digests', {}).items()}
    ev = rep.get('events', [])
    results = {int(k): v for k, v in rep.get('results', {}).items()}

    def add(rule, detail):
        mon.append(dict(prop='C18', rule=rule, detail=detail[:600]))

    def expected(k):
        if reqs[k]['err']:
            return ['err', k, dig.get(k)]
        if reqs[k].get('raw'):
            return ['raw', dig.get(k)]
        return ['ok', k, dig.get(k), dig.get(k) if reqs[k]['echo'] else None]

    # 1. the handler saw exactly the payload that was sent (intact, routed)
    for e in ev:
        if e[0] == 'hstart':
            k = e[1]
            if not isinstance(k, int) or k not in dig or e[2] != dig[k]:
                add('payload-corrupt', f'handler received a body with digest {e[2]} for request {k}; sent {dig.get(k)}')
    # 2. every request got its own response / exception
    for k, r in enumerate(reqs):
        if r['via'] != 'req':
            continue
        got = results.get(k)
        if r.get('abandon') and got == ['abandoned']:
            continue        # the requester's own `response_timeout` expired first: it holds no response at all
        if got is None:
            add('no-response', f'request {k} never returned (requester blocked or died)')
        elif got[0] == 'raised' and 'Timeout' in got[1]:
            add('no-response', f'request {k}: no response within the hang bound: {got}')
        elif got != expected(k):
            rule = 'wrong-request' if (got[0] in ('ok', 'err') and got[1] != k) or \
                (got[0] == 'raw' and got[1] in dig.values()) else 'response-corrupt'
            add(rule, f'request {k} got {got}, expected {expected(k)}')
    # 3. stream: input order, own responses
    sk = [k for k, r in enumerate(reqs) if r['via'] == 'stream']
    so = rep.get('stream_out', [])
    if [x for x, _y in so] != sk[:len(so)]:
        add('stream-order', f'stream yielded inputs {[x for x, _ in so]}, fed {sk}')
    elif len(so) != len(sk):
        add('stream-incomplete', f'stream yielded {len(so)} of {len(sk)} results; errors: {rep.get("errors")}')
    for x, y in so:
        if isinstance(x, int) and 0 <= x < len(reqs) and y != expected(x):
            rule = 'wrong-request' if y[0] in ('ok', 'err') and y[1] != x else 'response-corrupt'
            if y[0] == 'raised' and 'Timeout' in y[1]:
                rule = 'no-response'
            add(rule, f'stream input {x} paired with {y}, expected {expected(x)}')
    # 4. a response always finds its request registered (F17 window), nothing is left over
    registered = set()
    given_up = {e[2] for e in ev if e[0] == 'submit' and isinstance(e[1], int) and 0 <= e[1] < len(reqs)
                and reqs[e[1]].get('abandon') and results.get(e[1]) == ['abandoned']}
    late_dropped = 0
    for e in ev:
        if e[0] == 'unmatched' and e[1] in given_up:
            # the response to a request its requester had given up on finds nothing registered: nobody is
            # waiting for it, so dropping it is no violation by itself (what matters is that nobody ELSE gets
            # it: `wrong-request`); the model replay still sees the id bookkeeping differ
            late_dropped += 1
            continue
        if e[0] == 'register':
            registered.add(e[1])
        elif e[0] == 'recv':
            if e[2] not in registered:
                add('unmatched-response', f'response for request id {e[2]} was read before the id was registered in `active`')
            registered.discard(e[2])
        elif e[0] == 'unmatched':
            add('unmatched-response', f'`active.pop({e[1]})`: id not registered')
    for msg in rep.get('errors', []):
        if msg.startswith('client task') or msg.startswith('server:'):
            add('task-died', msg)
        elif msg.startswith('harness/client') or msg.startswith('stream:'):
            add('client-error', msg)
    if rep.get('left_active') or rep.get('left_pending'):
        if not any(m['rule'] in ('no-response', 'task-died') for m in mon):
            add('leftover', f'after all requests returned: active={rep.get("left_active")} pending={rep.get("left_pending")}')
    # compact events for evidence/distinctness: drop digests and ids
    res = dict(monitors=mon, events=_shape(ev), raw_events=ev, results=results, stream_out=so,
               wall=rep.get('wall'), timing=rep.get('timing'), errors=rep.get('errors', []),
               reordered=_reordered(ev), drain_windows=_drain_windows(ev), nrecv=sum(1 for e in _shape(ev) if e[0] == 'recv'),
               server_stopped=rep.get('server_stopped'), digests=dig, late_dropped=late_dropped,
               abandoned=sum(1 for v in results.values() if v == ['abandoned']), shutdown_problem=rep.get('shutdown_problem'))
    return res


def _shape(ev):
    """schedule shape: event kinds with request numbers, ids replaced by first-seen indices"""
    ids = {}
    out = []
    for e in ev:
        if e[0] == 'end-trace':
            break
        if e[0] in ('send', 'srvRecv', 'respond', 'recv'):
            out.append((e[0], ids.setdefault(e[2], len(ids))))
        elif e[0] in ('hstart', 'finish', 'submit'):
            out.append((e[0], e[1]))
        elif e[0] == 'syield':
            out.append((e[0], e[1]))
    return out


def _drain_windows(ev):
    """sends after which other events were logged before the id was registered (the drain yielded)"""
    n = 0
    open_send = {}
    for i, e in enumerate(ev):
        if e[0] == 'send':
            open_send[e[2]] = i
        elif e[0] == 'register':
            j = open_send.pop(e[1], None)
            if j is not None and i - j > 1:
                n += 1
    return n


def _reordered(ev):
    """number of handler completions that overtook an earlier-started handler"""
    order = [e[1] for e in ev if e[0] == 'hstart']
    pos = {k: i for i, k in enumerate(order)}
    fin = [pos[e[1]] for e in ev if e[0] == 'finish' and e[1] in pos]
    return sum(1 for i in range(1, len(fin)) if fin[i] < max(fin[:i]))


def eval_pipe(case, rep):
    mon = []

    def add(rule, detail):
        mon.append(dict(prop='C18', rule=rule, detail=detail[:600]))

    srv, cli = rep.get('server', {}), rep.get('client', {})
    for a, b, name in ((srv, cli, 'server->client'), (cli, srv, 'client->server')):
        sent, got = a.get('sent', []), b.get('got', [])
        if sent != got:
            if sorted(sent) == sorted(got):
                add('pipe-order', f'{name}: objects arrived out of order')
            elif len(got) < len(sent) and got == sent[:len(got)]:
                add('pipe-missing', f'{name}: {len(got)} of {len(sent)} objects arrived; errors {a.get("errors")} {b.get("errors")}')
            else:
                k = next((i for i, (x, y) in enumerate(zip(sent, got)) if x != y), min(len(sent), len(got)))
                add('pipe-corrupt', f'{name}: object #{k} differs (sent {len(sent)}, got {len(got)})')
    errs = list(rep.get('errors', [])) + list(srv.get('errors', [])) + list(cli.get('errors', []))
    if errs and not mon:
        add('pipe-error', '; '.join(errs))
    n = len(srv.get('sent', [])) + len(cli.get('sent', []))
    return dict(monitors=mon, events=[('pipe', len(srv.get('sent', [])), len(cli.get('sent', [])))], wall=rep.get('wall'), timing=rep.get('timing'),
                nobjects=n, errors=errs, sent=dict(server=srv.get('sent', []), client=cli.get('sent', [])),
                got=dict(server=srv.get('got', []), client=cli.get('got', [])))


def nontrivial(case, res):
    if case['kind'] == 'pipe':
        return res.get('nobjects', 0) >= 2
    return len(case['reqs']) >= 2 and res.get('nrecv', 0) >= 2


# ------------------------------------------------------------------------------------------------
# the trace as actions of the model `Mux`
# ------------------------------------------------------------------------------------------------

def _resp(s, k_hint=None, dig=None):
    """response summary -> model value: the handler model is `x -> err x | ok x`.  A raw (top-level) response
    carries no request number: it stands for the request whose body has that digest (the expected one first)."""
    if s and s[0] == 'ok' and isinstance(s[1], int):
        return f'ok{s[1]}'
    if s and s[0] == 'err' and isinstance(s[1], int):
        return f'err{s[1]}'
    if s and s[0] == 'raw' and dig:
        if k_hint is not None and dig.get(k_hint) == s[1]:
            return f'ok{k_hint}'
        for k, d in dig.items():
            if d == s[1]:
                return f'ok{k}'
    return 'garbage'


def model_lines(cid, case, res):
    if case['kind'] != 'sock' or case['mode'] != 'thread':
        return []
    reqs = case['reqs']
    errs = ','.join(str(k) for k, r in enumerate(reqs) if r['err'])
    # srv = the task the responder has taken off `reqs` and is awaiting + the slots of `reqs` + the record whose
    # `reqs.put` is blocked; pend = client backlog
    lines = [f'case {cid} nconn={case["nconn"]} errs={errs} srv={(case.get("srv_backlog") or 256) + 2} pend=2048']
    cconn = {}          # client socket fileno -> connection index
    sconn = {}          # server socket fileno -> connection index
    rid_conn = {}       # request id -> connection it was last sent on
    rid_fut = {}        # request id -> index of the future (creation order) it currently names
    srvq = {}           # connection -> list of request numbers queued at the server
    nfut = 0
    stream_k = {k for k, r in enumerate(reqs) if r['via'] == 'stream'}
    fut_of_k = {}
    nd = lambda k: k if isinstance(k, int) else 999999      # noqa: E731
    dig = {int(k): v for k, v in (res.get('digests') or {}).items()}
    k_of_f = {}
    results = []
    sout = []
    for e in res['raw_events']:
        kind = e[0]
        if kind == 'end-trace':
            break
        if kind == 'submit':
            k, rid = e[1], e[2]
            lines.append(f'a {"ssubmit" if k in stream_k else "submit"} {nd(k)} {rid}')
            rid_fut[rid] = nfut
            fut_of_k[k] = nfut
            k_of_f[nfut] = k
            nfut += 1
        elif kind == 'send':
            ci = cconn.setdefault(e[1], len(cconn))
            rid_conn[e[2]] = ci
            lines.append(f'a send {ci} {nd(e[3])}')
        elif kind == 'srvRecv':
            ci = sconn.setdefault(e[1], rid_conn.get(e[2], 99))
            srvq.setdefault(ci, []).append(e[3])
            lines.append(f'a srvRecv {ci} {nd(e[3])}')
        elif kind == 'finish':
            hit = [(ci, q.index(e[1])) for ci, q in srvq.items() if e[1] in q]
            ci, j = hit[0] if hit else (99, 0)
            lines.append(f'a finish {ci} {j}')
        elif kind == 'respond':
            ci = sconn.get(e[1], 99)
            if srvq.get(ci):
                srvq[ci].pop(0)
            lines.append(f'a respond {ci}')
        elif kind == 'recv':
            ci = cconn.get(e[1], 99)
            f = rid_fut.get(e[2], 999999)
            lines.append(f'a recv {ci} {f} {_resp(e[3], k_of_f.get(f), dig)}')
        elif kind == 'syield':
            lines.append(f'a syield {nd(e[1])} {_resp(e[2], e[1], dig)}')
            sout.append(f'{nd(e[1])}:{_resp(e[2], e[1], dig)}')
    # final results as the requesters saw them, in the order the futures were set (= recv order)
    order = [ln.split() for ln in lines if ln.startswith('a recv ')]
    k_of_fut = {f: k for k, f in fut_of_k.items()}
    allres = dict(res['results'])
    for x, y in res['stream_out']:
        allres[x] = y
    for w in order:
        f = int(w[3])
        k = k_of_fut.get(f)
        if allres.get(k) == ['abandoned']:
            results.append(f'{f}:{w[4]}')       # nobody read this future: the value it was set to
        else:
            results.append(f'{f}:{_resp(allres.get(k), k, dig)}')
    quiet = int(not res['monitors'])
    lines.append(f'end results={",".join(results) or "-"} sout={",".join(sout) or "-"} quiet={quiet}')
    return lines
