"""
Scenario: `mpservice.streamer.tee` under the deterministic scheduler with LINE-level scheduling
points inside `Fork.__next__` (C10).

One run = `nforks` consumer threads, each iterating one fork of `tee(src, nforks, buffer_size=bs)`
over an instrumented source of `n` elements that ends by exhaustion, by an exception
(`SrcError`) or by `StopRequested`.  Every access of `Fork.__next__` to *shared* state is
observed through objects the harness owns (nothing in /repo is touched):

  source `__next__`            -> pull i / srcEnd / srcExc
  `head.value` get / set       -> hget isNone / hset         (`_tee.SimpleNamespace` shadow)
  `TeeX.next` get / set        -> nget box isNone / nset box new   (`_tee.TeeX` replaced by a subclass)
  `TeeX.n` get / set           -> ncmp box count / inc box newcount   (`box.n += 1` = one ncmp then one inc)
  source lock acquire/release  -> acq ok / rel               (`_tee.threading` shadow)
  box lock acquire/release     -> bacq box / brel box
  window `Queue._put/_get`     -> put box / get box          (`_tee.queue` shadow)
  consumer                     -> call / recv i / stop / exc

Each event is logged at the moment of the access by the thread that performs it, so the event
list is the exact interleaving; each event is exactly one action of the Lean model
(`Model/Tee.lean`), which the driver `drv tee` replays (no internal steps to infer).

Monitors evaluate the C10 statement directly on the run (stream, ending, pull-once, look-ahead,
hang, lock released).  Must be imported only after `detsched.install()`.
"""
import queue as _queue
import random
import threading
from types import SimpleNamespace

import detsched
import linesched

import mpservice.streamer._tee as T
from mpservice._common import StopRequested

MODEL = 'tee'
BASE = 100  # element i is the value BASE + i


class DataErr(Exception):
    """an exception OBJECT that is an ordinary element of the source (e.g. what parmap(return_exceptions=True) yields)"""
    def __init__(self, i):
        super().__init__(i)
        self.i = i


class SrcError(Exception):
    pass


# ----------------------------------------------------------------------------------------------
# instrumentation (installed once per worker process; logs go to the current run's context)
# ----------------------------------------------------------------------------------------------

class _Ctx:
    def __init__(self):
        self.ev = []
        self.nboxes = 0
        self.nlocks = 0
        self.src_lock = None
        self.viol = []


CTX = None


def _fork():
    me = detsched.SCHED.me()
    if me is None:
        return -1
    name = me.name
    if name.startswith('fork'):
        return int(name[4:])
    return -1


def _log(*e):
    # nothing is recorded while a hung run is being unwound (primitives return spuriously then)
    if CTX is not None and not detsched.SCHED.aborting:
        CTX.ev.append(e)


_BaseLock = detsched.Lock
_OrigTeeX = T.TeeX
_next_slot = _OrigTeeX.next
_n_slot = _OrigTeeX.n


class LLock(_BaseLock):
    def __init__(self):
        super().__init__()
        self.tag = None
        if CTX is not None:
            if CTX.nlocks == 0:
                self.tag = ('src',)
                CTX.src_lock = self
            CTX.nlocks += 1

    def acquire(self, blocking=True, timeout=-1):
        ok = _BaseLock.acquire(self, blocking, timeout)
        if self.tag == ('src',):
            _log('acq', _fork(), int(bool(ok)))
        elif self.tag is not None and ok:
            _log('bacq', _fork(), self.tag[1])
        return ok

    def release(self):
        if self.tag == ('src',):
            _log('rel', _fork())
        elif self.tag is not None:
            _log('brel', _fork(), self.tag[1])
        _BaseLock.release(self)

    def __enter__(self):
        return self.acquire()

    def __exit__(self, *a):
        self.release()


class LTeeX(_OrigTeeX):
    __slots__ = ('bid',)

    def __init__(self, x, /, *a, **kw):
        self.bid = CTX.nboxes
        CTX.nboxes += 1
        super().__init__(x, *a, **kw)
        if isinstance(self.lock, LLock):
            self.lock.tag = ('box', self.bid)

    def _gnext(self):
        v = _next_slot.__get__(self)
        _log('nget', _fork(), self.bid, int(v is None))
        return v

    def _snext(self, v):
        _next_slot.__set__(self, v)
        if v is not None:
            _log('nset', _fork(), self.bid, getattr(v, 'bid', -1))

    next = property(_gnext, _snext)

    def _gn(self):
        v = _n_slot.__get__(self)
        _log('ncmp', _fork(), self.bid, v)
        return v

    def _sn(self, v):
        _n_slot.__set__(self, v)
        if v != 0:
            _log('inc', _fork(), self.bid, v)

    n = property(_gn, _sn)


class LHead:
    """stands in for the `SimpleNamespace` that holds the first element"""

    def __init__(self):
        object.__setattr__(self, '_v', None)

    @property
    def value(self):
        v = self._v
        _log('hget', _fork(), int(v is None))
        return v

    @value.setter
    def value(self, v):
        object.__setattr__(self, '_v', v)
        if v is not None:
            _log('hset', _fork())


class LQueue(_queue.Queue):
    def _put(self, item):
        _log('put', _fork(), getattr(item, 'bid', -1))
        super()._put(item)

    def _get(self):
        item = super()._get()
        _log('get', _fork(), getattr(item, 'bid', -1))
        return item


_INSTALLED = False


def _install():
    global _INSTALLED
    if _INSTALLED:
        return
    _INSTALLED = True
    T.TeeX = LTeeX
    T.SimpleNamespace = LHead
    T.threading = SimpleNamespace(Lock=LLock)
    T.queue = SimpleNamespace(Queue=LQueue, Empty=_queue.Empty, Full=_queue.Full)
    linesched.enable([T.Fork.__next__])


# ----------------------------------------------------------------------------------------------
# cases
# ----------------------------------------------------------------------------------------------

CHOOSERS = [('random',), ('sticky', 0.2), ('sticky', 0.05), ('sticky', 0.02), ('pct', 2, 400), ('pct', 3, 400)]


def gen_case(rng: random.Random, tier: str, bias: str = ''):
    big = tier == 'thorough'
    nforks = rng.choice([2, 2, 2, 3] if not big else [2, 2, 3, 3, 4])
    bs = rng.choice([2, 2, 3] if not big else [2, 2, 3, 4, 5])
    kind = rng.random()
    if kind < 0.2:
        n = rng.choice([0, 0, 1, 1, 2])                      # boundary lengths
    elif kind < 0.75:
        n = bs + rng.choice([1, 2, 3, 4])                    # longer than the window
    else:
        n = rng.choice([2, 3, 4, 5, 6, 7, 8] if not big else [3, 5, 8, 12, 20])
    src = rng.choice(['clean'] * 5 + ['exc'] * 3 + ['stopreq'])
    if bias == 'fail':
        src = rng.choice(['exc', 'exc', 'stopreq'])
    ch = rng.choice(CHOOSERS + ([('sticky', 0.05), ('sticky', 0.02)] if bias == 'wedge' else []))
    early = rng.choice([0.0, 0.0, 0.02, 0.1])
    # some elements are exception objects (data, not failures): instances of an own class, of the class the source
    # fails with, and of StopRequested
    excvals = sorted({rng.randrange(n) for _ in range(rng.choice([1, 2]))}) if n and rng.random() < 0.25 else []
    return dict(nforks=nforks, bs=bs, n=n, src=src, line=rng.random() < 0.8, excvals=excvals,
                chooser=list(ch) + [early], seed=rng.randrange(1 << 30))


def preempt_chooser(plan, order='low'):
    """Bounded-preemption schedules: run the current thread as long as it can run; when it cannot, the
    lowest-id (order='low') or highest-id ('high') enabled thread; plus the forced context switches of
    `plan = [[k, r], ...]`: at the k-th scheduling decision switch to the r-th other enabled thread."""
    plan = {int(k): int(r) for k, r in plan}
    st = {'k': 0}

    def choose(s, enabled, me):
        k = st['k']
        st['k'] += 1
        if k in plan:
            others = [t for t in enabled if t is not me]
            if others:
                return others[plan[k] % len(others)]
        if me in enabled:
            return me
        return enabled[0] if order == 'low' else enabled[-1]
    return choose


# scheduling decisions of the non-preemptive run (measured; larger values only repeat the base run)
def _decisions(nforks, n):
    return 30 + nforks * 24 * (n + 1)


def enum_cases(nforks, bs, n, src, depth, rng=None, limit=None):
    """all schedules with exactly `depth` forced preemptions (depth 1: all positions x both default
    orders; depth 2: all pairs, or `limit` random pairs) for one small configuration"""
    L = _decisions(nforks, n)
    out = []
    base = dict(nforks=nforks, bs=bs, n=n, src=src, line=True, seed=0)
    if depth == 0:
        return [dict(base, chooser=['preempt', [], o]) for o in ('low', 'high')]
    if depth == 1:
        for o in ('low', 'high'):
            for k in range(L):
                for r in range(nforks - 1):
                    out.append(dict(base, chooser=['preempt', [[k, r]], o]))
        return out
    pairs = [(a, b) for a in range(L) for b in range(a + 1, L)]
    if limit is not None and len(pairs) > limit:
        pairs = rng.sample(pairs, limit)
    for (a, b) in pairs:
        o = 'low' if rng is None else rng.choice(['low', 'high'])
        out.append(dict(base, chooser=['preempt', [[a, 0], [b, 0 if rng is None else rng.randrange(max(1, nforks - 1))]], o]))
    return out


def boundary_cases():
    """fixed corpus: every ending x lengths 0, 1, window, window+3 x 2/3 forks x a few schedules"""
    out = []
    k = 0
    for nforks in (2, 3):
        for bs in (2, 3):
            for n in (0, 1, bs, bs + 3):
                for src in ('clean', 'exc', 'stopreq'):
                    for ch in (['sticky', 0.05, 0.0], ['random', 0.05], ['sticky', 0.02, 0.02]):
                        k += 1
                        out.append(dict(nforks=nforks, bs=bs, n=n, src=src, line=True, chooser=ch, seed=7919 * k))
    return out


def nontrivial(case, res):
    return case['nforks'] >= 2 and case['n'] >= 2 and res.get('switches', 0) >= 1


def expected(case):
    """C10 statement from the case alone: every fork receives all n elements in order and ends
    the way the source ended."""
    end = {'clean': ['stop'], 'exc': ['exc', 'SrcError'], 'stopreq': ['exc', 'StopRequested']}[case['src']]
    return list(range(case['n'])), end


# ----------------------------------------------------------------------------------------------
# one run
# ----------------------------------------------------------------------------------------------

def run_case(case):
    global CTX
    _install()
    linesched.set_active(case.get('line', True))
    ctx = CTX = _Ctx()
    n, nforks, bs = case['n'], case['nforks'], case['bs']
    st = {'pulled': 0, 'recv': [0] * nforks, 'inside': 0, 'dead': False, 'max_ahead': 0, 'i': 0,
          'exc_obj': None}
    viol = ctx.viol
    excvals = set(case.get('excvals') or [])
    datum = {i: [DataErr(i), SrcError(i), StopRequested(i)][k % 3] for k, i in enumerate(sorted(excvals))}

    def _idx(v):
        if isinstance(v, int):
            return v - BASE
        for i, d in datum.items():
            if v is d:
                return i
        return -1

    class Src:
        def __iter__(self):
            return self

        def __next__(self):
            f = _fork()
            st['inside'] += 1
            try:
                if st['inside'] > 1:
                    viol.append(('concurrent-pull', f'fork {f} entered next(source) while another fork is inside it'))
                detsched.yield_here('src')
                if st['dead']:
                    viol.append(('repull-after-failure', f'fork {f} pulled the source again after it had raised'))
                    _log('srcEnd', f)
                    raise StopIteration
                if st['i'] < n:
                    i = st['i']
                    st['i'] += 1
                    st['pulled'] += 1
                    ahead = st['pulled'] - min(st['recv'])
                    if ahead > st['max_ahead']:
                        st['max_ahead'] = ahead
                    _log('pull', f, i)
                    if i in excvals:
                        return datum[i]
                    return BASE + i
                if case['src'] == 'clean':
                    _log('srcEnd', f)
                    raise StopIteration
                _log('srcExc', f)
                st['dead'] = True
                e = SrcError('src') if case['src'] == 'exc' else StopRequested()
                st['exc_obj'] = e
                raise e
            finally:
                st['inside'] -= 1

    outs = [[] for _ in range(nforks)]
    ends = [None] * nforks

    def lock_owner_is_me():
        lk = ctx.src_lock
        return lk is not None and lk._owner is detsched.SCHED.me()

    def consume(i, it):
        while True:
            _log('call', i)
            try:
                v = next(it)
            except StopIteration:
                _log('stop', i)
                ends[i] = ['stop']
                break
            except (SrcError, StopRequested) as e:
                if any(e is d for d in datum.values()):
                    ends[i] = ['error', 'a DATA element that is an exception object was RAISED: ' + repr(e)[:100]]
                    break
                _log('exc', i)
                ends[i] = ['exc', type(e).__name__] + ([] if e is st['exc_obj'] else ['not-the-source-exception-object'])
                break
            except Exception as e:  # anything else the fork raised
                if detsched.SCHED.aborting:
                    # artefact of unwinding a hung run (an `Abort` passing through `with cond:`)
                    raise detsched.Abort()
                ends[i] = ['error', repr(e)[:200]]
                break
            outs[i].append(v)
            st['recv'][i] += 1
            _log('recv', i, _idx(v))
        if lock_owner_is_me():
            viol.append(('lock-released', f'fork {i} ended ({ends[i]}) still holding the source lock'))

    def main():
        forks = T.tee(Src(), nforks, buffer_size=bs)
        its = [iter(f) for f in forks]
        ts = [threading.Thread(target=consume, args=(i, its[i]), name=f'fork{i}') for i in range(nforks)]
        for t in ts:
            t.start()
        for t in ts:
            t.join()
        lk = ctx.src_lock
        return lk is not None and lk.locked()

    if case['chooser'][0] == 'preempt':
        chooser = preempt_chooser(case['chooser'][1], case['chooser'][2] if len(case['chooser']) > 2 else 'low')
    else:
        chooser = detsched.make_chooser(tuple(case['chooser']), case['seed'])
    try:
        v, e, s = detsched.run(main, chooser, max_steps=case.get('max_steps', 12000))
    finally:
        CTX = None
    if e is None and s.deadlock_info:
        # the scheduler found a deadlock / ran out of steps, but the unwinding let main() return
        e = detsched.Deadlock(s.deadlock_info)
    evs = [list(x) for x in ctx.ev]
    if e is not None and len(evs) > 700:
        evs = evs[:700]          # a hung run spins; the prefix is what gets validated and stored
    res = dict(events=evs, steps=s.steps, switches=s.switches,
               trace=s.trace if case.get('keep_trace') else None, max_ahead=st['max_ahead'],
               outs=[[_idx(x) if _idx(x) >= 0 else repr(x) for x in o] for o in outs], ends=ends,
               monitors=[], completed=e is None)
    mon = res['monitors']
    exp_out, exp_end = expected(case)
    if e is not None:
        if isinstance(e, detsched.Deadlock):
            info = e.args[0] if e.args else None
            res['deadlock'] = info
            kind = 'endless timed-retry spin (max_steps)' if info == 'max_steps' else f'deadlock: {info}'
            mon.append(dict(prop='C10', rule='hang', detail=f'{kind}; received so far {res["outs"]}, ends {ends}'))
        else:
            res['error'] = repr(e)
            mon.append(dict(prop='C10', rule='unexpected-exception', detail=repr(e)[:300]))
    else:
        for i in range(nforks):
            if res['outs'][i] != exp_out:
                mon.append(dict(prop='C10', rule='stream', detail=f'fork {i} received {res["outs"][i]}, source yielded {exp_out}'))
            if ends[i] != exp_end:
                mon.append(dict(prop='C10', rule='ending', detail=f'fork {i} ended {ends[i]}, source ended {exp_end}'))
        if v:
            mon.append(dict(prop='C10', rule='lock-released', detail='source lock still held after every fork has ended'))
    # prefix property holds at every moment, also in runs that hang
    for i in range(nforks):
        if res['outs'][i] != exp_out[:len(res['outs'][i])]:
            mon.append(dict(prop='C10', rule='stream', detail=f'fork {i} received {res["outs"][i]}: not a prefix of {exp_out}'))
    for rule, detail in viol:
        mon.append(dict(prop='C10', rule=rule, detail=detail))
    pulls = [x[2] for x in ctx.ev if x[0] == 'pull']
    if pulls != list(range(len(pulls))):
        mon.append(dict(prop='C10', rule='pull-once', detail=f'pull sequence {pulls}'))
    if st['max_ahead'] > bs + 2:
        mon.append(dict(prop='C10', rule='lookahead', detail=f'{st["max_ahead"]} elements pulled beyond the slowest fork > buffer_size+2 = {bs + 2}'))
    # the window is popped by the last fork to consume the element, and only then
    cnt = {}
    for x in ctx.ev:
        if x[0] == 'inc':
            cnt[x[2]] = x[3]
        elif x[0] == 'get' and cnt.get(x[2], 0) != nforks:
            mon.append(dict(prop='C10', rule='window-pop', detail=f'element box {x[2]} popped with count {cnt.get(x[2], 0)} of {nforks}'))
    # de-duplicate
    seen = set()
    res['monitors'] = [m for m in mon if not ((m['rule'], m['detail']) in seen or seen.add((m['rule'], m['detail'])))]
    return res


def model_lines(cid, case, res):
    fail = 0 if case['src'] == 'clean' else 1
    lines = [f'case {cid} forks={case["nforks"]} bs={case["bs"]} len={case["n"]} fail={fail}']
    for e in res['events']:
        lines.append('e ' + ' '.join(str(x) for x in e))
    if not res.get('completed'):
        lines.append('end partial=1')
        return lines
    fins = ','.join((e or ['none'])[0] for e in res['ends'])
    outs = ','.join(str(len(o)) for o in res['outs'])
    lines.append(f'end final=1 outs={outs} fins={fins}')
    return lines
