"""
Child process of the E4 scenarios of C18 (harness/scen_sock.py): runs ONE case on the real
`mpservice.socket` server + client (unix socket) or the real `mpservice.pipe`, in its own session,
and prints one JSON report.  Never decides anything: the parent evaluates monitors and feeds the
event trace to the Lean driver.

    python sock_child.py <repo-src> <out-file>            case JSON on stdin
    python sock_child.py <repo-src> --server <sockpath>   (mode 'proc': the server process)
    python sock_child.py <repo-src> --pipe-peer <path>    (pipe scenario: the Client side), plan on stdin

Observation is from the harness side only: `write_record` / `read_record` are looked up in the module
globals of mpservice.socket by the client and server coroutines, so shadows there see every record;
`client._active_requests` is replaced by a logging dict before the connections start; the `put` of
`client._pending_requests` is wrapped.  Nothing in /repo is touched.
"""
import asyncio
import concurrent.futures
import hashlib
import json
import os
import shutil
import subprocess
import sys
import tempfile
import threading
import time
import traceback

REPO_SRC = sys.argv[1]
sys.path.insert(0, REPO_SRC)
sys.path.insert(0, os.path.dirname(os.path.abspath(__file__)))

import mpservice.socket as S  # noqa: E402
from sock_common import HandlerError, canon_digest, handle, handle_plain  # noqa: E402
import sock_common  # noqa: E402

LOG = sock_common.LOG
log = sock_common.log
HANG = float(os.environ.get('VERIF_C18_HANG', '20'))


def _fileno_w(writer):
    try:
        return writer.get_extra_info('socket').fileno()
    except Exception:
        return -1


def _fileno_r(reader):
    try:
        return reader._transport.get_extra_info('socket').fileno()
    except Exception:
        return -1


def summarize(data):
    """canonical, JSON-able summary of a response object"""
    if isinstance(data, HandlerError):
        return ['err', data.args[0] if data.args else None, data.args[1] if len(data.args) > 1 else None]
    if isinstance(data, S.RemoteException):
        e = data.exc
        if isinstance(e, HandlerError):
            return ['err', e.args[0] if e.args else None, e.args[1] if len(e.args) > 1 else None]
        return ['exc', type(e).__name__, repr(e)[:200]]
    if isinstance(data, BaseException):
        return ['exc', type(data).__name__, repr(data)[:200]]
    if isinstance(data, dict) and 'k' in data and 'digest' in data:
        return ['ok', data['k'], data['digest'], canon_digest(data.get('echo')) if data.get('echo') is not None else None]
    if data is None:
        return ['none']
    # a top-level (raw) response: identified by its content digest
    return ['raw', canon_digest(data)]


def install_spies(srv_tid_box):
    orig_w, orig_r = S.write_record, S.read_record

    async def write_record(writer, request_id, data, *, encoder='pickle'):
        if threading.get_ident() == srv_tid_box[0]:
            log('respond', _fileno_w(writer), str(request_id), summarize(data))
        else:
            k = data[1]['k'] if isinstance(data, tuple) and isinstance(data[1], dict) else None
            log('send', _fileno_w(writer), str(request_id), k)
        return await orig_w(writer, request_id, data, encoder=encoder)

    async def read_record(reader, *, timeout=None):
        rid, data = await orig_r(reader, timeout=timeout)
        if threading.get_ident() == srv_tid_box[0]:
            pl = data[1] if isinstance(data, tuple) and len(data) == 2 else None
            k = pl.get('k') if isinstance(pl, dict) else None
            log('srvRecv', _fileno_r(reader), str(rid), k)
        else:
            log('recv', _fileno_r(reader), str(rid), summarize(data))
        return rid, data

    S.write_record = write_record
    S.read_record = read_record


class LoggingDict(dict):
    def __setitem__(self, key, value):
        log('register', str(key))
        super().__setitem__(key, value)

    def pop(self, key, *a):
        if key not in self:
            log('unmatched', str(key))
        return super().pop(key, *a)


def run_sock(case):
    from scen_frame import make_payload
    rep = dict(results={}, stream_out=[], errors=[], timing={})
    tmpd = tempfile.mkdtemp(prefix='verif-c18-')
    path = os.path.join(tmpd, 's')
    srv_tid = [None]
    server_proc = None
    srv_thread = None
    t_start = time.time()
    bodies = {}
    try:
        reqs = case['reqs']
        for k, r in enumerate(reqs):
            bodies[k] = make_payload(r['pl'])
        rep['digests'] = {k: canon_digest(b) for k, b in bodies.items()}

        def payload(k):
            r = reqs[k]
            return {'k': k, 'lat': r['lat'], 'err': ('call' if r['err'] and r.get('route') == '/p' else r['err']), 'echo': r['echo'],
                    'raw': bool(r.get('raw')), 'body': bodies[k]}

        if case['mode'] == 'thread':
            install_spies(srv_tid)
            app = S.SocketApplication()
            app.add_route('/', handle)
            app.add_route('/p', handle_plain)
            server = S.make_server(app, path=path, backlog=case.get('srv_backlog'))

            def srv_main():
                srv_tid[0] = threading.get_ident()
                try:
                    asyncio.run(server.serve())
                except BaseException as e:   # noqa
                    rep['errors'].append('server: ' + repr(e))

            srv_thread = threading.Thread(target=srv_main, daemon=True)
            srv_thread.start()
            while srv_tid[0] is None:
                time.sleep(0.001)
        else:
            install_spies(srv_tid)    # client side only (srv_tid stays None)
            server_proc = subprocess.Popen([sys.executable, os.path.abspath(__file__), REPO_SRC, '--server', path,
                                            str(case.get('srv_backlog') or 0)],
                                           stdout=subprocess.DEVNULL, stderr=subprocess.DEVNULL, stdin=subprocess.DEVNULL)

        client = S.SocketClient(path=path, num_connections=case['nconn'], connection_timeout=20)
        client._active_requests = LoggingDict()
        client._shutdown_timeout = 1.5
        with client:
            q = client._pending_requests
            orig_put = q.put
            plock = threading.Lock()

            def put(item, *a, **kw):
                with plock:
                    try:
                        x, fut = item
                        k = x[1]['k'] if isinstance(x[1], dict) else None
                        log('submit', k, str(id(fut)), threading.current_thread().name)
                    except Exception:
                        pass
                    return orig_put(item, *a, **kw)

            q.put = put
            rep['timing']['connected'] = round(time.time() - t_start, 3)

            hung = []

            def requester(ks):
                for k in ks:
                    try:
                        ab = reqs[k].get('abandon')
                        try:
                            # once a request has run into the hang bound the transport is broken: the remaining
                            # requests get a short bound, so that the case still reports in time
                            y = client.request(reqs[k].get('route', '/'), payload(k), response_timeout=(ab / 1000 if ab else (1.0 if hung else HANG)))
                        except concurrent.futures.TimeoutError:
                            if not ab:
                                hung.append(k)
                                raise
                            rep['results'][k] = ['abandoned']
                            continue
                        rep['results'][k] = summarize(y)
                    except BaseException as e:  # noqa
                        rep['results'][k] = summarize(e) if isinstance(e, HandlerError) else \
                            ['raised', type(e).__name__, repr(e)[:200]]

            nthreads = case['nthreads']
            direct = [k for k, r in enumerate(reqs) if r['via'] == 'req']
            streamed = [k for k, r in enumerate(reqs) if r['via'] == 'stream']
            threads = [threading.Thread(target=requester, args=(direct[i::nthreads],), name=f'rq{i}', daemon=True)
                       for i in range(nthreads)]
            for t in threads:
                t.start()
            if streamed:
                try:
                    gen = client.stream('/', (payload(k) for k in streamed), return_x=True, return_exceptions=True,
                                        response_timeout=HANG, enqueue_timeout=HANG)
                    for x, y in gen:
                        s = summarize(y) if not isinstance(y, BaseException) or isinstance(y, HandlerError) else \
                            ['raised', type(y).__name__, repr(y)[:200]]
                        log('syield', x.get('k') if isinstance(x, dict) else None, s)
                        rep['stream_out'].append([x.get('k') if isinstance(x, dict) else None, s])
                        if s[0] == 'raised' and 'Timeout' in s[1]:
                            hung.append('stream')      # the transport is broken: do not wait for every further element
                            break
                except BaseException as e:  # noqa
                    rep['errors'].append('stream: ' + ''.join(traceback.format_exception_only(type(e), e))[:300])
            deadline = time.time() + HANG + 10
            for t in threads:
                t.join(max(0.1, deadline - time.time()))
                if t.is_alive():
                    rep['errors'].append(f'requester {t.name} still blocked after the hang bound')
            if any(r.get('abandon') for r in reqs):
                # the late responses of abandoned requests are still on their way
                while client._active_requests and time.time() < deadline and not any(t.done() for t in client._tasks):
                    time.sleep(0.01)
            log('end-trace')
            rep['timing']['done'] = round(time.time() - t_start, 3)
            rep['left_active'] = len(client._active_requests)
            rep['left_pending'] = client._pending_requests.qsize()
            # client tasks that died (e.g. KeyError in _keep_receiving) show up here
            for t in client._tasks:
                if t.done() and t.exception() is not None:
                    rep['errors'].append('client task: ' + repr(t.exception())[:300])
            try:
                # the answer to '/shutdown' itself can get lost (race in the server's shutdown path, outside
                # C18, see notes/C18.md observation 4): bounded wait, the server stops either way
                client.request('/shutdown', response_timeout=2)
            except BaseException as e:  # noqa
                rep['shutdown_problem'] = repr(e)[:200]
        for t in client._tasks:
            if t.done() and t.exception() is not None:
                msg = 'client task: ' + repr(t.exception())[:300]
                if msg not in rep['errors']:
                    rep['errors'].append(msg)
        if srv_thread is not None:
            srv_thread.join(5)
            rep['server_stopped'] = not srv_thread.is_alive()
        if server_proc is not None:
            try:
                server_proc.wait(5)
                rep['server_stopped'] = True
            except subprocess.TimeoutExpired:
                rep['server_stopped'] = False
    except BaseException as e:  # noqa
        rep['errors'].append('harness/client: ' + ''.join(traceback.format_exception(type(e), e, e.__traceback__))[-1500:])
    finally:
        if server_proc is not None and server_proc.poll() is None:
            server_proc.kill()
        shutil.rmtree(tmpd, ignore_errors=True)
    rep['timing']['total'] = round(time.time() - t_start, 3)
    rep['events'] = [list(e) for e in LOG]
    return rep


def run_server(path, backlog):
    app = S.SocketApplication()
    app.add_route('/', handle)
    app.add_route('/p', handle_plain)
    server = S.make_server(app, path=path, backlog=backlog or None)
    asyncio.run(server.serve())


# ------------------------------------------------------------------------------------------------
# named pipe
# ------------------------------------------------------------------------------------------------

def pipe_side(role, path, plan, rep, keep):
    """send my objects (a thread) while receiving the peer's; records digests of what was sent and
    what arrived.  The endpoint is kept alive in `keep`: a FIFO forgets its buffered data when its
    last descriptor is closed, so an endpoint must not be dropped before the peer has read
    everything (lifetime assumption of the scenario, see notes/C18.md)."""
    import mpservice.pipe as P
    from scen_frame import make_payload
    end = (P.Server if role == 'server' else P.Client)(path)
    keep.append(end)
    mine = plan[role]
    theirs = plan['client' if role == 'server' else 'server']
    rep['sent'] = []
    rep['got'] = []
    err = []

    def sender():
        try:
            for spec in mine:
                obj = make_payload(spec['pl'])
                if spec.get('raw'):
                    b = obj if isinstance(obj, (bytes, bytearray)) else repr(obj).encode()
                    end.send_bytes(b)
                    rep['sent'].append(canon_digest(bytes(b)))
                else:
                    end.send(obj)
                    rep['sent'].append(canon_digest(obj))
                if spec.get('pause'):
                    time.sleep(spec['pause'] / 1000.0)
        except BaseException as e:  # noqa
            err.append('send: ' + repr(e)[:200])

    th = threading.Thread(target=sender, daemon=True)
    th.start()
    try:
        for spec in theirs:
            obj = end.recv_bytes() if spec.get('raw') else end.recv()
            rep['got'].append(canon_digest(obj))
    except BaseException as e:  # noqa
        err.append('recv: ' + repr(e)[:200])
    th.join(HANG)
    if th.is_alive():
        err.append('sender still blocked after the hang bound')
    rep['errors'] = err


def run_pipe(case):
    rep = dict(errors=[])
    tmpd = tempfile.mkdtemp(prefix='verif-c18-')
    path = os.path.join(tmpd, 'sub', 'p')
    peer = None
    t0 = time.time()
    try:
        peer_out = os.path.join(tmpd, 'peer.json')
        peer = subprocess.Popen([sys.executable, os.path.abspath(__file__), REPO_SRC, '--pipe-peer', path, peer_out],
                                stdin=subprocess.PIPE, stdout=subprocess.DEVNULL, stderr=subprocess.DEVNULL)
        peer.stdin.write(json.dumps(case['plan']).encode() + b'\n')
        peer.stdin.flush()
        if case.get('server_late'):
            time.sleep(case['server_late'] / 1000.0)
        me = {}
        box = []
        keep = []

        def work():
            try:
                pipe_side('server', path, case['plan'], me, keep)
            except BaseException as e:  # noqa
                box.append(repr(e)[:300])

        th = threading.Thread(target=work, daemon=True)
        th.start()
        th.join(HANG + 5)
        if th.is_alive():
            rep['errors'].append('server side still blocked after the hang bound')
        rep['errors'] += box
        rep['server'] = me
        t1 = time.time()
        while not os.path.exists(peer_out) and time.time() - t1 < HANG and peer.poll() is None:
            time.sleep(0.01)
        try:
            rep['client'] = json.load(open(peer_out))
        except Exception as e:
            rep['errors'].append('client side did not finish: ' + repr(e)[:200])
            rep['client'] = {}
        try:
            peer.stdin.close()        # both sides are done: the peer may drop its endpoint and exit
            peer.wait(5)
        except Exception:
            pass
        del keep[:]
    except BaseException as e:  # noqa
        rep['errors'].append('harness: ' + ''.join(traceback.format_exception(type(e), e, e.__traceback__))[-1200:])
    finally:
        if peer is not None and peer.poll() is None:
            peer.kill()
        shutil.rmtree(tmpd, ignore_errors=True)
    rep['timing'] = dict(total=round(time.time() - t0, 3))
    return rep


def main():
    if len(sys.argv) >= 4 and sys.argv[2] == '--server':
        run_server(sys.argv[3], int(sys.argv[4]) if len(sys.argv) > 4 else 0)
        return
    if len(sys.argv) >= 5 and sys.argv[2] == '--pipe-peer':
        plan = json.loads(sys.stdin.readline())
        rep = {}
        keep = []
        if plan.get('client_late'):
            time.sleep(plan['client_late'] / 1000.0)
        try:
            pipe_side('client', sys.argv[3], plan, rep, keep)
        except BaseException as e:  # noqa
            rep.setdefault('errors', []).append(repr(e)[:300])
        with open(sys.argv[4] + '.tmp', 'w') as f:
            json.dump(rep, f)
        os.replace(sys.argv[4] + '.tmp', sys.argv[4])
        sys.stdin.read()              # keep the endpoint open until the other side is done too
        return
    out = sys.argv[2]
    case = json.load(sys.stdin)
    rep = run_pipe(case) if case['kind'] == 'pipe' else run_sock(case)
    with open(out + '.tmp', 'w') as f:
        json.dump(rep, f, default=str)
    os.replace(out + '.tmp', out)
    sys.stdout.flush()
    os._exit(0)


if __name__ == '__main__':
    main()
