"""Shared by the client side and the server side of the E4 scenarios of C18 (same import path in
both processes, so that the handler's exception class unpickles)."""
import asyncio
import hashlib

LOG = []


def log(*e):
    LOG.append(e)      # list.append is atomic: one total order over all threads of the process


class HandlerError(Exception):
    """raised by the routed handler on request: args = (k, digest of the body it received)"""


def _feed(h, o):
    if isinstance(o, (bytes, bytearray)):
        h.update(b'B%d:' % len(o))
        h.update(o)
    elif isinstance(o, str):
        b = o.encode('utf8', 'surrogatepass')
        h.update(b'S%d:' % len(b))
        h.update(b)
    elif isinstance(o, bool):
        h.update(b'T' if o else b'F')
    elif isinstance(o, int):
        h.update(b'I%d;' % o)
    elif o is None:
        h.update(b'N')
    elif isinstance(o, (list, tuple)):
        h.update(b'L%d[' % len(o) if isinstance(o, list) else b'U%d[' % len(o))
        for x in o:
            _feed(h, x)
        h.update(b']')
    elif isinstance(o, dict):
        h.update(b'D%d{' % len(o))
        for k, v in o.items():       # insertion order is part of the value we sent
            _feed(h, k)
            _feed(h, v)
        h.update(b'}')
    else:
        h.update(b'?' + repr(o).encode())


def canon_digest(o):
    """structure- and content-sensitive digest of a payload object (types, order, every byte)"""
    h = hashlib.sha1()
    _feed(h, o)
    return h.hexdigest()[:20]


def handle_plain(data):
    """a route registered as a PLAIN callable that returns an awaitable (`Callable[[Any], Awaitable]`): it validates
    its argument when it is CALLED, i.e. it can raise before any coroutine exists.  That failure, too, is the
    response to the request that caused it."""
    if isinstance(data, dict) and data.get('err') == 'call':
        k = data.get('k')
        d = canon_digest(data.get('body'))
        log('hstart', k, d)
        log('finish', k)
        raise HandlerError(k, d)
    return handle(data)


async def handle(data):
    """the routed handler: reports what it received, waits `lat` ms, answers or raises"""
    k = data.get('k') if isinstance(data, dict) else None
    d = canon_digest(data.get('body')) if isinstance(data, dict) else canon_digest(data)
    log('hstart', k, d)
    lat = data.get('lat', 0) if isinstance(data, dict) else 0
    if lat:
        await asyncio.sleep(lat / 1000.0)
    else:
        await asyncio.sleep(0)
    log('finish', k)
    if isinstance(data, dict) and data.get('err'):
        raise HandlerError(k, d)
    if isinstance(data, dict) and data.get('raw'):
        # the response is the body itself, at top level (a str incl. lone surrogates, bytes, a nested object):
        # "any picklable response", not only the harness's dict envelope
        return data['body']
    return {'k': k, 'digest': d, 'echo': data['body'] if data.get('echo') else None}
