"""C01 — parallel map is order-preserving and exactly-once.  DESIGN §5 C01."""
import core
import ppar
import scen_fifo
import scen_lane

PROPS = ['Props/C01.lean', 'Props/Lane.lean', 'Legacy/LaneMultiWriter.lean']


def keyfn(case, res, m):
    return f"{m['rule']}:{case['kind']}"


def run(chk):
    chk.audit(PROPS)
    n = 1500 if chk.tier == 'quick' else 40000
    core.e1_flow(chk, 'scen_fifo', 'fifo', {'C01'},
                 lambda rng: scen_fifo.gen_case(rng, chk.tier, rng.choice(['order', 'order', '', 'stop'])),
                 n, keyfn=keyfn)
    # the hand-off queue itself: the real SingleLane, one writer + one reader, against Model/Lane.lean
    core.e1_flow(chk, 'scen_lane', 'lane', {'C01'},
                 lambda rng: scen_lane.gen_case(rng, chk.tier, rng.choice(['order', 'order', '', 'bound'])),
                 800 if chk.tier == 'quick' else 12000, keyfn=keyfn)
    ppar.sample(chk, 'C01', 10 if chk.tier == 'quick' else 200)
    chk.cov['rule'] = ('cases = random (kind, n, cap, conc, flags, failure plan, stop position, service durations, '
                       'chooser, seed) run on the real fifo_stream/Stream.parmap under the deterministic scheduler; '
                       'non-trivial = n >= 2 elements and >= 1 context switch; distinct = distinct (case, event trace); '
                       'plus (scen_lane) random (maxsize 0..3, call sequences of one writer and one reader thread, each call '
                       'blocking / non-blocking / timed, think-time gaps, Condition flavour, chooser with early timer expiry, seed) '
                       'run on the real SingleLane; non-trivial = >= 2 calls and >= 1 context switch')
    chk.trusted += TRUSTED
    chk.assumptions += ASSUMPTIONS


TRUSTED = [
    "SingleLane (mpservice/_queues.py) is no longer assumed: lean/MpsVerif/Model/Lane.lean models it at the granularity of its lock operations, Props/Lane.lean proves FIFO / bound / no underflow / no lost wake-up / outcome table and the refinement to the atomic bounded FIFO that Model/Fifo.lean and Model/Buffer.lean use (single writer + single reader, all maxsize, all interleavings), tied to /repo by trace validation (drv lane) of the real SingleLane over the interpreter's own threading.Condition source on every run. What remains assumed there: threading.Lock is mutually exclusive; Condition.wait atomically queues the waiter and releases the mutex and re-acquires it before returning; notify() wakes at most one waiter that is in the list at that moment and is not remembered otherwise; no spurious wake-ups (CPython's Condition blocks on a private lock that only notify() releases)",
    'Lean 4.33.0 kernel; axioms per theorem as listed in coverage.obligation_list (subset of propext, Classical.choice, Quot.sound)',
    'hand-written model lean/MpsVerif/Model/Fifo.lean, tied to /repo by trace validation (drv fifo, Core.Val.validate_sound) on every run',
    'deterministic scheduler harness/detsched.py (replaces threading primitives, SimpleQueue, clock)',
    'modelled not verified: ThreadPoolExecutor runs <= max_workers calls and cancel() succeeds only before pick-up; Future.result() returns the call\'s own outcome',
    "executor='process': not driven by the scheduler; sampled on real pool processes under the OS schedule (harness/ppar.py, monitors only), otherwise covered by the theorem (the Fifo model does not depend on the kind of executor)",
]
ASSUMPTIONS = [
    'the correspondence was checked on the schedules explored in this run only; the theorems quantify over all schedules of the model',
]


def replay(chk, data):
    import json
    if data['case'].get('kind') == 'ppar':
        mons = ppar.replay_case(chk, data['case'])
        hits = [m for m in mons if m['prop'] == chk.prop]
        print(json.dumps(mons)[:2000])
        if hits:
            print(f'VIOLATION property={chk.prop} replay=(replayed)')
            return 1
        return 0
    res = chk.run_cases('scen_lane' if data['case'].get('kind') in ('lane', 'multi') else 'scen_fifo', [data['case']])
    case, r = res[0]
    hits = [m for m in r['monitors'] if m['prop'] == chk.prop]
    print(json.dumps(dict(monitors=r['monitors'], out=r.get('out'), end=r.get('end')), default=str)[:2000])
    if hits:
        print(f'VIOLATION property={chk.prop} replay=(replayed)')
        return 1
    return 0
