"""C01 — parallel map is order-preserving and exactly-once.  DESIGN §5 C01."""
import core
import ppar
import scen_fifo

PROPS = ['Props/C01.lean']


def keyfn(case, res, m):
    return f"{m['rule']}:{case['kind']}"


def run(chk):
    chk.audit(PROPS)
    n = 1500 if chk.tier == 'quick' else 40000
    core.e1_flow(chk, 'scen_fifo', 'fifo', {'C01'},
                 lambda rng: scen_fifo.gen_case(rng, chk.tier, rng.choice(['order', 'order', '', 'stop'])),
                 n, keyfn=keyfn)
    ppar.sample(chk, 'C01', 10 if chk.tier == 'quick' else 200)
    chk.cov['rule'] = ('cases = random (kind, n, cap, conc, flags, failure plan, stop position, service durations, '
                       'chooser, seed) run on the real fifo_stream/Stream.parmap under the deterministic scheduler; '
                       'non-trivial = n >= 2 elements and >= 1 context switch; distinct = distinct (case, event trace)')
    chk.trusted += TRUSTED
    chk.assumptions += ASSUMPTIONS


TRUSTED = [
    'Lean 4.33.0 kernel; axioms per theorem as listed in coverage.obligation_list (subset of propext, Classical.choice, Quot.sound)',
    'hand-written model lean/MpsVerif/Model/Fifo.lean, tied to /repo by trace validation (drv fifo, Core.Val.validate_sound) on every run',
    'deterministic scheduler harness/detsched.py (replaces threading primitives, SimpleQueue, clock)',
    'modelled not verified: SingleLane is FIFO with maxsize slots; ThreadPoolExecutor runs <= max_workers calls and cancel() succeeds only before pick-up; Future.result() returns the call\'s own outcome',
    "executor='process': not driven by the scheduler; sampled on real pool processes under the OS schedule (harness/ppar.py, monitors only), otherwise covered by the theorem (the Fifo model does not depend on the kind of executor)",
]
ASSUMPTIONS = [
    'the correspondence was checked on the schedules explored in this run only; the theorems quantify over all schedules of the model',
]


def replay(chk, data):
    import json
    if data['case'].get('kind') == 'ppar':
        mons = ppar.replay_case(chk, data['case'])
        hits = [m for m in mons if m['prop'] == chk.prop]
        print(json.dumps(mons)[:2000])
        if hits:
            print(f'VIOLATION property={chk.prop} replay=(replayed)')
            return 1
        return 0
    res = chk.run_cases('scen_fifo', [data['case']])
    case, r = res[0]
    hits = [m for m in r['monitors'] if m['prop'] == chk.prop]
    print(json.dumps(dict(monitors=r['monitors'], out=r.get('out'), end=r.get('end')), default=str)[:2000])
    if hits:
        print(f'VIOLATION property={chk.prop} replay=(replayed)')
        return 1
    return 0
