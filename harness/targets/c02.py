"""C02 — Server answers every request with its own result (no cross-talk).  DESIGN §5 C02 (layer 1:
servlet tree + whole-server tie; the ledger layer is `Model/Ledger.lean`, C06/C07)."""
import core
import scen_servlet

PROPS = ['Props/C02.lean']
PROP = 'C02'


# minimised past failures, always run first (DESIGN §3.4)
CORPUS = [
    # F2 (recycled id(future) crosses results in a fail-fast ensemble): on a tree with commit b6a6afa
    # reverted this exact case gives `request 3 received [(3,1), (1,2)]`
    {"tree": {"k": "e", "ff": True, "ch": [
        {"k": "w", "mark": 1, "bs": 0, "nw": 1, "pre": False, "pf": [], "cf": [1, 2], "bp": [], "wait": 0, "dur": [0, 0, 0, 0]},
        {"k": "w", "mark": 2, "bs": 0, "nw": 2, "pre": False, "pf": [], "cf": [], "bp": [], "wait": 0, "dur": [1, 40, 40, 1]}]},
     "callers": [{"kind": "call", "reqs": [{"r": 1, "delay": 0, "timeout": 1000000.0, "bp": False},
                                           {"r": 2, "delay": 0, "timeout": 1000000.0, "bp": False},
                                           {"r": 3, "delay": 0, "timeout": 1000000.0, "bp": False}]}],
     "nreq": 3, "cap": 8, "adversarial_id": True, "chooser": ["random", 0.05], "seed": 805235840},
]


def keyfn(case, res, m):
    return f"{m['rule']}:{case['tree']['k']}"


def gen(chk, bias=''):
    def g(rng):
        if rng.random() < 0.12:
            return scen_servlet.f2_case(rng)
        return scen_servlet.gen_case(rng, chk.tier, bias)
    return g


def proc_cases(rng, n):
    """small trees with PROCESS servlets (real OS processes, OS schedule): sampled only"""
    out = []
    for _ in range(n):
        nreq = 6
        reqs = list(range(1, nreq + 1))

        def w(mark, **kw):
            d = dict(k='w', mark=mark, bs=rng.choice([0, 0, 1, 3]), nw=rng.choice([1, 2]), pre=rng.random() < 0.5,
                     proc=rng.random() < 0.8)
            d.update(kw)
            d['pf'] = sorted(r for r in reqs if d['pre'] and rng.random() < 0.2)
            # no element-wise failure inside a batch here: the harness's device for it (call RETURNS an
            # exception object in that position) is not a raised failure and does not survive pickling
            d['cf'] = sorted(r for r in reqs if d['bs'] == 0 and rng.random() < 0.25)
            d['bp'] = sorted(r for r in reqs if d['bs'] > 0 and rng.random() < 0.15)
            return d
        shape = rng.choice(['seq', 'ens', 'single', 'sw'])
        if shape == 'seq':
            tree = dict(k='s', ch=[w(1, proc=True), w(2)])
        elif shape == 'ens':
            tree = dict(k='e', ff=rng.random() < 0.5, ch=[w(1, proc=True), w(2)])
        elif shape == 'sw':
            tree = dict(k='x', ch=[w(1, proc=True), w(2)])
        else:
            tree = w(1, proc=True)
        out.append(dict(tree=tree, callers=[reqs[:3], reqs[3:]], nreq=nreq, cap=8))
    # always: a failure raised in an upstream PROCESS stage travels through a later BATCHED process
    # stage (and, in the second case, one more process stage): it must arrive with its original class,
    # still marked remote, with the failure site's traceback text
    reqs = list(range(1, 7))
    base = dict(k='w', nw=1, pre=False, proc=True, pf=[], bp=[])
    s1 = dict(base, mark=1, bs=0, cf=[2, 5])
    s2 = dict(base, mark=2, bs=rng.choice([3, 4]), cf=[])
    s3 = dict(base, mark=3, bs=0, cf=[])
    out.append(dict(tree=dict(k='s', ch=[s1, s2]), callers=[reqs[:3], reqs[3:]], nreq=6, cap=8))
    out.append(dict(tree=dict(k='s', ch=[dict(s1), dict(s2), s3]), callers=[reqs[:3], reqs[3:]], nreq=6, cap=8))
    # ... and through compound servlets whose helper threads forward it between PROCESS queues: a switch of
    # process members (alone, and followed by one more process stage), an ensemble of process members
    m2 = dict(base, mark=2, bs=0, cf=[])
    m3 = dict(base, mark=3, bs=0, cf=[4])
    s4 = dict(base, mark=4, bs=0, cf=[])
    out.append(dict(tree=dict(k='s', ch=[dict(s1), dict(k='x', ch=[dict(m2), dict(m3)])]), callers=[reqs[:3], reqs[3:]], nreq=6, cap=8))
    out.append(dict(tree=dict(k='s', ch=[dict(s1), dict(k='x', ch=[dict(m2), dict(m3)]), s4]), callers=[reqs[:3], reqs[3:]], nreq=6, cap=8))
    out.append(dict(tree=dict(k='s', ch=[dict(s1), dict(k='e', ff=False, ch=[dict(m2), dict(m3)]), dict(s4)]), callers=[reqs[:3], reqs[3:]], nreq=6, cap=8))
    return out


def proc_sample(chk, prop, n, cases=None):
    """E4: run n cases with real worker processes (own session, group killed), compare every outcome
    with the harness reference and with `outs` of the Lean model; C04: the traceback of the failure
    site must survive as text"""
    import json
    import os
    import signal
    import subprocess
    import time
    cases = cases if cases is not None else proc_cases(chk.rng, n)
    env = dict(os.environ, PYTHONPATH=f'{core.HARNESS}:{core.REPO / "src"}')
    lines = []
    done = []
    durs = []
    def launch(case):
        t0 = time.time()
        p = subprocess.Popen(['/venv/bin/python', str(core.HARNESS / 'proc_servlet_run.py'), json.dumps(case)],
                             stdout=subprocess.PIPE, stderr=subprocess.PIPE, text=True, env=env, start_new_session=True)
        bound = 90.0
        try:
            so, se = p.communicate(timeout=bound)
            return so, se, None, time.time() - t0
        except subprocess.TimeoutExpired:
            os.killpg(p.pid, signal.SIGKILL)
            p.communicate()
            return '', '', bound, time.time() - t0
        finally:
            try:
                os.killpg(p.pid, signal.SIGKILL)
            except Exception:  # noqa
                pass

    from concurrent.futures import ThreadPoolExecutor
    with ThreadPoolExecutor(max(2, min(6, chk.workers // 2))) as tp:
        launched = list(tp.map(launch, cases))
    for k, case in enumerate(cases):
        so, se, hung, dt = launched[k]
        if hung:
            chk.violations.append(dict(rule='proc-hang', detail=f'no answer within {hung}s with process servlets',
                                       key=f'proc-hang:{case["tree"]["k"]}', case=case, events=None, size=core._case_size(case)))
            continue
        t0 = time.time() - dt
        durs.append(time.time() - t0)
        m = [l for l in so.splitlines() if l.startswith('RESULT ')]
        if not m:
            raise core.InfraError(f'process sample produced no result: {se[-800:]}')
        r = json.loads(m[-1][7:])
        done.append((case, r))
        lines.append(f'case p{k} ' + ' '.join(scen_servlet.tree_tokens(case['tree'])))
        for req, code in sorted(r['out'].items(), key=lambda kv: int(kv[0])):
            allowed = scen_servlet.py_outs(case['tree'], f'N{req}')
            if code not in allowed and prop == 'C02':
                chk.violations.append(dict(rule='proc-crosstalk', detail=f'process servlets: request {req} received {code}; allowed {sorted(allowed)}',
                                           key=f'proc-crosstalk:{case["tree"]["k"]}', case=case, events=None, size=core._case_size(case)))
            if code not in allowed and prop == 'C04' and code.startswith('E'):
                chk.violations.append(dict(rule='proc-foreign-exception', detail=f'process servlets: request {req} received {code}; allowed {sorted(allowed)}',
                                           key=f'proc-foreign-exception:{case["tree"]["k"]}', case=case, events=None, size=core._case_size(case)))
            lines.append(f'out {req} {code}')
        if prop == 'C04':
            for req, verdict in r['tbs'].items():
                if verdict:
                    chk.violations.append(dict(rule='proc-traceback', detail=f'request {req}: {verdict}',
                                               key=f'proc-traceback:{case["tree"]["k"]}', case=case, events=None, size=core._case_size(case)))
        lines.append('end')
    verdicts = {l.split(' ', 2)[1]: l for l in core.run_driver('servlet', lines) if l.split(' ', 1)[0] in ('ok', 'MISMATCH', 'REJECT')}
    nok = 0
    for k, (case, r) in enumerate(done):
        kk = [i for i, c in enumerate(cases) if c is case][0]
        v = verdicts.get(f'p{kk}')
        if v and v.startswith('ok'):
            nok += 1
        else:
            chk.corr_breaks.append(dict(model='servlet', case=case, verdict=v or 'no answer from the driver', events=None))
    chk.cov['evaluations'] += len(done)
    chk.cov['traces_validated_against_impl'] += nok
    if 'E4-processes(sampled)' not in chk.cov['engines']:
        chk.cov['engines'].append('E4-processes(sampled)')
    chk.cov['distribution']['process_cases'] = len(done)
    chk.cov['distribution']['process_exception_outcomes'] = sum(1 for _c, r in done for c in r['out'].values() if c.startswith('E'))


def run(chk, prop=PROP, props=PROPS, bias=''):
    chk.audit(props)
    n = 900 if chk.tier == "quick" else 30000
    results = core.e1_flow(chk, 'scen_servlet', 'servlet', {prop}, gen(chk, bias), n, keyfn=keyfn,
                           corpus=CORPUS)
    dist = {}
    for case, res in results:
        k = case['tree']['k']
        dist[k] = dist.get(k, 0) + 1
    kinds = {}
    depth = {}
    for case, res in results:
        for _r, outs in (res.get('outcomes') or {}).items():
            for o in outs:
                if o[0] != 'val':
                    k = o[0]
                elif o[1].startswith('E0:'):
                    k = 'EnsembleError'
                elif o[1].startswith('E1'):
                    k = 'preprocess-error'
                elif o[1].startswith('E2'):
                    k = 'call-error'
                elif o[1].startswith('E3'):
                    k = 'batch-error'
                elif o[1].startswith('E'):
                    k = 'other-exception'
                else:
                    k = 'value'
                kinds[k] = kinds.get(k, 0) + 1

        def dep(t):
            return 0 if t['k'] == 'w' else 1 + max(dep(c) for c in t['ch'])
        d = dep(case['tree'])
        depth[d] = depth.get(d, 0) + 1
    chk.cov['distribution'] = dict(root_kind=dist, tree_depth=depth, outcome_kinds=kinds,
                                   id_reused_runs=sum(1 for _c, r in results if r.get('id_reused')),
                                   async_server_runs=sum(1 for c, _r in results if c.get('asyncsrv')),
                                   calls=sum(r.get('ncalls', 0) for _c, r in results),
                                   runs_with_batches_gt1=sum(1 for _c, r in results if any(b > 1 for b in r.get('batches', []))))
    chk.cov['rule'] = (
        'cases = generated servlet trees (depth <= 3; worker / sequential / ensemble fail_fast on+off / switch; 1-3 '
        'workers per servlet; batch_size 0/1/3; preprocess on/off; failure plans per site = sets of request numbers) '
        '+ hand-picked boundary trees + the F2 scenario class, 2-6 callers mixing call and stream (threads against '
        'Server; in 25% of the cases tasks of a cooperative event loop against AsyncServer), '
        'finite and unbounded timeouts, capacity 1-8, adversarial id allocator in 80% of the cases, service '
        'durations as scheduling-point loops, chooser portfolio (random / sticky / PCT, early timer firing); '
        'each case runs the real Server under the deterministic scheduler; every outcome is checked against '
        '`outs tree x_r` of the Lean model (drv servlet) and against the harness\'s own reference; the queue / '
        'call events of every worker, ensemble and switch node are replayed through its operational Lean '
        'model; non-trivial = >= 2 requests, >= 2 callers and >= 1 context switch; distinct = distinct (case, '
        'event trace)')
    proc_sample(chk, prop, 3 if chk.tier == 'quick' else 25)
    chk.trusted += TRUSTED
    chk.assumptions += ASSUMPTIONS


TRUSTED = [
    'Lean 4.33.0 kernel; axioms per theorem as listed in coverage.obligation_list (subset of propext, Classical.choice, Quot.sound)',
    'hand-written model lean/MpsVerif/Model/Servlet.lean (value universe, worker / ensemble / switch node transition systems, '
    'tree denotation `outs`), tied to /repo on every run: outcome oracle + per-node trace replay through `drv servlet`',
    'deterministic scheduler harness/detsched.py; harness/scen_servlet.py (event mapping from the logging queue subclass and the '
    'instrumented Worker.call to model actions; value code shared with the Lean driver)',
    'member servlets of an ensemble / switch are contract boxes in the node models (most general behaviour allowed by the node '
    'contract); the lifting of the node contracts to whole trees is by the composition lemmas stated in notes/C02.md',
    'modelled not verified: queue.SimpleQueue is FIFO and loses / duplicates nothing; dict get/pop/setitem are atomic; '
    'RemoteException wrapping preserves class and args (C15); a batched `call` is element-wise or fails as a whole',
    'process servlets are not schedulable by E1: the theorems cover them (same code path); a small sample of real-process runs '
    '(OS schedule, not controlled) is compared with `outs` on every run',
    'the ledger layer (uid minting, capacity, gather thread, timeouts) is exercised by the whole-server runs here but proved in '
    'the Ledger model (C06/C07 builder)',
]
ASSUMPTIONS = [
    'the correspondence was checked on the trees, failure plans and schedules explored in this run only; the theorems quantify over all of them',
    'uids handed to the servlet tree are pairwise distinct (guaranteed by the counter introduced with fix F2; C02_uid_distinct_needed shows it is necessary)',
]


def replay(chk, data, prop=PROP):
    import json
    if 'chooser' not in data['case']:
        # a case of the real-process sample (OS schedule: the replay re-runs it, it does not reproduce a schedule)
        proc_sample(chk, prop, 0, cases=[data['case']])
        for v in chk.violations:
            print(json.dumps(dict(rule=v['rule'], detail=v['detail']))[:1500])
        if chk.violations or chk.corr_breaks:
            print(f'VIOLATION property={prop} replay=(replayed)')
            return 1
        return 0
    res = chk.run_cases('scen_servlet', [data['case']])
    case, r = res[0]
    hits = [m for m in r['monitors'] if m['prop'] == prop]
    print(json.dumps(dict(monitors=r['monitors'], outcomes=r.get('outcomes')), default=str)[:3000])
    if hits:
        print(f'VIOLATION property={prop} replay=(replayed)')
        return 1
    return 0
