"""C02 — Server answers every request with its own result (no cross-talk).  DESIGN §5 C02 (layer 1:
servlet tree + whole-server tie; the ledger layer is `Model/Ledger.lean`, C06/C07)."""
import core
import scen_servlet

PROPS = ['Props/C02.lean']
PROP = 'C02'


def keyfn(case, res, m):
    return f"{m['rule']}:{case['tree']['k']}"


def gen(chk, bias=''):
    def g(rng):
        if rng.random() < 0.12:
            return scen_servlet.f2_case(rng)
        return scen_servlet.gen_case(rng, chk.tier, bias)
    return g


def run(chk, prop=PROP, props=PROPS, bias=''):
    chk.audit(props)
    n = 900 if chk.tier == 'quick' else 30000
    results = core.e1_flow(chk, 'scen_servlet', 'servlet', {prop}, gen(chk, bias), n, keyfn=keyfn)
    dist = {}
    for case, res in results:
        k = case['tree']['k']
        dist[k] = dist.get(k, 0) + 1
    chk.cov['distribution'] = dict(root_kind=dist,
                                   id_reused_runs=sum(1 for _c, r in results if r.get('id_reused')),
                                   calls=sum(r.get('ncalls', 0) for _c, r in results),
                                   runs_with_batches_gt1=sum(1 for _c, r in results if any(b > 1 for b in r.get('batches', []))))
    chk.cov['rule'] = (
        'cases = generated servlet trees (depth <= 3; worker / sequential / ensemble fail_fast on+off / switch; 1-3 '
        'workers per servlet; batch_size 0/1/3; preprocess on/off; failure plans per site = sets of request numbers) '
        '+ hand-picked boundary trees + the F2 scenario class, 2-6 caller threads mixing call and stream, '
        'finite and unbounded timeouts, capacity 1-8, adversarial id allocator in 80% of the cases, service '
        'durations as scheduling-point loops, chooser portfolio (random / sticky / PCT, early timer firing); '
        'each case runs the real Server under the deterministic scheduler; every outcome is checked against '
        '`outs tree x_r` of the Lean model (drv servlet) and against the harness\'s own reference; the queue / '
        'call events of every worker, ensemble and switch node are replayed through its operational Lean '
        'model; non-trivial = >= 2 requests, >= 2 callers and >= 1 context switch; distinct = distinct (case, '
        'event trace)')
    chk.trusted += TRUSTED
    chk.assumptions += ASSUMPTIONS


TRUSTED = [
    'Lean 4.33.0 kernel; axioms per theorem as listed in coverage.obligation_list (subset of propext, Classical.choice, Quot.sound)',
    'hand-written model lean/MpsVerif/Model/Servlet.lean (value universe, worker / ensemble / switch node transition systems, '
    'tree denotation `outs`), tied to /repo on every run: outcome oracle + per-node trace replay through `drv servlet`',
    'deterministic scheduler harness/detsched.py; harness/scen_servlet.py (event mapping from the logging queue subclass and the '
    'instrumented Worker.call to model actions; value code shared with the Lean driver)',
    'member servlets of an ensemble / switch are contract boxes in the node models (most general behaviour allowed by the node '
    'contract); the lifting of the node contracts to whole trees is by the composition lemmas stated in notes/C02.md',
    'modelled not verified: queue.SimpleQueue is FIFO and loses / duplicates nothing; dict get/pop/setitem are atomic; '
    'RemoteException wrapping preserves class and args (C15); a batched `call` is element-wise or fails as a whole',
    'process servlets are not schedulable by E1: covered by the theorems (same code path) and the repo\'s own tests only',
    'the ledger layer (uid minting, capacity, gather thread, timeouts) is exercised by the whole-server runs here but proved in '
    'the Ledger model (C06/C07 builder)',
]
ASSUMPTIONS = [
    'the correspondence was checked on the trees, failure plans and schedules explored in this run only; the theorems quantify over all of them',
    'uids handed to the servlet tree are pairwise distinct (guaranteed by the counter introduced with fix F2; C02_uid_distinct_needed shows it is necessary)',
]


def replay(chk, data, prop=PROP):
    import json
    res = chk.run_cases('scen_servlet', [data['case']])
    case, r = res[0]
    hits = [m for m in r['monitors'] if m['prop'] == prop]
    print(json.dumps(dict(monitors=r['monitors'], outcomes=r.get('outcomes')), default=str)[:3000])
    if hits:
        print(f'VIOLATION property={prop} replay=(replayed)')
        return 1
    return 0
