"""C03 — stream pipelines equal their sequential meaning.  DESIGN §5 C03; notes/C03.md."""
import collections
import json

import core
import scen_pipeline

PROPS = ['Props/C03.lean']


def keyfn(case, res, m):
    # finding key = monitor rule + scenario class; the replay written per key is the smallest
    # failing case of that class.
    if m['rule'] == 'reiterate':
        # class = the operator whose state is built once per Stream and can therefore survive an
        # iteration (F23: accumulate); a re-iteration failure of a program without it is a different finding
        return 'reiterate:' + ('accumulate' if any(op[0] == 'accumulate' for op in case['ops']) else 'other')
    if scen_pipeline.uses_list_exc_types(case) and any(r['end'] == 'E999:0' for r in res.get('runs', [])):
        # F27: the run ended in a TypeError and the program hands exception classes over as a list
        return f"{m['rule']}:exc-types-as-list"
    return f"{m['rule']}:{'partial' if m['detail'].startswith('take') else 'full'}"


def run(chk):
    chk.audit(PROPS)
    n = 3000 if chk.tier == 'quick' else 100000
    nb = n // 5
    counter = {'i': 0}

    def gen(rng):
        counter['i'] += 1
        return scen_pipeline.gen_case(rng, chk.tier, boundary=(counter['i'] % 5 == 0))

    results = core.e1_flow(chk, 'scen_pipeline', 'pipeline', {'C03'}, gen, n + nb, keyfn=keyfn, sched=False,
                           engine='E3-differential', corpus=scen_pipeline.corpus(), escalate_n=1500)
    hist = collections.Counter()
    lens = collections.Counter()
    nops = collections.Counter()
    ends = collections.Counter()
    nobs = 0
    for case, res in results:
        for op in case['ops']:
            hist[op[0]] += 1
        lens[len(case['vals'])] += 1
        nops[len(case['ops'])] += 1
        for r in res.get('runs', []):
            nobs += 1
            ends['error' if r['end'].startswith('E') else r['end']] += 1
    chk.cov['distribution'] = dict(operators=dict(hist), input_lengths=dict(lens), program_lengths=dict(nops),
                                   endings=dict(ends), observations=nobs,
                                   consume_modes=dict(collections.Counter(c['consume'] for c, _ in results)))
    chk.cov['rule'] = (
        'cases = fixed boundary corpus + random (value list of length 0..12 [thorough: ..40] over ints / None / exception '
        'objects / pairs / nested lists, optional terminal source error, type-directed random program of 0..6 operators '
        'with boundary-biased parameters, consumption by iteration / collect() / drain(), up to 2 partial consumptions of '
        'k items); every fifth case is a boundary case (length 0..3, 1..3 operators). Each case runs the real Stream over '
        'an instrumented source; outputs, ending and pull counts are compared with the Python reference (monitor) and with '
        'the Lean model through `drv pipeline` (semAll and the pull machine, lazy <= pulled <= greedy). '
        'non-trivial = at least 2 operators and a non-empty input; distinct = distinct (case, observations)')
    chk.trusted += TRUSTED
    chk.assumptions += ASSUMPTIONS


TRUSTED = [
    'Lean 4.33.0 kernel; axioms per theorem as listed in coverage.obligation_list (subset of propext, Classical.choice, Quot.sound)',
    'hand-written model lean/MpsVerif/Model/Pipeline.lean (sem / feed+flush / next), tied to /repo by differential runs '
    'through drv pipeline on every run; the named function library is written twice (Lean Fn.eval, Python make_fn) and '
    'exercised on both sides by the same runs',
    'imported, not proved here: the look-ahead constants of the eager stages (buffer n: n+2 = worker-in-hand + queue + '
    'consumer-in-hand = Buffer.C08_buffer_lookahead; parmap: 2*concurrency+3 = Fifo.C08_parmap_lookahead); their thread-level behaviour is C01/C05/C08',
    'modelled not verified: CPython generator protocol (a finished generator is not resumed; `yield from list` yields '
    'the items in order), itertools.groupby, collections.deque(maxlen), list.append/len; random.randrange / '
    'random.shuffle are replaced by scripted functions (shuffle: only "the result is a permutation" is assumed of the real one)',
    'peek: only its identity on the stream is modelled (what it prints is not)',
]
ASSUMPTIONS = [
    'the correspondence was checked on the programs and inputs generated in this run only; the theorems quantify over '
    'all programs, inputs, oracles',
    'groupby is exercised together with the materialising map prescribed by its documentation; late consumption of group '
    'iterators is not covered',
    'buffer(maxsize < 3) is generated only where nothing downstream stops early (F6, a C05 finding on Buffer._finalize, '
    'would otherwise hang the run); executor="process" and async worker functions of parmap are not run here',
    'pull counts of pipelines containing buffer/parmap depend on the OS schedule: checked as lazy <= observed <= greedy '
    'model run, and observed <= handed + slack for one-to-one chains',
]


def replay(chk, data):
    res = chk.run_cases('scen_pipeline', [data['case']], sched=False)
    case, r = res[0]
    hits = [m for m in r['monitors'] if m['prop'] == chk.prop]
    lines = scen_pipeline.model_lines(0, case, r)
    verdict = core.run_driver('pipeline', lines)
    print(json.dumps(dict(monitors=r['monitors'], runs=r.get('runs'), model=verdict), default=str)[:3000])
    if hits:
        print(f'VIOLATION property={chk.prop} replay=(replayed)')
        return 1
    return 0
