"""C04 — a failing request fails alone, with its original error.  DESIGN §5 C04.  Same scenario and
model as C02, generation biased towards failures; the monitors of this property are the C04 rules
(innocent-failed, foreign-exception, traceback, call-on-exception, batch-member-missed,
batch-nonmember-failed)."""
import c02

PROPS = ['Props/C04.lean']


def run(chk):
    c02.run(chk, prop='C04', props=PROPS, bias='fail')
    chk.cov['rule'] += ('; failure plans biased upwards (22% per site and request); C04 monitors: an outcome that is an '
                        'exception although the request has no failure of its own, wrong class/args, traceback without the '
                        'failure-site frame, call/preprocess/switch invoked on an exception value, failed batch not failing '
                        'exactly its members')


def replay(chk, data):
    return c02.replay(chk, data, prop='C04')
