"""C05 — streams end cleanly on early stop or failure.  DESIGN §5 C05."""
import core
import scen_fifo

PROPS = ['Props/C05.lean']


def keyfn(case, res, m):
    return f"{m['rule']}:{case['kind']}"


def run(chk):
    chk.audit(PROPS)
    n = 1500 if chk.tier == 'quick' else 40000
    core.e1_flow(chk, 'scen_fifo', 'fifo', {'C05'},
                 lambda rng: scen_fifo.gen_case(rng, chk.tier, rng.choice(['stop', 'stop', '', 'lookahead'])),
                 n, keyfn=keyfn)
    chk.cov['rule'] = ('cases = random (kind, n, cap, conc, flags, failure plan, stop position, service durations, '
                       'chooser, seed) run on the real fifo_stream/Stream.parmap under the deterministic scheduler; '
                       'non-trivial = n >= 2 elements and >= 1 context switch; distinct = distinct (case, event trace)')
    chk.trusted += TRUSTED
    chk.assumptions += ASSUMPTIONS


TRUSTED = [
    'Lean 4.33.0 kernel; axioms per theorem as listed in coverage.obligation_list (subset of propext, Classical.choice, Quot.sound)',
    'hand-written model lean/MpsVerif/Model/Fifo.lean, tied to /repo by trace validation (drv fifo, Core.Val.validate_sound) on every run',
    'deterministic scheduler harness/detsched.py (replaces threading primitives, SimpleQueue, clock)',
    'modelled not verified: SingleLane is FIFO with maxsize slots; ThreadPoolExecutor runs <= max_workers calls and cancel() succeeds only before pick-up; Future.result() returns the call\'s own outcome',
    "executor='process' is not driven by the scheduler (OS schedule); covered by the theorem only, plus the repo's own tests",
]
ASSUMPTIONS = [
    'the correspondence was checked on the schedules explored in this run only; the theorems quantify over all schedules of the model',
]


def replay(chk, data):
    import json
    res = chk.run_cases('scen_fifo', [data['case']])
    case, r = res[0]
    hits = [m for m in r['monitors'] if m['prop'] == chk.prop]
    print(json.dumps(dict(monitors=r['monitors'], out=r.get('out'), end=r.get('end')), default=str)[:2000])
    if hits:
        print(f'VIOLATION property={chk.prop} replay=(replayed)')
        return 1
    return 0
