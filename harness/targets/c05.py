"""C05 — streams end cleanly on early stop or failure.  DESIGN §5 C05.
Two mechanisms, two models: fifo_stream/parmap (Model/Fifo.lean) and Buffer/AsyncBuffer/SyncIter (Model/Buffer.lean)."""
import core
import scen_buffer
import ppar
import scen_fifo

PROPS = ['Props/C05.lean', 'Props/C05Buffer.lean', 'Legacy/BufferPinned.lean', 'Props/Lane.lean', 'Legacy/LaneMultiWriter.lean']


def keyfn(case, res, m):
    return f"{m['rule']}:{case['kind']}"


def run(chk):
    chk.audit(PROPS)
    n = 1200 if chk.tier == 'quick' else 30000
    core.e1_flow(chk, 'scen_fifo', 'fifo', {'C05'},
                 lambda rng: scen_fifo.gen_case(rng, chk.tier, rng.choice(['stop', 'stop', '', 'lookahead'])),
                 n, keyfn=keyfn)
    core.e1_flow(chk, 'scen_buffer', 'buffer', {'C05'},
                 lambda rng: scen_buffer.gen_case(rng, chk.tier, rng.choice(['stop','stop',''])),
                 n, keyfn=keyfn)
    ppar.sample(chk, 'C05', 10 if chk.tier == 'quick' else 200)
    chk.cov['rule'] = ('cases = random (kind in fifo_stream / Stream.parmap / Stream.buffer / AsyncBuffer / SyncIter, n, '
                       'capacity / concurrency / maxsize, flags, failure plan incl. StopRequested, stop position and mode '
                       '(close, del+gc), service durations, chooser, seed) run on the real code under the deterministic '
                       'scheduler; non-trivial = n >= 2 elements and >= 1 context switch; distinct = distinct (case, event trace)')
    chk.trusted += TRUSTED
    chk.assumptions += ASSUMPTIONS


TRUSTED = [
    "SingleLane (mpservice/_queues.py) is no longer assumed: lean/MpsVerif/Model/Lane.lean models it at the granularity of its lock operations, Props/Lane.lean proves FIFO / bound / no underflow / no lost wake-up / outcome table and the refinement to the atomic bounded FIFO that Model/Fifo.lean and Model/Buffer.lean use (single writer + single reader, all maxsize, all interleavings), tied to /repo by trace validation (drv lane) of the real SingleLane over the interpreter's own threading.Condition source on every run of ./check C01 and ./check C08 (this check audits those theorems). What remains assumed there: threading.Lock is mutually exclusive; Condition.wait atomically queues the waiter and releases the mutex and re-acquires it before returning; notify() wakes at most one waiter that is in the list at that moment and is not remembered otherwise; no spurious wake-ups (CPython's Condition blocks on a private lock that only notify() releases)",
    'Lean 4.33.0 kernel; axioms per theorem as listed in coverage.obligation_list (subset of propext, Classical.choice, Quot.sound)',
    'hand-written models lean/MpsVerif/Model/Fifo.lean and Model/Buffer.lean, tied to /repo by trace validation (drv fifo / drv buffer, Core.Val.validate_sound) on every run',
    'deterministic scheduler harness/detsched.py (replaces threading primitives, SimpleQueue, clock) and harness/cooploop.py (asyncio selector wait as a cooperative wait)',
    'modelled not verified: the stdlib queue.Queue(2) of SyncIter is FIFO with maxsize slots; ThreadPoolExecutor runs <= max_workers calls, cancel() succeeds only before pick-up; Future.result() returns the call\'s own outcome; Thread.is_alive()/join()',
    'SyncIter is validated against the Buffer model with maxsize 2 (its worker drains the queue itself instead of queueing an end mark after a stop; indistinguishable at the observed events)',
    "executor='process': not driven by the scheduler; sampled on real pool processes under the OS schedule (harness/ppar.py, monitors only), otherwise covered by the theorem (the Fifo model does not depend on the kind of executor)",
    'the timed-out poll of the repaired drain loop is a stutter step; liveness assumes the worker thread keeps being scheduled (fairness)',
]
ASSUMPTIONS = [
    'the correspondence was checked on the schedules explored in this run only; the theorems quantify over all schedules of the model',
    'garbage-collection-triggered close is exercised as del + gc.collect()',
]


def replay(chk, data):
    import json
    if data['case'].get('kind') == 'ppar':
        mons = ppar.replay_case(chk, data['case'])
        hits = [m for m in mons if m['prop'] == chk.prop]
        print(json.dumps(mons)[:2000])
        if hits:
            print(f'VIOLATION property={chk.prop} replay=(replayed)')
            return 1
        return 0
    scen = 'scen_buffer' if data['case']['kind'] in ('buffer', 'asyncbuffer', 'synciter') or '+' in data['case']['kind'] else 'scen_fifo'
    res = chk.run_cases(scen, [data['case']])
    case, r = res[0]
    hits = [m for m in r['monitors'] if m['prop'] == chk.prop]
    print(json.dumps(dict(monitors=r['monitors'], out=r.get('out'), end=r.get('end')), default=str)[:2000])
    if hits:
        print(f'VIOLATION property={chk.prop} replay=(replayed)')
        return 1
    return 0
