"""C06 — backlog never exceeds capacity; slots are always returned.  DESIGN §5 C06."""
import abandon_proc
import core
import scen_server

PROPS = ['Props/C06.lean', 'Legacy/LedgerPinned.lean']
PROP = 'C06'
BIAS = ['capacity', 'capacity', '', 'abandon']


def keyfn(case, res, m):
    return f"{m['rule']}:{'asyncserver' if case.get('kind') == 'async' else 'server'}"


def run(chk, props=None, prop=None, bias=None):
    prop = prop or PROP
    chk.audit(props or PROPS)
    n = 1000 if chk.tier == 'quick' else 20000
    b = bias or BIAS
    core.e1_flow(chk, 'scen_server', 'ledger', {prop},
                 lambda rng: scen_server.gen_case(rng, chk.tier, rng.choice(b)), n, keyfn=keyfn,
                 corpus=scen_server.corpus(), extra_models=[('wakeup', scen_server.wakeup_lines)])
    # E4: requests abandoned at every stage of their way through a real ProcessServlet (inputs beyond the pipe buffer,
    # busy workers, very short deadlines): slots come back, later requests are answered, exit returns
    abandon_proc.sample(chk, prop, 10 if chk.tier == 'quick' else 150)
    chk.cov['rule'] = ('cases = random (Server or AsyncServer, capacity, worker threads, 2-8 caller threads / asyncio tasks issuing call() with/without '
                       'backpressure and finite or unbounded deadlines, stream() callers with early close, failing '
                       'requests, service durations, chooser incl. early timer firing, seed) run on the real Server '
                       'under the deterministic scheduler; Server.backlog sampled at every scheduling step; small cases '
                       '(<= 6 requests) are replayed through the Lean ledger model; non-trivial = >= 2 callers and >= 1 '
                       'context switch; distinct = distinct (case, event trace)')
    chk.trusted += TRUSTED
    chk.assumptions += ASSUMPTIONS


TRUSTED = [
    'Lean 4.33.0 kernel; axioms per theorem as listed in coverage.obligation_list (subset of propext, Classical.choice, Quot.sound)',
    'hand-written model lean/MpsVerif/Model/Ledger.lean, tied to /repo by trace validation (drv ledger; Core.Val.validateW_sound) on every run: observable actions = caller enters call(), worker produced a response; state observations = public Server.backlog after every scheduling step, each caller\'s outcome, backlog at rest',
    'deterministic scheduler harness/detsched.py (threading primitives, SimpleQueue, virtual clock with early timer firing)',
    'modelled not verified: threading.Condition (mutual exclusion; notify takes the first waiter of the list, also one whose timed wait has expired but which has not re-acquired the lock yet; outcome of a timed wait decided at expiry), dict insert/pop atomic under the GIL, concurrent.futures.Future (cancel succeeds iff not yet resolved), itertools.count() never repeats',
    'hand-written model lean/MpsVerif/Model/Wakeup.lean (wait-for-room protocol, callers counted by where they are), tied to /repo by trace validation (drv wakeup) of every case: ledger inserts/pops through a logging dict, wait/notify of the server\'s own condition object through instance-level wrappers (internal attribute names _uid_to_futures, _pipeline_notfull: if absent the observation is skipped and reported as such); queuing of notifications, expiry of timed waits and the choice of notify() are inferred',
    'the servlet is an abstract box in this model (emits each message once, any order, with the response of that message\'s input): proved of servlet trees separately (C02 layer 1)',
    'AsyncServer (asyncio condition, notifications delivered through the event loop) is driven by the same scenario with the callers as asyncio tasks on a cooperative-selector event loop (harness/cooploop.py) and validated against the same ledger model',
    'time is not modelled in Lean: "waits no longer than its timeout" is evaluated on the real code by the scheduler\'s timed-wait accounting',
]
ASSUMPTIONS = [
    'the correspondence was checked on the schedules explored in this run only; the theorems quantify over all schedules of the model',
    'process servlets are not scheduled (OS schedule; sampled by harness/abandon_proc.py with monitors only); the ledger code is the same',
]


def replay(chk, data):
    import json
    if data['case'].get('kind') == 'abandon-proc':
        mons = abandon_proc.replay_case(chk, data['case'])
        hits = [m for m in mons if m['prop'] == chk.prop]
        print(json.dumps(mons)[:2000])
        if hits:
            print(f'VIOLATION property={chk.prop} replay=(replayed)')
            return 1
        return 0
    res = chk.run_cases('scen_server', [data['case']])
    case, r = res[0]
    hits = [m for m in r['monitors'] if m['prop'] == chk.prop]
    print(json.dumps(dict(monitors=r['monitors'], outcomes=r.get('outcomes')), default=str)[:2000])
    if hits:
        print(f'VIOLATION property={chk.prop} replay=(replayed)')
        return 1
    return 0
