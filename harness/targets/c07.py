"""C07 — an abandoned request (timeout, dropped stream) never harms the server.  DESIGN §5 C07."""
import c06


def run(chk):
    c06.run(chk, props=['Props/C07.lean', 'Props/C07Wakeup.lean'], prop='C07', bias=['abandon', 'abandon', 'abandon', ''])


replay = c06.replay
