"""C08 — bounded look-ahead and bounded concurrency.  DESIGN §5 C08.
Two mechanisms, two models: fifo_stream/parmap (Model/Fifo.lean) and Buffer/AsyncBuffer/SyncIter (Model/Buffer.lean)."""
import core
import scen_buffer
import ppar
import scen_fifo

PROPS = ['Props/C08.lean', 'Props/C08Buffer.lean', 'Props/C08Async.lean']


def keyfn(case, res, m):
    return f"{m['rule']}:{case['kind']}"


def run(chk):
    chk.audit(PROPS)
    n = 1200 if chk.tier == 'quick' else 30000
    core.e1_flow(chk, 'scen_fifo', 'fifo', {'C08'},
                 lambda rng: scen_fifo.gen_case(rng, chk.tier, rng.choice(['lookahead', 'lookahead', '', 'stop'])),
                 n, keyfn=keyfn)
    core.e1_flow(chk, 'scen_buffer', 'buffer', {'C08'},
                 lambda rng: scen_buffer.gen_case(rng, chk.tier, rng.choice(['lookahead','lookahead','stop'])),
                 n, keyfn=keyfn)
    ppar.sample(chk, 'C08', 10 if chk.tier == 'quick' else 200)
    async_workers(chk)
    chk.cov['rule'] = ('cases = random (kind in fifo_stream / Stream.parmap / Stream.buffer / AsyncBuffer / SyncIter, n, '
                       'capacity / concurrency / maxsize, flags, failure plan incl. StopRequested, stop position and mode '
                       '(close, del+gc), service durations, chooser, seed) run on the real code under the deterministic '
                       'scheduler; non-trivial = n >= 2 elements and >= 1 context switch; distinct = distinct (case, event trace)')
    chk.trusted += TRUSTED
    chk.assumptions += ASSUMPTIONS


def async_workers(chk):
    """`concurrency` with ASYNC worker functions (`Stream.parmap` -> ParmapperAsync, `AsyncStream.parmap` ->
    AsyncParmapperAsync / AsyncParmapper): the scenarios of C16 (E2 virtual-time loop, E1 scheduler + cooperative
    loop) count the invocations under way; here only their C08 monitor counts (the answers are C16's business)."""
    import scen_afifo
    import scen_asrv
    quick = chk.tier == 'quick'
    rng = chk.rng
    e2 = []
    while len(e2) < (300 if quick else 6000):
        c = scen_afifo.gen_case(rng, chk.tier)
        if c['kind'] == 'apmap':
            e2.append(c)
    res = chk.run_cases('scen_afifo', e2, sched=False)
    chk.account(scen_afifo, res, 'E2-vloop')
    chk.collect_monitors(res, {'C08'}, keyfn)
    e1 = []
    while len(e1) < (200 if quick else 4000):
        c = scen_asrv.gen_case(rng, chk.tier, '')
        if c['kind'] in ('pmap_async', 'apmap_thread'):
            e1.append(c)
    res1 = chk.run_cases('scen_asrv', e1, sched=True)
    chk.account(scen_asrv, res1, 'E1-detsched+cooploop')
    chk.collect_monitors(res1, {'C08'}, keyfn)
    d = chk.cov['distribution'].setdefault('async_workers', {})
    d['AsyncStream.parmap(async worker) cases'] = len(res)
    d['  of which reached max_running == concurrency'] = sum(1 for c, r in res if r.get('max_running') == c['conc'])
    d['Stream.parmap(async worker) cases'] = sum(1 for c, _r in res1 if c['kind'] == 'pmap_async')
    d['  of which reached max_running == concurrency'] = sum(1 for c, r in res1 if c['kind'] == 'pmap_async' and (r.get('max_running') or [0])[0] == c['conc'])
    d['AsyncStream.parmap(sync worker, threads) cases'] = sum(1 for c, _r in res1 if c['kind'] == 'apmap_thread')


TRUSTED = [
    'Lean 4.33.0 kernel; axioms per theorem as listed in coverage.obligation_list (subset of propext, Classical.choice, Quot.sound)',
    'hand-written models lean/MpsVerif/Model/Fifo.lean and Model/Buffer.lean, tied to /repo by trace validation (drv fifo / drv buffer, Core.Val.validate_sound) on every run',
    'deterministic scheduler harness/detsched.py (replaces threading primitives, SimpleQueue, clock) and harness/cooploop.py (asyncio selector wait as a cooperative wait)',
    'modelled not verified: SingleLane / queue.Queue are FIFO with maxsize slots; ThreadPoolExecutor runs <= max_workers calls, cancel() succeeds only before pick-up; Future.result() returns the call\'s own outcome; Thread.is_alive()/join()',
    'SyncIter is validated against the Buffer model with maxsize 2 (its worker drains the queue itself instead of queueing an end mark after a stop; indistinguishable at the observed events)',
    "executor='process': not driven by the scheduler; sampled on real pool processes under the OS schedule (harness/ppar.py, monitors only), otherwise covered by the theorem (the Fifo model does not depend on the kind of executor)",
    'the timed-out poll of the repaired drain loop is a stutter step; liveness assumes the worker thread keeps being scheduled (fairness)',
]
ASSUMPTIONS = [
    'the correspondence was checked on the schedules explored in this run only; the theorems quantify over all schedules of the model',
    'garbage-collection-triggered close is exercised as del + gc.collect()',
]


def replay(chk, data):
    import json
    if data['case'].get('kind') == 'ppar':
        mons = ppar.replay_case(chk, data['case'])
        hits = [m for m in mons if m['prop'] == chk.prop]
        print(json.dumps(mons)[:2000])
        if hits:
            print(f'VIOLATION property={chk.prop} replay=(replayed)')
            return 1
        return 0
    kind = data['case']['kind']
    scen = 'scen_buffer' if kind in ('buffer', 'asyncbuffer', 'synciter') else \
        'scen_afifo' if kind in ('apmap', 'afifo') else 'scen_asrv' if kind in ('pmap_async', 'apmap_thread') else 'scen_fifo'
    res = chk.run_cases(scen, [data['case']], sched=(scen != 'scen_afifo'))
    case, r = res[0]
    hits = [m for m in r['monitors'] if m['prop'] == chk.prop]
    print(json.dumps(dict(monitors=r['monitors'], out=r.get('out'), end=r.get('end')), default=str)[:2000])
    if hits:
        print(f'VIOLATION property={chk.prop} replay=(replayed)')
        return 1
    return 0
