"""C08 — bounded look-ahead and bounded concurrency.  DESIGN §5 C08.
Two mechanisms, two models: fifo_stream/parmap (Model/Fifo.lean) and Buffer/AsyncBuffer/SyncIter (Model/Buffer.lean)."""
import core
import scen_buffer
import ppar
import scen_fifo
import scen_lane

PROPS = ['Props/C08.lean', 'Props/C08Buffer.lean', 'Props/C08Async.lean', 'Props/Lane.lean', 'Legacy/LaneMultiWriter.lean']


def keyfn(case, res, m):
    return f"{m['rule']}:{case['kind']}"


def run(chk):
    chk.audit(PROPS)
    n = 1200 if chk.tier == 'quick' else 30000
    core.e1_flow(chk, 'scen_fifo', 'fifo', {'C08'},
                 lambda rng: scen_fifo.gen_case(rng, chk.tier, rng.choice(['lookahead', 'lookahead', '', 'stop'])),
                 n, keyfn=keyfn)
    core.e1_flow(chk, 'scen_buffer', 'buffer', {'C08'},
                 lambda rng: scen_buffer.gen_case(rng, chk.tier, rng.choice(['lookahead','lookahead','stop'])),
                 n, keyfn=keyfn)
    # the hand-off queue itself: the real SingleLane, one writer + one reader, against Model/Lane.lean
    core.e1_flow(chk, 'scen_lane', 'lane', {'C08'},
                 lambda rng: scen_lane.gen_case(rng, chk.tier, rng.choice(['bound', 'bound', '', 'order'])),
                 800 if chk.tier == 'quick' else 12000, keyfn=keyfn)
    lane_two_writers(chk, 120 if chk.tier == 'quick' else 3000)
    ppar.sample(chk, 'C08', 10 if chk.tier == 'quick' else 200)
    async_workers(chk)
    chk.cov['rule'] = ('cases = random (kind in fifo_stream / Stream.parmap / Stream.buffer / AsyncBuffer / SyncIter, n, '
                       'capacity / concurrency / maxsize, flags, failure plan incl. StopRequested, stop position and mode '
                       '(close, del+gc), service durations, chooser, seed) run on the real code under the deterministic '
                       'scheduler; non-trivial = n >= 2 elements and >= 1 context switch; distinct = distinct (case, event trace); '
                       'plus (scen_lane) random (maxsize 0..3, call sequences of one writer and one reader thread, each call '
                       'blocking / non-blocking / timed, think-time gaps, Condition flavour, chooser with early timer expiry, seed) '
                       'run on the real SingleLane; non-trivial = >= 2 calls and >= 1 context switch')
    chk.trusted += TRUSTED
    chk.assumptions += ASSUMPTIONS


def async_workers(chk):
    """`concurrency` with ASYNC worker functions (`Stream.parmap` -> ParmapperAsync, `AsyncStream.parmap` ->
    AsyncParmapperAsync / AsyncParmapper): the scenarios of C16 (E2 virtual-time loop, E1 scheduler + cooperative
    loop) count the invocations under way; here only their C08 monitor counts (the answers are C16's business)."""
    import scen_afifo
    import scen_asrv
    quick = chk.tier == 'quick'
    rng = chk.rng
    e2 = []
    while len(e2) < (300 if quick else 6000):
        c = scen_afifo.gen_case(rng, chk.tier)
        if c['kind'] == 'apmap':
            e2.append(c)
    res = chk.run_cases('scen_afifo', e2, sched=False)
    chk.account(scen_afifo, res, 'E2-vloop')
    chk.collect_monitors(res, {'C08'}, keyfn)
    e1 = []
    while len(e1) < (200 if quick else 4000):
        c = scen_asrv.gen_case(rng, chk.tier, '')
        if c['kind'] in ('pmap_async', 'apmap_thread'):
            e1.append(c)
    res1 = chk.run_cases('scen_asrv', e1, sched=True)
    chk.account(scen_asrv, res1, 'E1-detsched+cooploop')
    chk.collect_monitors(res1, {'C08'}, keyfn)
    d = chk.cov['distribution'].setdefault('async_workers', {})
    d['AsyncStream.parmap(async worker) cases'] = len(res)
    d['  of which reached max_running == concurrency'] = sum(1 for c, r in res if r.get('max_running') == c['conc'])
    d['Stream.parmap(async worker) cases'] = sum(1 for c, _r in res1 if c['kind'] == 'pmap_async')
    d['  of which reached max_running == concurrency'] = sum(1 for c, r in res1 if c['kind'] == 'pmap_async' and (r.get('max_running') or [0])[0] == c['conc'])
    d['AsyncStream.parmap(sync worker, threads) cases'] = sum(1 for c, _r in res1 if c['kind'] == 'apmap_thread')


def lane_two_writers(chk, n):
    """Record only (outside the property: C08 speaks of the single-writer hand-off queue): two writer threads on one
    SingleLane, as mpservice.socket.SocketClient uses it.  How often the deque exceeds maxsize is written to the
    evidence; the traces are validated against the same model with nw = 2 (Legacy/LaneMultiWriter.lean has the
    kernel-checked witness), a disagreement there is a note, not a verdict."""
    cases = [scen_lane.gen_case_multi(chk.rng, chk.tier) for _ in range(n)]
    results = chk.run_cases('scen_lane', cases)
    nb0 = len(chk.corr_breaks)
    nv0 = chk.cov['traces_validated_against_impl']
    nval, ntot = chk.validate('lane', scen_lane, results)
    chk.cov['traces_validated_against_impl'] = nv0          # not traces of the property's system
    breaks = chk.corr_breaks[nb0:]
    del chk.corr_breaks[nb0:]
    over = sum(1 for _c, r in results if r.get('overshoot', 0) > 0)
    chk.cov['distribution']['lane_two_writers'] = dict(cases=n, deque_exceeded_maxsize=over,
                                                       traces_matching_model_nw2=nval, of=ntot)
    chk.notes.append(f'two writers on one SingleLane (outside C08, recorded only): deque longer than maxsize in {over}/{n} cases; '
                     f'{nval}/{ntot} traces match Model/Lane.lean with nw=2' + (f'; first mismatch: {breaks[0]["verdict"][:200]}' if breaks else ''))


TRUSTED = [
    "SingleLane (mpservice/_queues.py) is no longer assumed: lean/MpsVerif/Model/Lane.lean models it at the granularity of its lock operations, Props/Lane.lean proves FIFO / bound / no underflow / no lost wake-up / outcome table and the refinement to the atomic bounded FIFO that Model/Fifo.lean and Model/Buffer.lean use (single writer + single reader, all maxsize, all interleavings), tied to /repo by trace validation (drv lane) of the real SingleLane over the interpreter's own threading.Condition source on every run. What remains assumed there: threading.Lock is mutually exclusive; Condition.wait atomically queues the waiter and releases the mutex and re-acquires it before returning; notify() wakes at most one waiter that is in the list at that moment and is not remembered otherwise; no spurious wake-ups (CPython's Condition blocks on a private lock that only notify() releases)",
    'Lean 4.33.0 kernel; axioms per theorem as listed in coverage.obligation_list (subset of propext, Classical.choice, Quot.sound)',
    'hand-written models lean/MpsVerif/Model/Fifo.lean and Model/Buffer.lean, tied to /repo by trace validation (drv fifo / drv buffer, Core.Val.validate_sound) on every run',
    'deterministic scheduler harness/detsched.py (replaces threading primitives, SimpleQueue, clock) and harness/cooploop.py (asyncio selector wait as a cooperative wait)',
    'modelled not verified: the stdlib queue.Queue(2) of SyncIter is FIFO with maxsize slots; ThreadPoolExecutor runs <= max_workers calls, cancel() succeeds only before pick-up; Future.result() returns the call\'s own outcome; Thread.is_alive()/join()',
    'SyncIter is validated against the Buffer model with maxsize 2 (its worker drains the queue itself instead of queueing an end mark after a stop; indistinguishable at the observed events)',
    "executor='process': not driven by the scheduler; sampled on real pool processes under the OS schedule (harness/ppar.py, monitors only), otherwise covered by the theorem (the Fifo model does not depend on the kind of executor)",
    'the timed-out poll of the repaired drain loop is a stutter step; liveness assumes the worker thread keeps being scheduled (fairness)',
]
ASSUMPTIONS = [
    'the correspondence was checked on the schedules explored in this run only; the theorems quantify over all schedules of the model',
    'garbage-collection-triggered close is exercised as del + gc.collect()',
]


def replay(chk, data):
    import json
    if data['case'].get('kind') == 'ppar':
        mons = ppar.replay_case(chk, data['case'])
        hits = [m for m in mons if m['prop'] == chk.prop]
        print(json.dumps(mons)[:2000])
        if hits:
            print(f'VIOLATION property={chk.prop} replay=(replayed)')
            return 1
        return 0
    kind = data['case']['kind']
    scen = 'scen_buffer' if kind in ('buffer', 'asyncbuffer', 'synciter') or '+' in kind else \
        'scen_afifo' if kind in ('apmap', 'afifo') else 'scen_asrv' if kind in ('pmap_async', 'apmap_thread') else \
        'scen_lane' if kind in ('lane', 'multi') else 'scen_fifo'
    res = chk.run_cases(scen, [data['case']], sched=(scen != 'scen_afifo'))
    case, r = res[0]
    hits = [m for m in r['monitors'] if m['prop'] == chk.prop]
    print(json.dumps(dict(monitors=r['monitors'], out=r.get('out'), end=r.get('end')), default=str)[:2000])
    # a listed known finding met on the way (F35) is printed as such, not as a violation
    known = {k[0]: k[1] for k in chk.known}
    for m in [m for m in hits if keyfn(case, r, m) in known]:
        print(f'KNOWN-FINDING: property={chk.prop} {known[keyfn(case, r, m)][:200]}')
    hits = [m for m in hits if keyfn(case, r, m) not in known]
    if hits:
        print(f'VIOLATION property={chk.prop} replay=(replayed)')
        return 1
    return 0
