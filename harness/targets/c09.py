"""C09 — workers see well-formed batches; no request waits for a full batch.  DESIGN §5 C09.
Model: Model/Batch.lean (batching worker: shared q_in with read lock, k workers, collector thread,
batch buffer, deadline-bounded consumer, optional in-worker pool); tie: scen_batch.py + `drv batch`."""
import core
import scen_batch

PROPS = ['Props/C09.lean']


def keyfn(case, res, m):
    mode = 'single' if case['b'] <= 1 else 'batch'
    return f"{m['rule']}:{mode}"


def run(chk):
    chk.audit(PROPS)
    quick = chk.tier == 'quick'
    n_mixed = 800 if quick else 24000
    n_burst = 300 if quick else 8000

    def gen(rng):
        # boundary stream `burst` (fills the batch buffer; lost-wake-up hunting) mixed into the general stream
        if rng.random() < n_burst / (n_mixed + n_burst):
            return scen_batch.gen_case(rng, chk.tier, 'burst')
        return scen_batch.gen_case(rng, chk.tier, rng.choice(['', '', '', 'single', 'lone', 'boundary', 'boundary']))

    r1 = core.e1_flow(chk, 'scen_batch', 'batch', {'C09'}, gen, n_mixed + n_burst, keyfn=keyfn)
    r2 = []
    # the same worker behind the public API (Server + ThreadServlet + concurrent callers): monitors only
    n_srv = 120 if quick else 4000
    core.e1_flow(chk, 'scen_batch', None, {'C09'}, lambda rng: scen_batch.gen_server_case(rng, chk.tier), n_srv,
                 keyfn=lambda case, res, m: m['rule'] + ':server')
    # real worker processes (ProcessServlet: pipe-backed q_in with the multiprocessing RLock): OS schedule, sampled
    import scen_batch_proc
    n_proc = 4 if quick else 80
    core.e1_flow(chk, 'scen_batch_proc', None, {'C09'}, lambda rng: scen_batch_proc.gen_case(rng, chk.tier), n_proc,
                 keyfn=lambda case, res, m: m['rule'] + ':process', sched=False, engine='E4-process')
    # what was actually exercised (model actions = event kinds; see scen_batch.model_lines)
    import collections
    evk = collections.Counter()
    dist = collections.Counter()
    for case, res in r1 + r2:
        for e in res.get('events', []):
            evk[e[1]] += 1
        dist[f"k={case['k']}"] += 1
        dist[f"b={case['b']}"] += 1
        dist['pool' if case['nst'] else 'nopool'] += 1
        dist[f"bias={case['bias'] or 'none'}"] += 1
        for n in res.get('batch_sizes', []):
            dist['batches_full' if case['b'] > 1 and n == case['b'] else ('batches_partial' if case['b'] > 1 else 'single_calls')] += 1
        if any(e[1] == 'bempty' for e in res.get('events', [])):
            dist['cases_with_deadline_expiry'] += 1
    chk.cov['distribution'] = dict(events_by_kind=dict(evk), cases=dict(dist))
    chk.cov['rule'] = (
        'cases = random (k=1..3 worker threads sharing q_in/q_out, batch_size 0..5(8), batch_wait_time 0..8 ticks, '
        'num_stream_threads 0/2/3, preprocess defined or not, arrival pattern with virtual-time gaps incl. ties with the '
        'deadline, kinds regular / rejected by preprocess / Exception value / RemoteException value, failing calls, '
        'service length, end marker after all results or right behind the last request, chooser random/sticky/PCT/'
        'long-preemption, seed) + boundary streams: lone requests, exactly b-1/b/b+1 arrivals, bursts that fill the '
        'batch buffer (b+10) under a PCT chooser whose priority change is snapped to a lock acquisition; every case runs '
        'the real Worker code under the deterministic scheduler and virtual clock, its complete event trace is replayed '
        'through Batch.step by `drv batch`; non-trivial = >= 2 requests, >= 1 call and >= 1 context switch; '
        'distinct = distinct (case, event trace)')
    chk.trusted += TRUSTED
    chk.assumptions += ASSUMPTIONS


TRUSTED = [
    'Lean 4.33.0 kernel; axioms per theorem as listed in coverage.obligation_list (subset of propext, Classical.choice, Quot.sound)',
    'hand-written model lean/MpsVerif/Model/Batch.lean, tied to /repo on every run: each recorded event of the real run is one '
    'model action replayed through Batch.step by the compiled driver (lean/MpsVerif/Drv/Batch.lean), payloads compared, '
    'final state must be at rest when the implementation is',
    'deterministic scheduler harness/detsched.py (threading primitives, SimpleQueue, clock) and the observation wrappers of '
    'harness/scen_batch.py (queue/lock views, logging deque inside the real SingleLane, event view, instrumented preprocess/call)',
    'modelled not verified: queue.SimpleQueue and deque are FIFO; Condition has no spurious wake-ups; Parmapper (num_stream_threads > 0) '
    'preserves order (that is C01) — its concurrency limit is not modelled (the model allows any number of calls in flight)',
    'timing theorem C09_deadline is about the integer clock of the model under maximal progress (a runnable thread runs before '
    'the clock advances); the run-time monitor checks the same under the virtual clock (time advances only when no thread is enabled); '
    'real-time scheduling delays of a runnable thread are outside the property',
    'process workers (_SimpleProcessQueue: pipe + multiprocessing RLock) run the same Worker code; they are covered by the theorems and '
    'by a few sampled real-process runs (harness/scen_batch_proc.py: OS schedule not controlled, monitors only, no replay)',
]
ASSUMPTIONS = [
    'the correspondence was checked on the schedules explored in this run only; the theorems quantify over all action lists of the model',
    'no request is put on q_in after the end marker (generated patterns respect it; the model allows it)',
    'call returns a sequence of the same length as its batch (user contract of Worker.call)',
    'liveness (C09_lone_served) assumes every call returns and weak fairness of the scheduler (an enabled thread eventually runs)',
]


def replay(chk, data):
    import json
    res = chk.run_cases('scen_batch', [data['case']])
    case, r = res[0]
    hits = [m for m in r['monitors'] if m['prop'] == chk.prop]
    print(json.dumps(dict(monitors=r['monitors'], deadlock=r.get('deadlock'), ncalls=r.get('ncalls')), default=str)[:2000])
    if hits:
        print(f'VIOLATION property={chk.prop} replay=(replayed)')
        return 1
    return 0
