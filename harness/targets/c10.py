"""C10 — tee forks see identical streams and cannot wedge each other.  DESIGN §5 C10."""
import core
import scen_tee

PROPS = ['Props/C10.lean']


def keyfn(case, res, m):
    return f"{m['rule']}:src={case['src']}"


def run(chk):
    chk.audit(PROPS)
    corpus = scen_tee.boundary_cases()
    gen = lambda rng: scen_tee.gen_case(rng, chk.tier, rng.choice(['', 'wedge', 'wedge', 'fail']))  # noqa: E731
    kinds, ahead, spins = {}, {}, 0

    def stats(results):
        nonlocal spins
        for case, res in results:
            for e in res.get('events', []):
                kinds[e[0]] = kinds.get(e[0], 0) + 1
                if e[0] == 'acq' and e[2] == 0:
                    spins += 1
            k = f"bs+{res.get('max_ahead', 0) - case['bs']}"
            ahead[k] = ahead.get(k, 0) + 1

    if chk.tier == 'quick':
        # systematic part: every schedule with one forced preemption (all positions, both default thread
        # orders) of the two smallest interesting configurations
        corpus = corpus + scen_tee.enum_cases(2, 2, 3, 'clean', 1) + scen_tee.enum_cases(2, 2, 1, 'exc', 1)
        stats(core.e1_flow(chk, 'scen_tee', 'tee', {'C10'}, gen, 600, keyfn=keyfn, corpus=corpus, escalate_n=1500))
    else:
        for src in ('clean', 'exc', 'stopreq'):
            for n in (0, 1, 3, 5):
                corpus = corpus + scen_tee.enum_cases(2, 2, n, src, 1)
        corpus = corpus + scen_tee.enum_cases(3, 2, 3, 'clean', 1) + scen_tee.enum_cases(3, 3, 4, 'exc', 1) \
            + scen_tee.enum_cases(2, 2, 3, 'clean', 2, chk.rng, 12000) + scen_tee.enum_cases(2, 2, 2, 'exc', 2, chk.rng, 8000) \
            + scen_tee.enum_cases(2, 3, 4, 'clean', 2, chk.rng, 6000)
        for b in range(0, len(corpus), 4000):
            stats(core.e1_flow(chk, 'scen_tee', 'tee', {'C10'}, gen, 0, keyfn=keyfn, corpus=corpus[b:b + 4000], escalate_n=3000))
            if chk.violations or chk.corr_breaks:
                break
        corpus = None
        # batches keep the memory of the recorded traces bounded
        for b in range(20):
            stats(core.e1_flow(chk, 'scen_tee', 'tee', {'C10'}, gen, 3000, keyfn=keyfn,
                               corpus=corpus if b == 0 else None, escalate_n=3000))
            if chk.violations or chk.corr_breaks:
                break
    if chk.corr_breaks:
        # recogniser: do the traces the repaired-code model rejects fit the model of the PINNED code
        # (lean/MpsVerif/Legacy/Tee.lean, where F8/F9/F10 are kernel-checked to violate C10)?
        sample = [b for b in chk.corr_breaks if b.get('events')][:300]
        lines = []
        for k, b in enumerate(sample):
            c = b['case']
            lines.append(f'case {k} forks={c["nforks"]} bs={c["bs"]} len={c["n"]} fail={0 if c["src"] == "clean" else 1}')
            lines += ['e ' + ' '.join(str(x) for x in e) for e in b['events']]
            lines.append('end partial=1')
        ok = sum(1 for l in core.run_driver('tee-legacy', lines) if l.startswith('ok'))
        chk.notes.append(f'legacy recogniser: {ok} of {len(sample)} traces rejected by the model of the repaired code are '
                         f'runs of the model of the pinned code (Legacy/Tee.lean: F8_wedge, F9_lock_leaked, '
                         f'F10_endings_differ)' + (' -> the implementation behaves like the unrepaired tee' if sample and ok == len(sample) else ''))
        print(f'[C10] {chk.notes[-1]}')
    chk.cov['distribution'] = dict(
        model_actions_exercised=dict(sorted(kinds.items())), timed_out_acquires=spins,
        max_lookahead_relative_to_buffer_size=dict(sorted(ahead.items())))
    chk.cov['rule'] = (
        'cases = fixed boundary corpus (2/3 forks x window 2/3 x lengths 0,1,window,window+3 x source ending '
        'clean/exception/StopRequested x 3 schedules) + bounded-preemption enumeration (non-preemptive base schedule '
        'plus ALL single forced context switches, both default thread orders, of (2 forks, bs 2, 3 elements, clean) and '
        '(2, 2, 1, failing source) [thorough: lengths 0/1/3/5 x 3 source kinds, 3 forks, and 26000 sampled pairs of '
        'preemptions]) + random (forks 2-3 [thorough 2-4], buffer_size 2-3 [2-5], '
        'length 0..window+4 [..20], source ending, line-level or primitive-level preemption, chooser from '
        '{random, sticky .2/.05/.02, pct 2/3} with early timer firing 0/.02/.1, seed); each case runs the real '
        'tee() with one consumer thread per fork under the deterministic scheduler with a scheduling point at every '
        'line of Fork.__next__; non-trivial = >= 2 forks, >= 2 elements and >= 1 context switch; '
        'distinct = distinct (case, event trace)')
    chk.trusted += TRUSTED
    chk.assumptions += ASSUMPTIONS


TRUSTED = [
    'Lean 4.33.0 kernel; axioms per theorem as listed in coverage.obligation_list (subset of propext, Classical.choice, Quot.sound)',
    'hand-written model lean/MpsVerif/Model/Tee.lean (one action per shared-state access of Fork.__next__), tied to '
    '/repo on every run: every access of the real Fork.__next__ to the source, head cell, box next/count, source lock, '
    'box locks and window queue is observed through harness-owned objects and replayed 1:1 through Tee.step by drv tee '
    '(payloads compared), plus rest-state agreement',
    'deterministic scheduler harness/detsched.py + line-level scheduling points harness/linesched.py (sys.monitoring LINE events)',
    'modelled not verified: queue.Queue(bs) blocks put at bs items and is FIFO; threading.Lock is a mutex and a timed '
    'acquire fails only while the lock is held; single attribute reads/writes are atomic (the model does not assume '
    'atomic source lines: `box.n += 1` is a read action and a write action; the tie preempts at line granularity only); '
    'the source obeys the iterator protocol (stays exhausted)',
]
ASSUMPTIONS = [
    'the correspondence was checked on the schedules explored in this run only; the theorems quantify over all schedules of the model',
    'liveness is progress + bounded number of productive steps; timed lock retries are stutter steps and need scheduler fairness (stated in Props/C10.lean)',
    'each consumer stops calling next() after the first StopIteration / exception',
]


def replay(chk, data):
    import json
    res = chk.run_cases('scen_tee', [data['case']])
    case, r = res[0]
    hits = [m for m in r['monitors'] if m['prop'] == chk.prop]
    print(json.dumps(dict(monitors=r['monitors'], outs=r.get('outs'), ends=r.get('ends')), default=str)[:2000])
    if hits:
        print(f'VIOLATION property={chk.prop} replay=(replayed)')
        return 1
    return 0
