"""C11 — Server starts all-or-nothing and stops completely.  DESIGN §5 C11, notes/C11.md."""
import importlib
import json
import sys

import core

PROPS = ['Props/C11.lean']
SCEN = 'scen_lifecycle'


def keyfn(case, res, m):
    """finding key = monitor rule + scenario class"""
    if 'proc' in case:      # E4 (real processes): class = diagnosis of who is still alive / where it is blocked
        return f"{m['rule']}:proc:{m.get('klass') or case['proc'].get('klass', '-')}"
    return f"{m['rule']}:thread"


def validate(chk, scen, results, label='correspondence:lifecycle'):
    """like Check.validate, but a run yields several driver sub-cases (`<k>.f`, `<k>.o`, `<k>.s0`, …);
    a run is validated iff all of them are accepted"""
    lines = []
    for k, (case, res) in enumerate(results):
        lines += scen.model_lines(k, case, res)
    out = core.run_driver('lifecycle', lines)
    verdict = {}
    for l in out:
        w = l.split(' ', 2)
        if len(w) >= 2 and w[0] in ('ok', 'REJECT', 'NOFINAL', 'MISMATCH'):
            verdict.setdefault(w[1].split('.')[0], []).append(l)
    want = {}
    for l in lines:
        if l.startswith('case '):
            k = l.split(' ', 2)[1].split('.')[0]
            want[k] = want.get(k, 0) + 1
    nval = 0
    for k, (case, res) in enumerate(results):
        vs = verdict.get(str(k), [])
        bad = [v for v in vs if not v.startswith('ok')]
        if len(vs) != want.get(str(k), 0):
            chk.corr_breaks.append(dict(model='lifecycle', case=case, verdict=f'driver answered {len(vs)} of {want.get(str(k), 0)} sub-cases: {vs}',
                                        events=res.get('events')))
        elif bad:
            chk.corr_breaks.append(dict(model='lifecycle', case=case, verdict=' || '.join(bad)[:1500], events=res.get('events'),
                                        monitors=res.get('monitors')))
        else:
            nval += 1
            chk.cov['subtraces'] = chk.cov.get('subtraces', 0) + len(vs)
    chk.cov['traces_validated_against_impl'] += nval
    return nval, len(results)


def run(chk):
    import time
    t0 = time.time()
    chk.audit(PROPS)
    t1 = time.time()
    sys.path.insert(0, str(core.HARNESS))
    scen = importlib.import_module(SCEN)
    big = chk.tier == 'thorough'
    n = 560 if not big else 30000
    cases = scen.boundary_cases()
    cases += [scen.gen_case(chk.rng, chk.tier, chk.rng.choice(['', 'residual', 'start'])) for _ in range(n)]
    results = chk.run_cases(SCEN, cases, sched=True)
    chk.account(scen, results, 'E1-detsched')
    chk.collect_monitors(results, {'C11'}, keyfn)
    validate(chk, scen, results)
    dist = {}
    for case, res in results:
        t = case['tree'][0]
        dist[t] = dist.get(t, 0) + 1
        dist['fail-plans'] = dist.get('fail-plans', 0) + (case['fail'] is not None)
        dist['model-events'] = dist.get('model-events', 0) + res.get('n_events', 0)
        for rsd in res.get('residual', []):
            kk = 'sessions-exited-with-residual-' + ('0' if rsd == 0 else '1-2' if rsd <= 2 else '3+')
            dist[kk] = dist.get(kk, 0) + 1
    chk.cov['distribution'] = dist
    for case, res in results[:300]:
        if scen.nontrivial(case, res) and case['tree'][0] != 'T':
            chk.sample(dict(case=case, events=[e[:40] for e in res.get('events', [])], phase=res.get('phase')))
            if len(chk.cov['samples']) >= 2:
                break
    # "the same server object can then be entered and used again" — AsyncServer on ANOTHER event loop (a second
    # asyncio.run): the C16 scenario's two_loops cases (a prior session of the same object on another loop with
    # callers waiting for room, then the session that is compared with Server); any disagreement or exception
    # there is a re-entry failure
    import scen_asrv
    tl = []
    while len(tl) < (150 if not big else 2000):
        c = scen_asrv.gen_case(chk.rng, chk.tier, '')
        if c['kind'] in ('srv_call', 'srv_stream'):
            c['two_loops'] = True
            tl.append(c)
    res_tl = chk.run_cases('scen_asrv', tl, sched=True)
    chk.account(scen_asrv, res_tl, 'E1-detsched+cooploop')
    for case, res in res_tl:
        hits = [m for m in res.get('monitors', []) if m['prop'] == 'C16' and
                m['rule'] in ('unexpected-exception', 'async-differs-from-sync', 'async-differs-from-spec', 'async-hangs-sync-does-not')]
        if hits:
            chk.violations.append(dict(rule='reenter-other-loop', detail='AsyncServer used again on another event loop: ' + hits[0]['detail'][:500],
                                       key='reenter-other-loop:asyncserver', case=case, events=res.get('events'), size=core._case_size(case)))
    chk.cov.setdefault('distribution', {})['asyncserver_reentered_on_another_loop'] = len(res_tl)
    if chk.corr_breaks and not chk.violations:
        # search around the disagreeing cases for a failing input
        more = []
        for b in chk.corr_breaks[:10]:
            for _ in range(40):
                c = dict(b['case'])
                c['seed'] = chk.rng.randrange(1 << 30)
                c['chooser'] = list(chk.rng.choice([('random', 0.05), ('sticky', 0.2, 0.05), ('sticky', 0.05, 0.0),
                                                    ('pct', 2, 800, 0.05), ('pct', 3, 800, 0.0)]))
                more.append(c)
        more += [scen.gen_case(chk.rng, chk.tier) for _ in range(400)]
        res2 = chk.run_cases(SCEN, more, sched=True)
        chk.account(scen, res2, 'E1-detsched')
        chk.collect_monitors(res2, {'C11'}, keyfn)
        chk.notes.append(f'correspondence broke on {len(chk.corr_breaks)} cases; escalated search over {len(more)} more cases')
    t2 = time.time()
    # ---- E4: trees with ProcessServlets, real processes (OS schedule, sampled) ----------------------------
    scen_proc = importlib.import_module('scen_lifecycle_proc')
    pcases = scen_proc.gen_cases(chk.rng, chk.tier)
    presults = chk.run_cases('scen_lifecycle_proc', pcases, sched=False, per_case_timeout=400.0)
    chk.account(scen_proc, presults, 'E4-processes')
    chk.collect_monitors(presults, {'C11'}, keyfn)
    pd = {}
    for case, res in presults:
        kk = case['proc']['klass']
        pd[kk] = pd.get(kk, 0) + 1
        pd['max_t_exit_s'] = max([pd.get('max_t_exit_s', 0.0)] + list(res.get('t_exit') or []))
    chk.cov['distribution']['E4'] = pd
    chk.notes.append(f'wall: lean audit {t1 - t0:.1f}s, E1 {t2 - t1:.1f}s, E4 {time.time() - t2:.1f}s')
    chk.add_obligation('correspondence', 'lifecycle: start order/error/survivors == startServer; every queue put/get and join of '
                       'the real Server replayed through Lifecycle.step (E1, thread servlets)', not chk.corr_breaks)
    chk.cov['rule'] = ('cases = fixed boundary set (8 tree shapes x every failing worker position) + random (servlet tree of depth<=2 '
                       '(3 thorough) over ThreadServlet(k<=3)/Sequential/Ensemble/Switch, failing worker (sv, idx) or none, capacity, two '
                       'workloads of calls (failing / timed-out) and streams (abandoned early), chooser, seed), each run as: [failing '
                       '__enter__] -> enter -> workload -> exit -> re-enter -> workload + follow-up call -> exit on the real Server under '
                       'the deterministic scheduler; non-trivial = >= 1 context switch and >= 6 queue/join events replayed through the '
                       'model; distinct = distinct (case, event trace).  E4: fixed classes on real processes (failing worker index x 5 tree '
                       'shapes with ProcessServlets; abandoned stream of 300-1000 x 1-4 kB inputs > pipe buffer; 50 kB intermediate results '
                       'with one / three first-stage workers; small workloads on ensemble/switch/sequence shapes), each: [failing enter] -> '
                       'enter -> stream (abandoned) -> exit (hang bound 20 s) -> re-enter -> stream + call -> exit, children/threads '
                       'counted against the baseline')
    chk.trusted += TRUSTED
    chk.assumptions += ASSUMPTIONS


TRUSTED = [
    'Lean 4.33.0 kernel; axioms per theorem as listed in coverage.obligation_list (subset of propext, Classical.choice, Quot.sound)',
    'hand-written model lean/MpsVerif/Model/Lifecycle.lean (start function on servlet trees; stop protocol as a network of threads and '
    'FIFO queues compiled from the tree), tied to /repo on every run: start order / error / surviving threads compared with startServer, '
    'and every queue put/get + main-thread join of the real Server replayed through Lifecycle.step by drv lifecycle',
    'harness/scen_lifecycle.py mirrors the channel/node numbering of compileServer (a wrong mirror is rejected by the replay, it cannot make it pass)',
    'deterministic scheduler harness/detsched.py (replaces threading primitives, SimpleQueue, clock)',
    'modelled not verified: queue.SimpleQueue is FIFO and unbounded; a pipe-backed queue holds K data messages and always has room for a '
    'sentinel; Thread.join returns iff the thread has exited; requests are anonymous in the model (identity is C02)',
    'binary trees only: n-ary SequentialServlet == nested binary (same threads/queues, exercised both ways); ensembles/switches with > 2 '
    'members, batching workers (batch_size > 1: extra collector thread, two sentinels per worker) and AsyncServer.__aexit__ are not in the model',
]
ASSUMPTIONS = [
    'C11_stop_complete holds only as C11_stop_complete_partial (thread queues); for pipe-backed queues the full statement is false (F19, '
    'kernel-checked witness C11_F19_witness); the well-formedness of the compiled network is evaluated per tree (Net.wf), not proved for all trees',
    'the correspondence was checked on the schedules explored in this run only; the theorems quantify over all schedules of the model',
    'ProcessServlet trees run under the OS scheduler (sampled); thread accounting there is by process/thread counts against the baseline',
]


def replay(chk, data):
    case = data['case']
    if case.get('kind') in ('srv_call', 'srv_stream'):
        res = chk.run_cases('scen_asrv', [case], sched=True)
        _c, r = res[0]
        hits = [m for m in r.get('monitors', []) if m['prop'] == 'C16']
        print(json.dumps(dict(monitors=r.get('monitors')), default=str)[:2000])
        if hits:
            print(f'VIOLATION property={chk.prop} replay=(replayed)')
            return 1
        return 0
    res = chk.run_cases(SCEN, [case], sched='proc' not in case)
    case, r = res[0]
    hits = [m for m in r['monitors'] if m['prop'] == chk.prop]
    print(json.dumps(dict(monitors=r['monitors'], phase=r.get('phase'), deadlock=r.get('deadlock')), default=str)[:2000])
    if hits:
        print(f'VIOLATION property={chk.prop} replay=(replayed)')
        return 1
    return 0
