"""C12 — Process and Thread objects report how their target really ended.  DESIGN §5 C12."""
import collections
import json

import core
import scen_proc

PROPS = ['Props/C12.lean', 'Legacy/ProcOutcome.lean', 'Legacy/ExitRace.lean']


def keyfn(case, res, m):
    k = case.get("kill")
    cls = (k["phase"] + "-" + ("term" if k["sig"] == 15 else "sig")) if k else "nokill"
    return f"{m['rule']}:{case['kind']}:{cls}{':flood' if case.get('flood') else ''}"


def build_cases(chk):
    rng = chk.rng
    b = scen_proc.boundary_cases()
    if chk.tier == 'quick':
        # a seeded slice of the boundary product: every (kind, representative outcome) without kill
        # and every (phase, signal) with kill appears; the first accessor rotates with the seed
        by = collections.defaultdict(list)
        for c in b:
            k = c.get('kill')
            how = c.get('raise_how') or 'plain'
            okey = '-' if k else ('notarget' if c.get('notarget') else str(c['outcome']) if how == 'plain' else 'how:' + how)
            by[(c['kind'], okey, k['phase'] if k else None, k['sig'] if k else None)].append(c)
        cases = []
        for key in sorted(by, key=str):
            grp = by[key]
            cases += rng.sample(grp, min(len(grp), 3 if key[2] else 2))
        # every way of handing the arguments over (positional, a kwargs dict the caller keeps, a temporary one, both)
        # meets every kill class: rotate over the killed cases of the slice
        j = rng.randrange(4)
        for i, c in enumerate(cases):
            if c.get('kill'):
                cases[i] = dict(c, argform=scen_proc.ARGFORMS[(i + j) % 4])
        n = 110
    else:
        cases = list(b)
        n = 6000
    cases += [scen_proc.gen_case(rng, chk.tier) for _ in range(n)]
    cases += [scen_proc.heavy_log_case(rng, sig) for sig in ([9, 15] if chk.tier == 'quick' else [9, 15, 10, 1] * 5)]
    cases += [scen_proc.random_kill_case(rng, chk.tier) for _ in range(40 if chk.tier == 'quick' else 1200)]
    nf = 12 if chk.tier == 'quick' else 72
    cases += [scen_proc.flush_kill_case(rng, (k % 12 + rng.random()) / 12) for k in range(nf)]     # 12 strata of the 1.5 s
    cases += [scen_proc.midmsg_kill_case(rng) for _ in range(12 if chk.tier == 'quick' else 120)]
    return cases


def run(chk):
    chk.audit(PROPS)
    cases = build_cases(chk)
    results = chk.run_cases('scen_proc', cases, sched=False, per_case_timeout=150.0)
    results = scen_proc.recheck_hangs(chk, 'scen_proc', results, scen_proc.case_class)
    chk.account(scen_proc, results, 'E4-processes')
    chk.collect_monitors(results, {'C12'}, keyfn)
    scen_proc.validate_parallel(chk, 'procoutcome', scen_proc, results, nproc=4)
    if chk.corr_breaks and not chk.violations:
        # the model disagrees with the code but no monitor fired: look around the disagreeing cases
        more = []
        for b in chk.corr_breaks[:8]:
            for _ in range(6):
                c = dict(b['case'])
                order = list(scen_proc.ACCESSORS)
                chk.rng.shuffle(order)
                c['order'] = order
                c['seed'] = chk.rng.randrange(1 << 30)
                more.append(c)
        more += [scen_proc.gen_case(chk.rng, chk.tier) for _ in range(60)]
        res2 = chk.run_cases('scen_proc', more, sched=False, per_case_timeout=150.0)
        chk.account(scen_proc, res2, 'E4-processes')
        chk.collect_monitors(res2, {'C12'}, keyfn)
        chk.notes.append(f'correspondence broke on {len(chk.corr_breaks)} cases; escalated search over {len(more)} more cases')
    # recogniser: does the failing behaviour match the legacy model's proven counterexample?
    for v in chk.violations:
        ans = dict((a, r) for a, r in (v.get('events') or []) if isinstance(a, str))
        k = v['case'].get('kill')
        if k and k['sig'] != 15 and k['phase'] != 'after' and (
                'HANG' in (ans.get('wait'), ans.get('as_completed')) or str(ans.get('exception', '')).startswith('raise:oserror')):
            chk.notes.append('behaviour matches Legacy/ProcOutcome.lean F13_witness: the collector raised instead of resolving the future '
                             '(wait/as_completed blocked, exception() raises) - defect F13 is present')
            break
    dist = collections.Counter(scen_proc.case_class(c) for c, _ in results)
    rnd = collections.Counter(str(r.get('resolved_phase')) for c, r in results if (c.get('kill') or {}).get('phase') == 'random')
    chk.cov['distribution'] = dict(random_kill_resolved_phase=dict(rnd), case_classes=dict(sorted(dist.items())),
                                   first_accessor=dict(collections.Counter(c['order'][0] for c, _ in results)),
                                   wall_median_s=sorted(r.get('wall', 0) for _, r in results)[len(results) // 2])
    for case, res in results:
        if case.get('kill') and scen_proc.nontrivial(case, res) and (len(chk.cov['samples']) < 2 or case['kill']['phase'] == 'random'):
            chk.sample(dict(case=case, answers=res.get('answers'), early=res.get('early_answers')))
    chk.cov['rule'] = (
        'cases = a seeded slice (quick) / all (thorough) of the boundary product {outcome class} x {kill phase before/'
        'during/between/after} x {signal 9, 15, 10, 1} x {first accessor} for Process and Thread, plus random cases '
        '(outcome incl. value/exception/exit-code universes, kill, accessor order, early non-blocking asks, first accessor already '
        'blocked when the signal arrives, arguments handed over positionally / in a kwargs dict the caller keeps / in a temporary '
        'dict, targets failing by plain raise / raise inside except / raise-from / an exception out of an inner mpservice '
        'Thread or Process), plus signals at random moments (anchored at start() or at the target\'s start; the '
        'answers must be the table row of some phase), plus kills of a child that is logging heavily or still flushing its '
        'logs after it sent its result; each case runs the REAL mpservice Process/Thread in a fresh interpreter in its own '
        'session; non-trivial = the worker was started and every accessor call in the case\'s order returned or was '
        'classified (HANG); distinct = distinct (case, canonical answers)')
    chk.trusted += TRUSTED
    chk.assumptions += ASSUMPTIONS


TRUSTED = [
    'Lean 4.33.0 kernel; axioms per theorem as listed in coverage.obligation_list (subset of propext, Classical.choice, Quot.sound)',
    'hand-written model lean/MpsVerif/Model/ProcOutcome.lean, tied to /repo on every run: the accessor answers of real '
    'Process/Thread runs are replayed through the model\'s own step function (drv procoutcome, two schedules per case) and must be equal',
    'harness/scen_proc.py (inner/outer runner, canonicalisation of values/exceptions/traceback text, kill phases produced without hooks)',
    'modelled not verified: multiprocessing.Connection framing and EOF semantics, exit status of signalled / exiting children, '
    'concurrent.futures.Future and wait/as_completed, threading.Thread.join; the logger thread stops after the end mark (C20)',
    'OS schedule sampled, not controlled: the quantifier over interleavings and over the exact kill moment is carried by the theorems',
]
ASSUMPTIONS = [
    'signals considered are those whose disposition in the child is "terminate" (SIGINT is an exception in the target, i.e. a raise outcome)',
    'when the child did not end by itself the collector gives the logger thread 1 s to drain what the dead child left in the log pipe '
    '(it may hold a torn record or a held write lock); what the parent handles of a killed child\'s records is not part of C12/C20',
    'return values and exception arguments are picklable; sys.exit codes are reported modulo 256 by the OS',
    'Thread: the future object exists only once run() has begun; wait() in the few bytecodes between start() returning and that moment is not modelled',
]


def replay(chk, data):
    """the OS schedule is not controlled: a timing-dependent failure may need several attempts"""
    for attempt in range(1, 6):
        res = chk.run_cases('scen_proc', [data['case']], sched=False, per_case_timeout=3600.0)
        case, r = res[0]
        hits = [m for m in r['monitors'] if m['prop'] == chk.prop]
        print(json.dumps(dict(attempt=attempt, monitors=r['monitors'], answers=r.get('answers'), early=r.get('early_answers')),
                         default=str)[:2000])
        if hits:
            print(f'VIOLATION property={chk.prop} replay=(replayed)')
            return 1
    return 0
