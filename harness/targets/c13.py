"""C13 — hosted objects live exactly as long as some proxy refers to them.  DESIGN §5 C13."""
import json

import core
import scen_refcount

PROPS = ['Props/C13.lean']


def keyfn(case, res, m):
    # finding key = monitor rule + the kind of operation after which the property failed
    k = len(res.get('steps', [])) - 1
    op = case['steps'][k]['op'].split(':')[0] if 0 <= k < len(case['steps']) else '-'
    return f"{m['rule']}:{op}"


def run(chk):
    chk.audit(PROPS)
    n = 100 if chk.tier == 'quick' else 1000
    results = core.e1_flow(chk, 'scen_refcount', 'refcount', {'C13'},
                 lambda rng: scen_refcount.gen_case(rng, chk.tier),
                 n, keyfn=keyfn, sched=False, engine='E4-manager-processes+lean',
                 corpus=scen_refcount.boundary_cases(), escalate_n=60 if chk.tier == 'quick' else 600)
    chk.cov['rule'] = (
        'cases = random histories (quick: <= 12 operations + wind-down, thorough: <= 60) over {create, pickle, '
        'unpickle once, pass to a spawned child (mpservice or stdlib spawn Process; proxies dropped before or still held '
        'at exit), store in / extend / pop / del / read one / read all / clear on hosted list and dict, pass as an '
        'argument to a method that returns or raises without keeping it, managed() returns (list, dict, memory block, bundle, view of an existing '
        'object, method_to_typeid), delete proxy, child exits} issued by the director and 1-7 client processes '
        'against a real ServerProcess — in half of the cases against TWO independent ServerProcess managers A and B '
        '(a quarter of the one-manager cases with an explicit authkey; a registered get-or-create callable called again '
        'while its object is hosted; FORKed children of single-threaded clients inheriting all proxies through memory) '
        '(objects created on either; proxies of objects hosted by one server stored in / read back from / removed from / '
        'dropped with containers hosted by the other, by the director and by child processes; tables of both servers '
        'checked after every step); after every step the server table (debug_info ids/refcounts), /dev/shm files '
        'and a call through every live proxy are checked; the same history and the observed tables are replayed '
        'through Core.run Refcount.step + quiesce by `drv refcount`. non-trivial = >= 2 client processes, >= 3 '
        'different operation kinds, history ran to its end; distinct = distinct (case, event list)')
    chk.cov['distribution'] = _distribution(results)
    chk.trusted += TRUSTED
    chk.assumptions += ASSUMPTIONS


def _distribution(results):
    from collections import Counter
    ops, clients, steps, procs, settle = Counter(), Counter(), Counter(), Counter(), []
    for case, res in results:
        for st in case['steps']:
            ops[st['op']] += 1
            for so in st.get('sub_ops', []):
                ops['par/' + so] += 1
        clients[case['n_clients']] += 1
        steps[10 * (len(case['steps']) // 10)] += 1
        procs[case['proc_cls']] += 1
        ops['cases-with-two-servers'] += bool(case.get('two_servers'))
        ops['cross-server-stores'] += sum(1 for st in case['steps'] if st.get('cross'))
        settle += [rec['obs']['settle_s'] for rec in res.get('steps', []) if rec.get('obs')]
    settle.sort()
    return dict(operations=dict(ops), processes_per_case=dict(clients), steps_per_case_by_10=dict(steps),
                child_process_class=dict(procs), observations=len(settle),
                settle_s_median=settle[len(settle) // 2] if settle else None,
                settle_s_max=settle[-1] if settle else None)


TRUSTED = [
    'Lean 4.33.0 kernel; axioms per theorem as listed in coverage.obligation_list (subset of propext, Classical.choice, Quot.sound)',
    'hand-written model lean/MpsVerif/Model/Refcount.lean; tied to /repo on every run by replaying each executed history '
    'and the observed server tables through the same step/quiesce definitions the theorems are about (drv refcount)',
    'macro expansion of a harness operation into atomic model actions (Drv/Refcount.lean `expand`) and the harness '
    'bookkeeping of which proxies/pickles exist (scen_refcount.Tracker)',
    'modelled, not verified: util.Finalize runs its callback exactly once (on collection, or at process exit when it '
    'has an exit priority); CPython frees an object when its last reference goes; stdlib Server.decref/_handle_request; '
    'SharedMemory.unlink removes /dev/shm/<name>',
    'OS schedule across processes is sampled, not controlled (engine E4); the quantifier over interleavings is carried by the theorems only',
]
ASSUMPTIONS = [
    'processes exit normally (exit handlers run); a killed client cannot give its references back and is outside the property',
    'every pickle of a proxy is un-pickled exactly once (property statement)',
    'hosted containers are the registered list/dict; proxies are not stored inside objects that live on after their entry is dropped',
    'start method spawn (the only one mpservice uses); fork/forkserver inheritance of proxies is not exercised',
]


def replay(chk, data):
    res = chk.run_cases('scen_refcount', [data['case']], sched=False)
    case, r = res[0]
    hits = [m for m in r['monitors'] if m['prop'] == chk.prop]
    print(json.dumps(dict(monitors=r['monitors'], steps=len(r.get('steps', []))), default=str)[:2000])
    if hits:
        print(f'VIOLATION property={chk.prop} replay=(replayed)')
        return 1
    return 0
