"""C14 — proxy calls behave like direct calls on the hosted object.  DESIGN §5 C14."""
import json

import core
import scen_proxycall

PROPS = ['Props/C14.lean']


def keyfn(case, res, m):
    # finding key = monitor rule (+ the operation for wrong results; + the type for unusable proxy types)
    ev = res.get('events') or [['-', '-']]
    if m['rule'] in ('traceback', 'hang', 'call-failed', 'lost-update', 'dead-proxy', 'concurrent-managed', 'method-missing',
                     'inplace-rebinds', 'argument-not-delivered'):
        return m['rule']
    if m['rule'] == 'unusable-proxy-type':
        return f"{m['rule']}:{ev[-1][1]}"
    if m['rule'] == 'error':
        k = len(ev) - 1
        addr = case['ops'][k].get('addr') if 0 <= k < len(case['ops']) else None
        kind = next((o['kind'] for o in case['objs'] if o['addr'] == addr), 'view')
        return f"error:{kind}"
    return f"{m['rule']}:{ev[-1][0]}"


def run(chk):
    chk.audit(PROPS)
    n = 150 if chk.tier == 'quick' else 3000
    kinds = ['list', 'dict', 'ns', 'value', 'counter']
    corpus = scen_proxycall.boundary_cases() + [
        scen_proxycall.gen_case(__import__('random').Random(f'c14-{k}'), chk.tier, bias=k) for k in kinds]
    results = core.e1_flow(chk, 'scen_proxycall', 'proxycall', {'C14'},
                 lambda rng: scen_proxycall.gen_case(rng, chk.tier, bias=rng.choice(['', '', 'counter', 'ns'])),
                 n, keyfn=keyfn, sched=False, engine='E4-manager-processes+lean', corpus=corpus,
                 escalate_n=100 if chk.tier == 'quick' else 1000)
    chk.cov['rule'] = (
        '40 % of the cases on TWO manager servers (proxies of objects of one server as arguments / stored values of calls on '
        'objects of the other), a quarter of the others with an explicit manager authkey; cases = 2-5 hosted objects (list, dict, Namespace, Value, custom Counter) on a real ServerProcess, proxies to '
        'all of them held by the director and 1-2 spawned client processes; random history (quick <= 12, thorough <= 60 '
        'operations + a final read of every object) of list/dict/namespace/value/Counter methods with arbitrary '
        'picklable arguments (ints, None, bools, str, big int, tuples, nested lists/dicts, bytes, float, frozenset, '
        'proxies), boundary indices (-7..5 on short lists), missing keys/attributes, methods that mutate and raise '
        '(4 exception classes), managed() views of the same value handed out several times and dropped one by one '
        '(every remaining view is called right after each drop), a Hub handing out managed() proxies (no typeid) of two '
        'classes that share their name/typeid but not their methods, both proxied in one process in either order, '
        'in-place operators (`x *= k`, `x += vs` with x bound to a list proxy: x must stay the proxy), storms of '
        'concurrent calls returning managed(<ad-hoc class instance>) from 2-3 threads in 1-3 processes next to a thread '
        'creating objects with a slow constructor (every call must give a live proxy behaving like the object; 15 s hang bound), proxies used inside the server incl. a hosted '
        'method calling another hosted method that raises, and append batches issued '
        'concurrently from up to 3 threads in each of up to 3 processes; every outcome is compared with the same '
        'operation on local Python objects (monitor; for exceptions also the [function, line] frames of the hosted '
        'methods in the server-side traceback vs. the direct call) and with proxyStep pySem in `drv proxycall` (tie), which also '
        'checks the final state of each object. non-trivial = >= 2 client processes, >= 2 object kinds, >= 4 '
        'operations, history ran to its end; distinct = distinct (case, event list)')
    from collections import Counter
    ops, kinds, outcomes = Counter(), Counter(), Counter()
    for case, res in results:
        for o in case['objs']:
            kinds[o['kind']] += 1
        for op, o in res.get('lin', []):
            ops[op['m']] += 1
            outcomes['raised ' + o[1] if o[0] == 'exc' else 'returned'] += 1
        ops['concurrent-batch'] += sum(1 for op in case['ops'] if 'par' in op)
    chk.cov['distribution'] = dict(operations=dict(ops), object_kinds=dict(kinds), outcomes=dict(outcomes))
    chk.trusted += TRUSTED
    chk.assumptions += ASSUMPTIONS


TRUSTED = [
    'Lean 4.33.0 kernel; axioms per theorem as listed in coverage.obligation_list (subset of propext, Classical.choice, Quot.sound)',
    'hand-written model lean/MpsVerif/Model/ProxyCall.lean (proxy machinery generic in the hosted classes; concrete '
    'semantics pySem of list/dict/Namespace/Value/Counter); tied to /repo on every run by replaying every executed '
    'history through proxyStep pySem and comparing every outcome and the final objects (drv proxycall)',
    'the harness encoding of Python values as model values (scen_proxycall.Enc: plain values interned by canonical form) '
    'and the local reference objects (same Python classes, called directly)',
    'modelled, not verified: pickle round-trips plain values; Connection send/recv deliver whole messages in order; '
    'CPython executes a single list/dict method atomically (GIL)',
    'OS schedule across processes/threads is sampled, not controlled (engine E4); concurrent batches are checked '
    'against their observed linearisation',
]
ASSUMPTIONS = [
    'each hosted method is one atomic step of the heap (custom classes must lock themselves; module docstring)',
    'values are compared up to copying (a plain argument/result is a copy, as with any pickling transport); '
    'exception messages are compared with the local call, the Lean model carries the exception class only',
    'requests go to idents that are hosted when issued (C13); otherwise RemoteError (theorem C14_unhosted_remoteError)',
    'dict keys in generated histories are ints/str/tuples (no bool/float keys, whose Python equality crosses types)',
]


def replay(chk, data):
    res = chk.run_cases('scen_proxycall', [data['case']], sched=False)
    case, r = res[0]
    hits = [m for m in r['monitors'] if m['prop'] == chk.prop]
    print(json.dumps(dict(monitors=r['monitors'], ops=len(r.get('lin', []))), default=str)[:2000])
    if hits:
        print(f'VIOLATION property={chk.prop} replay=(replayed)')
        return 1
    return 0
