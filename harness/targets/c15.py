"""C15 — exceptions keep type, args and traceback text across processes.  DESIGN §5 C15."""
import importlib
import json
import sys

import core

PROPS = ['Props/C15.lean', 'Legacy/RemoteExc.lean']
SCEN = 'scen_remoteexc'
MODEL = 'remoteexc'


def _leaf(cls, state='live', depth=3, chain='none'):
    return dict(cls=cls, argseed=7, depth=depth, chain=chain, chain_depth=2, state=state)


def _ens(entries, state='live'):
    return dict(ens=entries, n=len(entries), depth=2, chain='none', chain_depth=1, state=state, argseed=0, cls=-1)


def _hops(pattern):
    return [dict(proc=f'SpawnProcess-{k + 1}', rr=(2 if c == 'r' else 0), arg='d', tbdepth=1) for k, c in enumerate(pattern)]


# fixed cases run first on every run (the minimal forms of past findings and the design spike's cases)
CORPUS = [
    # F22: one exception object wrapped twice (different texts) in one EnsembleError
    dict(kind='ens', tree=_ens([dict(t='rem', e=_leaf(0)), dict(t='rem', share=0, depth=2)]), hops=_hops('f'), seed=1),
    dict(kind='ens', tree=_ens([dict(t='rem', e=_leaf(4, 'recv')), dict(t='val', v=2), dict(t='rem', share=0, depth=1),
                                dict(t='rem', share=0, depth=3)]), hops=_hops('frf'), seed=2),
    # the design spike: cause chain, three hops forward / re-raise / mixed
    dict(kind='leaf', tree=_leaf(0, depth=4, chain='cause'), hops=_hops('fff'), seed=3),
    dict(kind='leaf', tree=_leaf(19, depth=4, chain='cause2'), hops=_hops('rrr'), seed=4),
    dict(kind='leaf', tree=_leaf(15, depth=6, chain='context'), hops=_hops('frfrf'), seed=5),
    # nested ensembles, bare members, five re-raising hops
    dict(kind='ens', tree=_ens([dict(t='rem', e=_ens([dict(t='exc', e=_leaf(1)), dict(t='val', v=1)])),
                                dict(t='exc', e=_leaf(13, 'recv')), dict(t='rem', e=_leaf(12))]), hops=_hops('frrrr'), seed=6),
    # the guard: no traceback at the top / nested
    dict(kind='boundary', tree=_leaf(0, 'dead'), hops=_hops('f'), seed=7),
    dict(kind='boundary', tree=_ens([dict(t='exc', e=_leaf(0, 'dead'))]), hops=_hops('ff'), seed=8),
]


def keyfn(case, res, m):
    return f"{m['rule']}:{case['kind']}"


def _scen():
    sys.path.insert(0, str(core.HARNESS))
    if str(core.REPO / 'src') not in sys.path:
        sys.path.insert(0, str(core.REPO / 'src'))
    return importlib.import_module(SCEN)


def differential(chk, scen, results):
    """every case: the model's executable definitions (`drv remoteexc`: `RemoteExc.step` /
    `hopWith`, `Exc.ok`) on the origin graph read off the real objects, hop by hop, against what
    the real code produced"""
    lines = []
    for k, (case, res) in enumerate(results):
        lines += scen.model_lines(k, case, res)
    out = core.run_driver(MODEL, lines) if lines else []
    per = {}
    for l in out:
        w = l.split(' ', 2)
        if len(w) >= 2 and w[0] in ('out', 'wrp', 'okq', 'memo', 'BAD'):
            per.setdefault(w[1], []).append(l)
    nval = 0
    for k, (case, res) in enumerate(results):
        if res.get('skipped'):
            continue
        diff = scen.compare_with_model(k, case, res, per.get(str(k), []))
        if diff is None:
            nval += 1
        else:
            chk.corr_breaks.append(dict(model=MODEL, case=case, verdict='MISMATCH ' + diff, events=res.get('events'),
                                        monitors=res.get('monitors')))
    chk.cov['traces_validated_against_impl'] += nval
    return nval


def _distribution(chk, results):
    d = chk.cov['distribution']
    for case, res in results:
        d.setdefault('kind', {})
        d['kind'][case['kind']] = d['kind'].get(case['kind'], 0) + 1
        if res.get('skipped'):
            d['skipped_unpicklable'] = d.get('skipped_unpicklable', 0) + 1
            continue
        if res.get('crash'):
            d['code_under_test_raised'] = d.get('code_under_test_raised', 0) + 1
            continue
        nh = sum(1 for h in res['hops'] if h['obs'] not in ('none', 'error'))
        if res.get('memo_obs') is not None:
            d['heap_model_payloads'] = d.get('heap_model_payloads', 0) + 1
            d['heap_model_payloads_with_shared_object'] = d.get('heap_model_payloads_with_shared_object', 0) + int(bool(res.get('memo_shared')))
        if res.get('xproc'):
            d['cross_process_hops'] = d.get('cross_process_hops', 0) + nh
        d.setdefault('hops_done', {})
        d['hops_done'][str(nh)] = d['hops_done'].get(str(nh), 0) + 1
        if any(h['obs'] == 'none' for h in res['hops']):
            d['valueerror_cases'] = d.get('valueerror_cases', 0) + 1
        d['reraise_hops'] = d.get('reraise_hops', 0) + sum(1 for h in case['hops'][:len(res['hops'])] if h['rr'])
        d['forward_hops'] = d.get('forward_hops', 0) + sum(1 for h in case['hops'][:len(res['hops'])] if not h['rr'])
        d['explicit_tb_hops'] = d.get('explicit_tb_hops', 0) + sum(1 for h in case['hops'][:len(res['hops'])] if h['arg'] != 'd')
        n, depth = _count(case['tree'])
        d.setdefault('ensemble_depth', {})
        d['ensemble_depth'][str(depth)] = d['ensemble_depth'].get(str(depth), 0) + 1
        d['nested_exceptions'] = d.get('nested_exceptions', 0) + n - 1
        d['shared_object_entries'] = d.get('shared_object_entries', 0) + res['info'].get('shared', 0)
        d.setdefault('classes', {})
        for c, k in res['info']['classes'].items():
            d['classes'][c] = d['classes'].get(c, 0) + k


def _count(tree):
    if tree.get('ens') is None:
        return 1, 0
    n, d = 1, 1
    for ent in tree['ens']:
        if ent['t'] != 'val':
            a, b = _count(ent['e']) if 'e' in ent else (1, 0)
            n += a
            d = max(d, 1 + b)
    return n, d


def _round(chk, scen, cases):
    results = chk.run_cases(SCEN, cases, sched=False)
    chk.account(scen, results, 'E3-differential')
    chk.collect_monitors(results, {'C15'}, keyfn)
    differential(chk, scen, results)
    _distribution(chk, results)
    # diagnosis: what the model side says about the cases on which a monitor fired
    verdicts = {json.dumps(b['case'], sort_keys=True): b['verdict'] for b in chk.corr_breaks}
    for v in chk.violations:
        d = verdicts.get(json.dumps(v['case'], sort_keys=True))
        if d and 'model:' not in v['detail']:
            v['detail'] += ' || model: ' + d[:700]
    return results


def run(chk):
    chk.audit(PROPS)
    scen = _scen()
    n = 1500 if chk.tier == 'quick' else 250000
    kinds = ['', '', '', 'leaf', 'ens', 'ens', 'boundary']
    # a few cases whose hops go through a real child process and multiprocessing queues
    nx = 8 if chk.tier == 'quick' else 64
    batch = 25000                      # results carry the atomic text pieces: bound the memory held at once
    done = 0
    while done < n:
        k = min(batch, n - done)
        cases = [scen.gen_case(chk.rng, chk.tier, chk.rng.choice(kinds)) for _ in range(k)]
        if done == 0:
            syst = scen.systematic_cases(chk.tier)
            chk.cov['distribution']['systematic_cases'] = len(syst)
            cases = json.loads(json.dumps(CORPUS)) + [scen.gen_xproc_case(chk.rng, chk.tier) for _ in range(nx)] + syst + cases
        results = _round(chk, scen, cases)
        done += k
        for case, res in results[:400]:
            if len(chk.cov['samples']) >= 3:
                break
            if scen.nontrivial(case, res) and (case['kind'] == 'ens' or len(chk.cov['samples']) < 1):
                chk.sample(dict(case=case, origin=res['origin'], names=res['names'],
                                hops=[[h['line'], scen._short(h['obs'])] for h in res['hops']]))
        del results
        if chk.violations:
            break
    if chk.corr_breaks and not chk.violations:
        # the model no longer predicts the code: look for a failing input around the disagreeing cases
        more = []
        for b in chk.corr_breaks[:10]:
            for _ in range(3 if b['case'].get('xproc') else 40):
                c = json.loads(json.dumps(b['case']))
                fresh = scen.gen_case(chk.rng, chk.tier, c['kind'])
                if not c.get('xproc'):
                    c['hops'] = fresh['hops']
                c['seed'] = fresh['seed']
                more.append(c)
        more += [scen.gen_case(chk.rng, chk.tier, chk.rng.choice(kinds)) for _ in range(n)]
        nb = len(chk.corr_breaks)
        _round(chk, scen, more)
        chk.notes.append(f'correspondence broke on {nb} cases; escalated search over {len(more)} more cases')
    chk.add_obligation('correspondence', 'drv remoteexc: RemoteExc.step/hopWith/Exc.ok = real RemoteException hops on every generated case',
                       not chk.corr_breaks, cases=chk.cov['traces_validated_against_impl'])
    chk.cov['rule'] = (
        'cases = 8 fixed corpus cases + a seed-independent systematic stream (every class of the library x chain kind x '
        'every forward/re-raise pattern of <= 3 hops (thorough: <= 4), and every class as RemoteException / bare / shared '
        'member of an EnsembleError) + random (exception tree, hop list): leaf class from a library of builtin / custom / generated classes '
        '(custom __init__ calling super().__init__, attribute state, custom __reduce__, notes, ExceptionGroup), argument '
        'tuples, traceback depth 1-6 (boundary 12/30), cause / two-level cause / context chains, EnsembleError nesting '
        'depth 0-2 with plain values, RemoteException members, bare live / already-remote / traceback-less members; '
        '1-5 hops (thorough: 1-8), each with a process name, forward or re-raise (new depth), tb argument None / str / '
        'traceback object; boundary stream (one hop, no traceback at the top or nested, empty result list, values only, '
        'unpicklable class, all-explicit tb).  "Picklable" is an explicit predicate evaluated on the real objects '
        '(class and args survive plain pickle); failing cases are counted as skipped_unpicklable and not run.  '
        'non-trivial = at least one hop done and (>= 2 hops done or >= 1 nested exception); '
        'distinct = distinct (case, origin graph, observed results)')
    chk.trusted += TRUSTED
    chk.assumptions += ASSUMPTIONS


TRUSTED = [
    'Lean 4.33.0 kernel; axioms per theorem as listed in coverage.obligation_list (subset of propext, Classical.choice, Quot.sound)',
    'hand-written model lean/MpsVerif/Model/RemoteExc.lean, tied to /repo on every run by exact differential comparison '
    '(class, args, is_remote, nested structure, and the full remote text of every exception after every hop) through drv remoteexc',
    'the text mapping of harness/scen_remoteexc.py: one token per atomic string observed on the real objects before the code '
    'under test runs; predicted token lists are expanded by concatenation and compared with the real strings (sha1)',
    'modelled not verified: pickle keeps class and args of a picklable exception (generator predicate) and drops '
    '__traceback__/__cause__/__context__; traceback.format_exception prints cause-chain ++ own part and prints a '
    'RemoteTraceback cause as "<qualified name>: " + text + "\\n" (both re-checked on every case by the exact text comparison)',
    'hops are pickle round trips inside one process with multiprocessing.current_process().name changed per hop; real '
    'inter-process transport (queues, pipes) is covered by C12/C18, not here',
]
ASSUMPTIONS = [
    'the correspondence was checked on the cases generated in this run only; the theorems quantify over all classes, '
    'arguments, texts, hop lists and nesting depths of the model',
    're-raise means a plain `raise e` (no `from`): `raise e from other` overwrites __cause__ and with it the remote text',
    "EnsembleError's own message (args[0]) is recomputed on unpickling; it is compared modulo the RemoteException(...) "
    'wrapper around the first error (see notes/C15.md)',
]


def replay(chk, data):
    scen = _scen()
    if 'case' not in data and data.get('correspondence_breaks'):
        data['case'] = data['correspondence_breaks'][0]['case']      # a `no-failing-input-found` replay file
    data['case']['verbose'] = True
    res = chk.run_cases(SCEN, [data['case']], sched=False)
    case, r = res[0]
    for k, t in enumerate(r.get('texts', [])):
        print(f'--- {"originally formatted traceback / carried text" if k == 0 else f"remote traceback text after hop {k - 1}"}:')
        print(t)
    for path, t in r.get('nested_texts', []):
        print(f'--- nested exception {path} after the last hop:')
        print(t)
    hits = [m for m in r['monitors'] if m['prop'] == chk.prop]
    differential(chk, scen, res)
    print(json.dumps(dict(monitors=r['monitors'], origin=r.get('origin'), skipped=r.get('skipped'),
                          hops=[[h['line'], scen._short(h['obs'])] for h in r['hops']],
                          model=[b['verdict'] for b in chk.corr_breaks]), default=str)[:4000])
    if hits:
        print(f'VIOLATION property={chk.prop} replay=(replayed)')
        return 1
    if chk.corr_breaks:
        print(f'VIOLATION property={chk.prop} replay=(replayed) no-failing-input-found')
        return 1
    return 0
