"""C16 — async variants give the same answers as their sync counterparts.  DESIGN §5 C16."""
import importlib
import json
import sys

import core

PROPS = ['Props/C16.lean']
SCEN = 'scen_afifo'      # E2: pure-asyncio variants under the virtual-time loop
SCEN_E1 = 'scen_asrv'    # E1: AsyncServer / AsyncParmapper (loop + threads) under the deterministic scheduler


def keyfn(case, res, m):
    return f"{m['rule']}:{case['kind']}"


def _validate(chk, scen, results, label):
    """trace validation through `drv afifo` + differential comparison of the model's delivered
    values / outcome with the real run"""
    lines = []
    results = [(case, res) for case, res in results if case.get('fx') is None]   # raising `func`: monitors only
    # several driver processes side by side (the τ-closure makes validation the slowest part on big batches)
    chunks = []
    for k, (case, res) in enumerate(results):
        if k % 1500 == 0:
            chunks.append([])
        chunks[-1] += scen.model_lines(k, case, res)
    from concurrent.futures import ThreadPoolExecutor
    with ThreadPoolExecutor(max(1, min(chk.workers, len(chunks)))) as tp:
        out = [l for part in tp.map(lambda ls: core.run_driver('afifo', ls), chunks) for l in part]
    verdict = {}
    for l in out:
        w = l.split(' ', 2)
        if len(w) >= 2 and w[0] in ('ok', 'REJECT', 'NOFINAL'):
            verdict[w[1]] = l
    nval = 0
    for k, (case, res) in enumerate(results):
        v = verdict.get(str(k))
        if v is None:
            chk.corr_breaks.append(dict(model='afifo', case=case, verdict='no answer from the driver',
                                        events=res.get('events')))
        elif v.startswith('ok'):
            d = scen.differential(case, res, v)
            if d is None:
                nval += 1
            else:
                chk.corr_breaks.append(dict(model='afifo', case=case, verdict='MISMATCH ' + d,
                                            events=res.get('events'), monitors=res.get('monitors'), res=res))
        else:
            chk.corr_breaks.append(dict(model='afifo', case=case, verdict=v, events=res.get('events'),
                                        monitors=res.get('monitors'), res=res))
    chk.cov['traces_validated_against_impl'] += nval
    chk.cov.setdefault('suites', {})[label] = dict(cases=len(results), validated=nval)
    chk.add_obligation('correspondence', label, nval == len(results), cases=len(results), validated=nval)
    _recognise_legacy(chk, scen)
    return nval


def _recognise_legacy(chk, scen):
    """Legacy recogniser: traces the main model rejects are replayed through `drv afifostale`, the model
    of the pinned code (Legacy/AFifoStale.lean); if it accepts them, the behaviour seen is defect F1."""
    broken = [b for b in chk.corr_breaks if b.get('model') == 'afifo' and b.get('events') is not None
              and 'legacy' not in b][:400]
    if not broken:
        return
    lines = []
    for k, b in enumerate(broken):
        # re-derive the summary from the recorded events is not possible here; the break record keeps the result
        lines += scen.model_lines(k, b['case'], b['res'], stale=True) if 'res' in b else []
    if not lines:
        return
    out = core.run_driver('afifostale', lines)
    okset = {l.split(' ', 2)[1] for l in out if l.startswith('ok ')}
    n = 0
    for k, b in enumerate(broken):
        b['legacy'] = str(k) in okset
        n += int(b['legacy'])
    if n:
        chk.notes.append(f'{n} of {len(broken)} traces rejected by the model are accepted by Legacy/AFifoStale: '
                         'the code behaves like the pinned async feeder (defect F1: stale `t` enqueued on preprocessor failure)')


def _cases(chk, scen):
    rng = chk.rng
    quick = chk.tier == 'quick'
    n_rand = 2500 if quick else 60000
    boundary = scen.boundary_cases()
    rand = [scen.gen_case(rng, chk.tier, rng.choice(['', 'pre', 'pre', 'order', 'stop', 'src']))
            for _ in range(n_rand)]
    # all completion orders of n concurrent calls (capacity large enough for all n to be in flight)
    perms = []
    nmax = 4 if quick else 5
    for n in range(2, nmax + 1):
        perms += list(scen.perm_cases(n, cap=n))
    for n in range(2, (3 if quick else 5) + 1):
        for pf in ([0], [n - 1], [n // 2]):
            perms += list(scen.perm_cases(n, cap=n, pf=pf, rexc=True))
        perms += list(scen.perm_cases(n, cap=n, re=[n // 2], rexc=False))
        perms += list(scen.perm_cases(n, cap=1, pf=[1], rexc=True))
        perms += list(scen.perm_cases(n, cap=2, pf=[1], rexc=True, kind='apmap'))
    # thread-mixing variants under the deterministic scheduler (E1 + cooperative-selector loop)
    asrv = importlib.import_module(SCEN_E1)
    thr = [asrv.gen_case(rng, chk.tier, rng.choice(['', 'pre', 'pre'])) for _ in range(600 if quick else 20000)]
    return boundary, rand, perms, thr


def run(chk):
    chk.audit(PROPS)
    sys.path.insert(0, str(core.HARNESS))
    scen = importlib.import_module(SCEN)
    boundary, rand, perms, thr = _cases(chk, scen)
    props = {'C16'}
    # E2: virtual-time loop — monitors + trace validation + differential
    e2 = boundary + perms + rand
    results = chk.run_cases(SCEN, e2, sched=False)
    chk.account(scen, results, 'E2-vloop')
    chk.collect_monitors(results, props, keyfn)
    _validate(chk, scen, results, 'E2 async_fifo_stream / AsyncParmapperAsync vs drv afifo')
    # E1: AsyncServer.stream/call vs Server.stream/call, AsyncParmapper vs Stream.parmap — monitors only
    asrv = importlib.import_module(SCEN_E1)
    tres = chk.run_cases(SCEN_E1, thr, sched=True)
    chk.account(asrv, tres, 'E1-detsched+cooploop')
    chk.collect_monitors(tres, props, keyfn)
    _validate(chk, asrv, [(c, r) for c, r in tres if c['kind'] in asrv.VALIDATED_KINDS],
              'E1 AsyncServer.stream / AsyncParmapper(thread) vs drv afifo')
    chk.cov.setdefault('suites', {})['E1 AsyncServer.stream/call vs Server.stream/call, AsyncParmapper(thread) vs Stream.parmap'] = \
        dict(cases=len(tres), by_kind={k: sum(1 for c in thr if c['kind'] == k) for k in ('srv_stream', 'srv_call', 'apmap_thread', 'pmap_async')})
    # E1: AsyncServer over generated servlet trees (ensembles, switches, batching) with the adversarial
    # identity allocator.  What Server answers is settled by C02 (`outs` of the tree); an AsyncServer
    # whose answer leaves that set differs from its sync counterpart, so C02-tagged monitor hits on an
    # AsyncServer run are C16 findings.
    import scen_servlet
    tcases = []
    for _ in range(250 if chk.tier == 'quick' else 6000):
        c = scen_servlet.gen_case(chk.rng, chk.tier, '')
        c['asyncsrv'] = True
        c['adversarial_id'] = True
        tcases.append(c)
    sres = chk.run_cases('scen_servlet', tcases, sched=True)
    chk.account(scen_servlet, sres, 'E1-detsched+cooploop')
    relabelled = []
    for case, res in sres:
        ms = [dict(m, prop='C16', rule='asyncserver-tree-' + m['rule']) for m in res.get('monitors', [])
              if m['prop'] == 'C02' and m['rule'] in ('crosstalk', 'foreign-exception', 'two-outcomes', 'served-twice')]
        relabelled.append((dict(case, kind='srv_tree'), dict(res, monitors=ms)))
    chk.collect_monitors(relabelled, props, keyfn)
    chk.cov.setdefault('suites', {})['E1 AsyncServer over generated servlet trees, adversarial id allocator (answers vs outs of the tree)'] = dict(cases=len(sres))
    for case, res in results:
        if scen.nontrivial(case, res) and case.get('pf') and not case.get('perm'):
            chk.sample(dict(case=case, events=res.get('events', [])[:60], out=res.get('out'), end=res.get('end'),
                            sync_out=res.get('sync_out'), sync_end=res.get('sync_end')))
            if len(chk.cov['samples']) >= 3:
                break
    chk.cov['exhaustive_note'] = (f'all completion orders of n concurrent calls enumerated for n <= '
                                  f'{4 if chk.tier == "quick" else 5} ({len(perms)} permutation cases incl. failure plans); '
                                  'supporting evidence only — the quantifier is carried by the theorems')
    chk.cov['distribution'] = _distribution(e2 + thr)
    if chk.corr_breaks and not chk.violations:
        # a correspondence break without a monitor hit: look for a failing input around it
        more, more1 = [], []
        for b in chk.corr_breaks[:10]:
            for _ in range(60):
                c = dict(b['case'])
                c['seed'] = chk.rng.randrange(1 << 30)
                if c['kind'] in ('afifo', 'apmap'):
                    c['dur'] = [chk.rng.choice([0, 1, 2, 3, 5, 9]) for _ in c['dur']]
                    more.append(c)
                else:
                    c['chooser'] = list(chk.rng.choice([('random', 0.0), ('sticky', 0.2, 0.0), ('pct', 3, 600, 0.0)]))
                    more1.append(c)
        more += [scen.gen_case(chk.rng, chk.tier, chk.rng.choice(['pre', 'order', 'stop', 'src'])) for _ in range(600)]
        mres = chk.run_cases(SCEN, more, sched=False)
        chk.account(scen, mres, 'E2-vloop')
        chk.collect_monitors(mres, props, keyfn)
        if more1:
            mres1 = chk.run_cases(SCEN_E1, more1, sched=True)
            chk.account(asrv, mres1, 'E1-detsched+cooploop')
            chk.collect_monitors(mres1, props, keyfn)
            more += more1
        chk.notes.append(f'correspondence broke on {len(chk.corr_breaks)} cases; escalated search over {len(more)} more cases')
    chk.cov['rule'] = (
        'cases = boundary list (first/middle/last/all elements rejected, empty and 1-element inputs, failing and '
        'StopRequested sources, early close with a full queue) + all completion orders of n<=4 (quick) / n<=5 '
        '(thorough) concurrent calls via per-call virtual durations + random (kind, n, capacity, flags, preprocessor '
        'and worker failure plans, source ending, stop position, virtual durations of calls/source/consumer); each is '
        'run on the real async_fifo_stream / AsyncParmapperAsync under the virtual-time loop AND on the real '
        'fifo_stream / Stream.parmap(thread) and compared; plus random cases (kind, n, capacity, threads, plans, flags, '
        'chooser, seed) for AsyncServer.stream/call and AsyncParmapper vs their sync counterparts under the '
        'deterministic scheduler; non-trivial = n >= 2 elements and >= 2 calls in flight at the same time (E2) / >= 1 '
        'context switch (E1); distinct = distinct (case, event trace)')
    chk.trusted += TRUSTED
    chk.assumptions += ASSUMPTIONS


def _distribution(cases):
    d = dict(kind={}, n={}, src={}, first_rejected=0, any_rejected=0, early_close=0, rexc=0)
    for c in cases:
        d['kind'][c['kind']] = d['kind'].get(c['kind'], 0) + 1
        d['n'][str(c['n'])] = d['n'].get(str(c['n']), 0) + 1
        d['src'][c['src']] = d['src'].get(c['src'], 0) + 1
        d['first_rejected'] += int(c['pre'] and 0 in c['pf'])
        d['any_rejected'] += int(c['pre'] and bool(c['pf']))
        d['early_close'] += int(c['stop_after'] is not None)
        d['rexc'] += int(c['rexc'])
    return d


TRUSTED = [
    'Lean 4.33.0 kernel; axioms per theorem as listed in coverage.obligation_list (subset of propext, Classical.choice, Quot.sound)',
    'hand-written models lean/MpsVerif/Model/AFifo.lean (async_fifo_stream) and Model/Fifo.lean (fifo_stream); AFifo is '
    'tied to /repo by trace validation (drv afifo, Core.Val.validate_sound) and by comparing AFifo.delivered / '
    'AFifo.outcome with the real outputs on every run; Fifo is tied by the C01 check',
    'virtual-time event loop harness/vloop.py (SelectorEventLoop with a virtual clock; hang = idle loop without timers)',
    'modelled not verified: asyncio.Queue is FIFO with maxsize slots; awaiting a done task/future returns its own outcome; '
    'Task.cancel() succeeds on every task that is not done; a worker coroutine does not swallow CancelledError',
    'deterministic scheduler harness/detsched.py + cooperative-selector event loop harness/cooploop.py for the '
    'thread-mixing variants: AsyncServer.stream and AsyncParmapper(thread) are trace-validated against the same Lean '
    'model (their awaitables are plain futures: model action drainDetach) and compared with Server.stream / '
    'Stream.parmap; AsyncServer.call vs Server.call and ParmapperAsync vs Stream.parmap: monitors only '
    '(the servers\' own request ledger is the subject of C02)',
    'process servlets / process executors are not run by this check (OS schedule); same code path above the executor',
]
ASSUMPTIONS = [
    'the correspondence was checked on the cases explored in this run only; the theorems quantify over all action lists of the models',
    'the synchronous reference runs with real threads (its answer is schedule-independent by C01)',
    'garbage-collection-triggered finalisation of the async generator (asyncgen hooks) is not exercised; early stop = aclose()',
]


def replay(chk, data):
    e1 = data['case'].get('kind') in ('srv_stream', 'srv_call', 'apmap_thread', 'pmap_async')
    res = chk.run_cases(SCEN_E1 if e1 else SCEN, [data['case']], sched=e1)
    case, r = res[0]
    hits = [m for m in r['monitors'] if m['prop'] == chk.prop]
    print(json.dumps(dict(monitors=r['monitors'], out=r.get('out'), end=r.get('end'), sync_out=r.get('sync_out'),
                          sync_end=r.get('sync_end'), expected=r.get('expected')), default=str)[:3000])
    if hits:
        print(f'VIOLATION property={chk.prop} replay=(replayed)')
        return 1
    return 0
