"""C17 — IterableQueue delivers every item once and every consumer finishes.  DESIGN §5 C17."""
import json

import core
import scen_iq
import scen_iq_proc

PROPS = ['Props/C17.lean']


def keyfn(case, res, m):
    if case.get('kind') == 'timed':
        return f"{m['rule']}:{case['target']}"
    if case.get('chooser') == ['os']:
        return f"{m['rule']}:process"
    if any(case.get('early') or []):
        return f"{m['rule']}:early-put"
    if any(case.get('late') or []):
        return f"{m['rule']}:late-consumer"
    cls = 'stop' if case.get('stop') else ('multi-round' if case['rounds'] > 1 else 'one-round')
    return f"{m['rule']}:{cls}"


def run(chk):
    chk.audit(PROPS)
    n = 1000 if chk.tier == "quick" else 50000
    biases = ['markers', 'markers', '', 'stop', 'late', 'early']
    # can the token queues be observed (private names)?  If not, every trace is validated with the token
    # moves inferred, which is much more expensive: fewer and smaller cases then.
    fine_ok = chk.run_cases('scen_iq', [CORPUS[0]])[0][1].get('fine')
    if not fine_ok:
        n = 150 if chk.tier == "quick" else 3000
        biases = ['small']
        chk.notes.append('token queues not observable (private names changed?): coarse observation, reduced case budget')
    results = core.e1_flow(chk, 'scen_iq', 'iterq', {'C17'},
                 lambda rng: scen_iq.gen_case(rng, chk.tier, rng.choice(biases)),
                 n, keyfn=keyfn, corpus=CORPUS)
    chk.add_obligation('correspondence', 'trace refinement of the real IterableQueue runs by Model/IterQueue.lean (drv iterq, E1)',
                       not chk.corr_breaks, traces=chk.cov['traces_validated_against_impl'])
    # a small sample is also validated with only the data queue observed (token moves inferred),
    # so that the fall-back used when the private token queues cannot be wrapped stays exercised
    small = []
    for _ in range(24 if chk.tier == 'quick' else 300):
        c = scen_iq.gen_case(chk.rng, 'quick', 'markers')
        if c['m'] <= 2 and c['n'] <= 2 and c['rounds'] <= 2:
            c['fine'] = False
            small.append(c)
    if small:
        res = chk.run_cases('scen_iq', small)
        chk.account(scen_iq, res, 'E1-detsched')
        chk.collect_monitors(res, {'C17'}, keyfn)
        chk.validate('iterq', scen_iq, res)
    # timed calls: one blocked put/get with an explicit timeout (shorter / equal / longer than the wait
    # interval, or none) on IterableQueue.put and ResponsiveQueue.put/get, stop request and/or rescue at
    # generated moments: monitors (stop clause on the call) + differential against `timedCall` (Lean)
    tcases = TIMED_CORPUS + [scen_iq.gen_timed_case(chk.rng, chk.tier) for _ in range(400 if chk.tier == 'quick' else 8000)]
    tres = chk.run_cases('scen_iq', tcases)
    chk.account(scen_iq, tres, 'E1-detsched')
    chk.collect_monitors(tres, {'C17'}, keyfn)
    lines = []
    for k, (case, res) in enumerate(tres):
        if res.get('timed') is None:
            continue
        T, sr, rr = scen_iq.timed_rel(case)
        args = f'w={scen_iq.WQ} fuel=64' + ''.join(f' {n}={v}' for n, v in (('T', T), ('s', sr), ('r', rr)) if v is not None)
        lines += [f'tc {k}.0 {args} tie=0', f'tc {k}.1 {args} tie=1']
    allowed = {}
    for l in core.run_driver('iterq', lines):
        w = l.split()
        if len(w) == 4 and w[0] == 'out':
            allowed.setdefault(int(w[1].split('.')[0]), set()).add((w[2], int(w[3])))
    nt = 0
    for k, (case, res) in enumerate(tres):
        if res.get('timed') is None:
            continue
        obs = (res['timed'][0], res['timed'][1])
        if obs in allowed.get(k, ()):
            nt += 1
        else:
            chk.corr_breaks.append(dict(model='iterq.timedCall', case=case, events=res['events'], monitors=res['monitors'],
                                        verdict=f'MISMATCH {k} timedCall allows {sorted(allowed.get(k, ()))}, the implementation ended {obs}'))
    chk.cov['traces_validated_against_impl'] += nt
    chk.add_obligation('correspondence', 'timed ResponsiveQueue/IterableQueue calls end as Model.timedCall says (differential, E1 clock)',
                       nt == sum(1 for _c, r in tres if r.get('timed') is not None), cases=nt)
    # process variant: real processes, OS schedule (sampled); outcome at quiescent points compared with
    # what the theorems predict; no trace validation
    pcases = [scen_iq_proc.gen_case(chk.rng, chk.tier) for _ in range(6 if chk.tier == 'quick' else 160)]
    # real threads with the genuine multiprocessing helper queues (stop event given, never set)
    pcases += [scen_iq_proc.gen_rt_case(chk.rng, chk.tier) for _ in range(3 if chk.tier == 'quick' else 40)]
    import concurrent.futures as cf
    try:
        # each case is its own interpreter in its own session (killed afterwards); threads only wait for them
        with cf.ThreadPoolExecutor(9 if chk.tier == 'quick' else 12) as ex:
            pres = list(zip(pcases, ex.map(scen_iq_proc.run_case, pcases)))
    except RuntimeError as e:
        raise core.InfraError(str(e))
    chk.account(scen_iq_proc, pres, 'E4-processes')
    chk.collect_monitors(pres, {'C17'}, keyfn)
    chk.add_obligation('correspondence', 'process variant: outcome at quiescent points = theorem-predicted state (sampled OS schedules)',
                       not any(r['monitors'] for _c, r in pres), cases=len(pres))
    if any(b.get('model') == 'iterq' for b in chk.corr_breaks):
        # recogniser: are the runs the repaired model rejects runs of the model of the pinned code?
        brk = [b for b in chk.corr_breaks if b.get('events') is not None and b.get('model') == 'iterq'][:300]
        lines = []
        for k, b in enumerate(brk):
            case = dict(b['case'], legacy_model=True)
            res = dict(events=[tuple(e) for e in b['events']], final=None, fine=any(e[0] == 'full' for e in b['events']))
            lines += scen_iq.model_lines(k, case, res)
        try:
            out = core.run_driver('iterq', lines, timeout=120)
        except Exception as e:  # noqa  (the recogniser is informative only)
            out = []
            chk.notes.append(f'legacy recogniser did not finish: {e!r}')
        nleg = sum(1 for l in out if l.startswith('ok'))
        chk.notes.append(f'{nleg} of {len(brk)} runs rejected by the model are accepted (as prefixes) by Legacy/IterQueue.lean: '
                         'the token hand-over runs without the lock, i.e. defect F14 (two consumers both add the extra marker)')
        print(f'[C17] recogniser: {nleg}/{len(brk)} rejected traces are runs of the legacy model (F14: no _lids_lock)')
    chk.cov['rule'] = ('cases = random (m, n in 1..3, rounds 1..3, data-queue bound in {unbounded,1,2,3,5}, values per '
                       'supplier and round 0..3 incl. duplicate values, with/without stop event, stop request after a '
                       'generated number of scheduling points / virtual seconds with suppliers that never end or consumers '
                       'that never start, renew after the last round or not, consumers that start only after the round is over, suppliers of '
                       'the next round that start before renew with put_end(wait_for_renew=True), helper queues of the thread kind (no stop '
                       'event) or of the multiprocessing kind (stop event), chooser, seed) run on the real IterableQueue '
                       'with real threads under the deterministic scheduler; plus timed-call cases = one blocked '
                       'IterableQueue.put / ResponsiveQueue.put/get with own timeout in {none, 0, block=False, 0.5, 1, 1.5, 2.5, 3, 4, 20 s} '
                       '(wait interval 1 s), call start, stop request and rescue at generated virtual moments (non-trivial = a stop '
                       'request or a rescue happens); non-trivial = at least 3 actors, at least one '
                       'value and at least one context switch; distinct = distinct (case, event trace)')
    import collections
    hist = collections.Counter()
    acts = collections.Counter()
    for case, res in results:
        hist[f"m{case['m']}n{case['n']}"] += 1
        hist[f"rounds={case['rounds']}"] += 1
        hist[f"cap={case['cap']}"] += 1
        hist['with_stop_event' if case['resp'] else 'no_stop_event'] += 1
        if case.get('stop'):
            hist['stop_requested'] += 1
        names = {e[0] for e in res.get('events', [])}
        for nm in names:
            acts[nm] += 1          # runs that exercised this observable model action
        if res.get('fine'):
            hist['fine_observation'] += 1
    chk.cov['distribution'] = dict(cases=dict(sorted(hist.items())), runs_exercising_event=dict(sorted(acts.items())),
                                   note='events are logged at the linearisation point of each queue operation; '
                                        'token-queue sizes and queue contents are probed at every quiescent point')
    chk.trusted += TRUSTED
    chk.assumptions += ASSUMPTIONS


# the calls a stop request must still reach although they carry their own (long) timeout
TIMED_CORPUS = [
    dict(kind='timed', target='iq.put', T=80, nowait=False, a=0, s=2, r=None, chooser=['random', 0.0], seed=11),
    dict(kind='timed', target='rq.get', T=80, nowait=False, a=0, s=2, r=None, chooser=['random', 0.0], seed=12),
    dict(kind='timed', target='rq.put', T=6, nowait=False, a=2, s=4, r=None, chooser=['random', 0.0], seed=13),
    dict(kind='timed', target='iq.put', T=None, nowait=False, a=0, s=2, r=None, chooser=['random', 0.0], seed=14),
    dict(kind='timed', target='rq.get', T=4, nowait=False, a=0, s=2, r=None, chooser=['random', 0.0], seed=15),
    dict(kind='timed', target='rq.get', T=2, nowait=False, a=0, s=0, r=None, chooser=['random', 0.0], seed=16),
    # a sole consumer right behind the first of two suppliers, helper queues of the multiprocessing kind
    dict(m=2, n=1, cap=0, rounds=1, items=[[[1], [2]]], resp=True, stop=None, hold_sup=[], skip_con=[],
         final_renew=True, late=[[]], early=[[]], chooser=['sticky', 0.05, 0.0], seed=5),
    # round over; a late second consumer iterates and the supplier already puts the next round's items
    # (put_end(wait_for_renew=True)), both before renew
    dict(m=1, n=2, cap=0, rounds=2, items=[[[1, 2]], [[3, 4]]], resp=True, stop=None, hold_sup=[], skip_con=[],
         final_renew=False, late=[[1], []], early=[[0], []], chooser=['random', 0.0], seed=6),
    dict(m=1, n=2, cap=0, rounds=2, items=[[[1, 2]], [[3, 4]]], resp=True, stop=None, hold_sup=[], skip_con=[],
         final_renew=False, late=[[1], []], early=[[0], []], chooser=['sticky', 0.05, 0.0], seed=7),
]

# minimal schedule-independent regression cases (run first)
CORPUS = [
    dict(m=1, n=1, cap=1, rounds=2, items=[[[1, 2, 3]], [[4]]], resp=False, stop=None, hold_sup=[], skip_con=[],
         final_renew=True, chooser=['random', 0.0], seed=1),
    dict(m=2, n=2, cap=0, rounds=2, items=[[[1], []], [[2, 2], [3]]], resp=True, stop=None, hold_sup=[], skip_con=[],
         final_renew=False, chooser=['random', 0.0], seed=2),
    dict(m=1, n=2, cap=0, rounds=1, items=[[[5]]], resp=True, stop=dict(round=0, yields=3, sleep=2), hold_sup=[0],
         skip_con=[], final_renew=False, chooser=['random', 0.0], seed=3),
    dict(m=2, n=1, cap=1, rounds=1, items=[[[5, 6, 7], [8]]], resp=True, stop=dict(round=0, yields=0, sleep=1),
         hold_sup=[], skip_con=[0], final_renew=False, chooser=['sticky', 0.2, 0.0], seed=4),
]

TRUSTED = [
    'Lean 4.33.0 kernel; axioms per theorem as listed in coverage.obligation_list (subset of propext, Classical.choice, Quot.sound)',
    'hand-written model lean/MpsVerif/Model/IterQueue.lean (repaired code, F14), tied to /repo by trace validation '
    '(drv iterq, Core.Val.validate_sound) on every run: data-queue operations, token moves and used.full() reads are '
    'logged at their linearisation point; token-queue sizes and queue contents are compared at every quiescent point',
    'deterministic scheduler harness/detsched.py (replaces threading primitives, clock); timers fire only when no thread is enabled',
    'modelled not verified: queue.Queue is FIFO, atomic, blocks exactly when full/empty, a bounded get/put raises only if '
    'still empty/full at expiry; threading.Lock is a mutex; Event.is_set is a single read',
    'the harness builds IterableQueue in thread mode and installs ResponsiveQueue(q, to_stop) itself; the three token queues are '
    'replaced by logging stand-ins of the kind __init__ would choose: queue.Queue subclasses without a stop event, and with a '
    'stop event FeedTok = a scheduler-driven stand-in for multiprocessing.Queue (buffer + feeder thread, get/empty see only '
    'flushed objects, full/qsize count the semaphore), because the real multiprocessing queues block in pipe reads and cannot '
    'run under the scheduler; the stand-in is cross-checked by a real-thread sample with the genuine helper queues',
    'process variant (multiprocessing queues / lock): OS schedule not controlled; a few cases per run are executed with real '
    'processes and their outcome at quiescent points is compared with the state the theorems predict (no trace validation); '
    'the quantifier over interleavings is carried by the theorems alone',
]
ASSUMPTIONS = [
    'early next-round puts (put_end(wait_for_renew=True) use) are monitor-only: the trace is validated up to the first such put, the '
    'model has no puts between put_end and renew; they are generated only after every started consumer iteration of the round ended',
    'usage protocol (guards of the model): a supplier puts only before its put_end of the round; renew is called only after '
    'every consumer iteration of the round has ended; the next round starts after renew returned; put(None) is never called',
    'C17_stop_responsive bounds the wait in clock units under zero scheduling latency (a thread whose bounded wait '
    'expired runs before the clock moves on); the 24 h total limit of ResponsiveQueue is not modelled',
    'the correspondence was checked on the schedules explored in this run only; the theorems quantify over all schedules of the model',
]


def replay(chk, data):
    res = chk.run_cases('scen_iq', [data['case']])
    case, r = res[0]
    hits = [m for m in r['monitors'] if m['prop'] == chk.prop]
    print(json.dumps(dict(monitors=r['monitors'], rounds=r.get('rounds'), final=r.get('final')), default=str)[:2500])
    if hits:
        print(f'VIOLATION property={chk.prop} replay=(replayed)')
        return 1
    return 0
