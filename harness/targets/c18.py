"""C18 — socket and pipe transports deliver intact and to the right request.  DESIGN §5 C18."""
import importlib
import json
import sys

import core

PROPS = ['Props/C18.lean']


def keyfn(case, res, m):
    return f"{m['rule']}:{case['kind']}"


def _frame_part(chk, n):
    sys.path.insert(0, str(core.HARNESS))
    scen = importlib.import_module('scen_frame')
    cases = [scen.gen_case(chk.rng, chk.tier) for _ in range(n)]
    results = chk.run_cases('scen_frame', cases, sched=False)
    chk.account(scen, results, 'E3-differential')
    chk.collect_monitors(results, {'C18'}, keyfn)
    nval, ntot = chk.validate('frame', scen, results)
    chk.add_obligation('correspondence', 'frame: real write_record/read_record vs Frame.encodeStream/decodeStream (byte-exact)',
                       nval == ntot, cases=ntot, agreed=nval)
    dist = chk.cov['distribution'].setdefault('frame', {})
    for case, res in results:
        dist[case['mode']] = dist.get(case['mode'], 0) + 1
        dist['end:' + res['end']] = dist.get('end:' + res['end'], 0) + 1
        dist['chunkings'] = dist.get('chunkings', 0) + res['nchunkings']
        dist['records_read'] = dist.get('records_read', 0) + res['nread']
        dist['max_wire_len'] = max(dist.get('max_wire_len', 0), res['wire_len'])
    for case, res in results:
        if scen.nontrivial(case, res) and res['wire_len'] < 400:
            chk.sample(dict(case=case, wire=res['wire_hex'], end=res['end'], read=res['got_hex']))
            break
    return results


def _sock_part(chk, n_sock, n_pipe):
    scen = importlib.import_module('scen_sock')
    rng = chk.rng
    cases = [scen.gen_sock(rng, chk.tier, mode='thread', boundary='one'),
             scen.gen_sock(rng, chk.tier, mode='thread', boundary='flood'),
             scen.gen_sock(rng, chk.tier, mode='thread', boundary='bigfast'),
             scen.gen_sock(rng, chk.tier, mode='proc', boundary='bigfast')]
    cases += [scen.gen_sock(rng, chk.tier, boundary=('bigfast' if rng.random() < 0.1 else None)) for _ in range(n_sock)]
    cases += [scen.gen_pipe(rng, chk.tier) for _ in range(n_pipe)]
    try:
        results = chk.run_cases('scen_sock', cases, sched=False, per_case_timeout=scen.CHILD_TIMEOUT + 30)
    except core.InfraError:
        raise
    chk.account(scen, results, 'E4-processes')
    chk.collect_monitors(results, {'C18'}, keyfn)
    traced = [(c, r) for c, r in results if c['kind'] == 'sock' and c['mode'] == 'thread']
    nval, ntot = chk.validate('mux', scen, traced)
    chk.add_obligation('correspondence', 'mux: event traces of the real SocketServer/SocketClient replayed through Mux.step (drv mux)',
                       nval == ntot, cases=ntot, agreed=nval)
    dist = chk.cov['distribution'].setdefault('sock', {})
    walls = sorted(r.get('wall') or 0 for _c, r in results)
    for case, res in results:
        key = case['kind'] + (':' + case['mode'] if case['kind'] == 'sock' else '')
        dist[key] = dist.get(key, 0) + 1
        if case['kind'] == 'sock':
            dist['requests'] = dist.get('requests', 0) + len(case['reqs'])
            dist['handler_completions_overtaking'] = dist.get('handler_completions_overtaking', 0) + (res.get('reordered') or 0)
            dist['max_body_bytes'] = max(dist.get('max_body_bytes', 0), max(r['pl'][1] for r in case['reqs']))
            dist[f'nconn={case["nconn"]}'] = dist.get(f'nconn={case["nconn"]}', 0) + 1
        else:
            dist['pipe_objects'] = dist.get('pipe_objects', 0) + res.get('nobjects', 0)
    dist['median_case_wall_s'] = walls[len(walls) // 2] if walls else 0
    dist['max_case_wall_s'] = walls[-1] if walls else 0
    for case, res in results:
        if case['kind'] == 'sock' and case['mode'] == 'thread' and 2 <= len(case['reqs']) <= 4:
            chk.sample(dict(case=case, events=[list(e) for e in res['events']][:80], results=res['results']))
            break
    return results


def _pipe_part(chk, n):
    scen = importlib.import_module('scen_pipe')
    cases = [scen.gen_case(chk.rng, chk.tier) for _ in range(n)]
    results = chk.run_cases('scen_pipe', cases, sched=False)
    chk.account(scen, results, 'E3-differential')
    chk.collect_monitors(results, {'C18'}, keyfn)
    nval, ntot = chk.validate('pipe', scen, results)
    chk.add_obligation('correspondence', 'pipe: send/recv traces of the real pipe.Server/Client replayed through Pipe.step, '
                       'and Connection framing vs Pipe.frame/readFrame (drv pipe)', nval == ntot, cases=ntot, agreed=nval)
    dist = chk.cov['distribution'].setdefault('pipe_inproc', {})
    for case, res in results:
        dist['cases'] = dist.get('cases', 0) + 1
        dist['messages'] = dist.get('messages', 0) + res['nmsg']
        dist['frames_compared'] = dist.get('frames_compared', 0) + len(res['frames'])
        dist['max_message_bytes'] = max([dist.get('max_message_bytes', 0)] + [e[2] for e in res['events']])
    return results


def run(chk):
    chk.audit(PROPS)
    quick = chk.tier == 'quick'
    _frame_part(chk, 500 if quick else 12000)
    _pipe_part(chk, 60 if quick else 1500)
    _sock_part(chk, 36 if quick else 500, 10 if quick else 120)
    chk.cov['rule'] = (
        'frame (E3): cases = random (records: id class x encoder x payload class [empty, header look-alike, newline-heavy, '
        'random bytes, nested objects, unicode text] x size incl. 64 KiB boundaries; reader limit; mode clean/cut/malformed '
        'tail; 3-6 chunkings per stream incl. byte-wise and cuts at record/header boundaries) run through the real '
        'write_record/read_record and an asyncio.StreamReader, compared byte-exactly with the Lean model; '
        'non-trivial = at least 2 chunkings and (at least 2 records or a cut/malformed stream); distinct = distinct '
        '(case, sha1 of the fed stream, ending).')
    chk.trusted += TRUSTED
    chk.assumptions += ASSUMPTIONS


TRUSTED = [
    'Lean 4.33.0 kernel; axioms per theorem as listed in coverage.obligation_list (subset of propext, Classical.choice, Quot.sound)',
    'hand-written model lean/MpsVerif/Model/Frame.lean of write_record/read_record, tied to /repo by byte-exact differential runs (drv frame) on every run',
    'modelled not verified: asyncio.StreamReader.readuntil/readexactly return the same bytes for every chunking of the input '
    '(sampled by the tie: every stream is read under several chunkings); pickle/utf8 encode-decode round trip of the payload object',
]
ASSUMPTIONS = [
    'request ids are non-empty printable ASCII without white space (the client uses decimal id(fut)) and the header line fits the StreamReader limit',
    'the correspondence was checked on the cases generated in this run only; the theorems quantify over all byte strings / schedules of the model',
]


def replay(chk, data):
    case = data['case']
    scen_name = {'frame': 'scen_frame', 'sock': 'scen_sock', 'pipe': 'scen_sock', 'pipeip': 'scen_pipe'}.get(case.get('kind'), 'scen_frame')
    res = chk.run_cases(scen_name, [case], sched=False)
    _case, r = res[0]
    hits = [m for m in r['monitors'] if m['prop'] == chk.prop]
    print(json.dumps(dict(monitors=r['monitors'], end=r.get('end')), default=str)[:2000])
    if hits:
        print(f'VIOLATION property={chk.prop} replay=(replayed)')
        return 1
    return 0
